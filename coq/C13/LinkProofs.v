(* C13: proofs about the model in Link.v *)
From Coq Require Import List Arith Bool Lia.
Import ListNotations.
From MirV Require Import C13.Link.

(* ------------------------------------------------------------ association lists *)

Lemma assoc_app {A} (l1 l2 : list (name * A)) n :
  assoc (l1 ++ l2) n = match assoc l1 n with Some v => Some v | None => assoc l2 n end.
Proof.
  induction l1 as [|[m v] l1 IH]; simpl; [reflexivity|].
  destruct (Nat.eqb m n); [reflexivity | exact IH].
Qed.

Lemma assoc_env_update e n d m :
  assoc (env_update e n d) m
  = if Nat.eqb n m then match assoc e n with Some _ => Some d | None => None end else assoc e m.
Proof.
  induction e as [|[k v] e IH]; simpl.
  - destruct (Nat.eqb n m); reflexivity.
  - destruct (Nat.eqb k n) eqn:Hkn; simpl.
    + apply Nat.eqb_eq in Hkn; subst k.
      destruct (Nat.eqb n m) eqn:Hnm; [reflexivity|]. reflexivity.
    + destruct (Nat.eqb k m) eqn:Hkm.
      * destruct (Nat.eqb n m) eqn:Hnm; [|reflexivity].
        apply Nat.eqb_eq in Hkm, Hnm. subst. rewrite Nat.eqb_refl in Hkn. discriminate.
      * exact IH.
Qed.

Lemma setup_global_lookup e n d m :
  assoc (fst (setup_global e n d)) m = if Nat.eqb n m then Some d else assoc e m.
Proof.
  unfold setup_global. destruct (assoc e n) eqn:He; simpl.
  - rewrite assoc_env_update, He. reflexivity.
  - rewrite assoc_app. simpl.
    destruct (Nat.eqb n m) eqn:Hnm.
    + apply Nat.eqb_eq in Hnm; subst m. rewrite He. reflexivity.
    + destruct (assoc e m); reflexivity.
Qed.

Lemma setup_global_existed e n d :
  snd (setup_global e n d) = match assoc e n with Some _ => true | None => false end.
Proof. unfold setup_global. destruct (assoc e n); reflexivity. Qed.

(* ------------------------------------------------------------ the log *)

Lemma last_def_app l1 l2 n :
  last_def (l1 ++ l2) n = match last_def l2 n with Some d => Some d | None => last_def l1 n end.
Proof.
  induction l1 as [|[m d] l1 IH]; simpl.
  - destruct (last_def l2 n); reflexivity.
  - rewrite IH. destruct (last_def l2 n); reflexivity.
Qed.

Lemma last_def_snoc l m d n :
  last_def (l ++ [(m, d)]) n = if Nat.eqb m n then Some d else last_def l n.
Proof. rewrite last_def_app. simpl. destruct (Nat.eqb m n); reflexivity. Qed.

(* the environment table answers every lookup with the last logged definition *)
Definition agree (e : envT) (log : list (name * defref)) : Prop :=
  forall n, assoc e n = last_def log n.

Lemma agree_nil : agree [] [].
Proof. intro n. reflexivity. Qed.

Lemma agree_setup e log n d :
  agree e log -> agree (fst (setup_global e n d)) (log ++ [(n, d)]).
Proof.
  intros H m. rewrite setup_global_lookup, last_def_snoc.
  destruct (Nat.eqb n m); [reflexivity | apply H].
Qed.

(* ------------------------------------------------------------ MIR_load_module *)

Lemma load_items_ok id items : forall i e rd e' log,
  load_items id items i e rd = (e', None) ->
  agree e log -> agree e' (log ++ exported_from id items i).
Proof.
  induction items as [|it rest IH]; intros i e rd e' log H Ha; simpl in *.
  - inversion H; subst. rewrite app_nil_r. exact Ha.
  - destruct (iexp it).
    + destruct (setup_global e (iname it) (DMod id i (ik it))) as [e1 ex] eqn:Hs.
      destruct (ex && ikind_eqb (ik it) KFunc && negb rd); [discriminate|].
      change (log ++ (iname it, DMod id i (ik it)) :: exported_from id rest (S i))
        with (log ++ [(iname it, DMod id i (ik it))] ++ exported_from id rest (S i)).
      rewrite app_assoc. eapply IH; [exact H|].
      replace e1 with (fst (setup_global e (iname it) (DMod id i (ik it)))) by (rewrite Hs; reflexivity).
      apply agree_setup. exact Ha.
    + eapply IH; eauto.
Qed.

Lemma load_items_err_kind id items : forall i e rd,
  snd (load_items id items i e rd) = None \/ snd (load_items id items i e rd) = Some ERepeatedDecl.
Proof.
  induction items as [|it rest IH]; intros; simpl; [left; reflexivity|].
  destruct (iexp it); [|apply IH].
  destruct (setup_global e (iname it) (DMod id i (ik it))) as [e1 ex].
  destruct (ex && ikind_eqb (ik it) KFunc && negb rd); [right; reflexivity | apply IH].
Qed.

Lemma ikind_eqb_eq a b : ikind_eqb a b = true <-> a = b.
Proof. destruct a, b; simpl; split; intro H; try reflexivity; try discriminate. Qed.

(* the load is rejected exactly when redefinition is not permitted and some exported FUNCTION of
   the module has a name that is already defined (by the log or by an earlier item of the module) *)
Lemma load_items_rejects id items : forall i e rd log,
  agree e log ->
  (snd (load_items id items i e rd) = Some ERepeatedDecl <->
   rd = false /\ exists l1 it l2, items = l1 ++ it :: l2 /\ iexp it = true /\ ik it = KFunc /\
                   last_def (log ++ exported_from id l1 i) (iname it) <> None).
Proof.
  induction items as [|it rest IH]; intros i e rd log Ha; simpl.
  - split; [discriminate|]. intros [_ (l1 & x & l2 & H & _)]. destruct l1; discriminate.
  - destruct (iexp it) eqn:Hexp.
    + destruct (setup_global e (iname it) (DMod id i (ik it))) as [e1 ex] eqn:Hs.
      assert (Hex : ex = match last_def log (iname it) with Some _ => true | None => false end).
      { pose proof (setup_global_existed e (iname it) (DMod id i (ik it))) as Hx.
        rewrite Hs in Hx. simpl in Hx. rewrite Hx, Ha. reflexivity. }
      assert (Ha1 : agree e1 (log ++ [(iname it, DMod id i (ik it))])).
      { replace e1 with (fst (setup_global e (iname it) (DMod id i (ik it)))) by (rewrite Hs; reflexivity).
        apply agree_setup. exact Ha. }
      destruct (ex && ikind_eqb (ik it) KFunc && negb rd) eqn:Hc; simpl.
      * apply andb_true_iff in Hc. destruct Hc as [Hc Hrd]. apply andb_true_iff in Hc.
        destruct Hc as [Hx Hk]. apply ikind_eqb_eq in Hk. apply negb_true_iff in Hrd.
        split; [intros _|reflexivity]. split; [exact Hrd|].
        exists [], it, rest. simpl. rewrite app_nil_r. repeat split; auto.
        rewrite Hex in Hx. destruct (last_def log (iname it)); [discriminate|discriminate].
      * specialize (IH (S i) e1 rd _ Ha1). rewrite IH. clear IH.
        split.
        -- intros [Hrd (l1 & x & l2 & Hsp & Hxe & Hxk & Hl)]. split; [exact Hrd|].
           exists (it :: l1), x, l2. simpl. rewrite Hsp, Hexp. repeat split; auto.
           rewrite <- app_assoc in Hl. exact Hl.
        -- intros [Hrd (l1 & x & l2 & Hsp & Hxe & Hxk & Hl)]. split; [exact Hrd|].
           destruct l1 as [|y l1]; simpl in Hsp; inversion Hsp; subst.
           ++ exfalso. simpl in Hl. rewrite app_nil_r in Hl.
              rewrite Hxk in Hc. simpl in Hc. rewrite andb_true_r in Hc.
              destruct (last_def log (iname x)); [simpl in Hc; discriminate | apply Hl; reflexivity].
           ++ exists l1, x, l2. repeat split; auto.
              simpl in Hl. rewrite Hexp in Hl. rewrite <- app_assoc. exact Hl.
    + rewrite (IH (S i) e rd log Ha). split.
      * intros [Hrd (l1 & x & l2 & Hsp & Hxe & Hxk & Hl)]. split; [exact Hrd|].
        exists (it :: l1), x, l2. simpl. rewrite Hsp, Hexp. repeat split; auto.
      * intros [Hrd (l1 & x & l2 & Hsp & Hxe & Hxk & Hl)]. split; [exact Hrd|].
        destruct l1 as [|y l1]; simpl in Hsp; inversion Hsp; subst.
        -- rewrite Hxe in Hexp. discriminate.
        -- exists l1, x, l2. repeat split; auto. simpl in Hl. rewrite Hexp in Hl. exact Hl.
Qed.

(* ------------------------------------------------------------ MIR_link *)

(* what an import of n gets when the table is e and the resolver is r *)
Definition bind_spec (e : envT) (r : resolver) (n : name) : option defref :=
  match assoc e n with
  | Some d => Some d
  | None => match r n with Some a => Some (DExt a) | None => None end
  end.

(* registering the resolver's answers *)
Fixpoint apply_new (e : envT) (new : list (name * nat)) : envT :=
  match new with
  | [] => e
  | (n, a) :: rest => apply_new (fst (setup_global e n (DExt a))) rest
  end.

Lemma apply_new_app e l1 l2 : apply_new e (l1 ++ l2) = apply_new (apply_new e l1) l2.
Proof. revert e; induction l1 as [|[n a] l1 IH]; intro e; simpl; [reflexivity | apply IH]. Qed.

Lemma agree_apply_new new : forall e log,
  agree e log -> agree (apply_new e new) (log ++ map (fun na => (fst na, DExt (snd na))) new).
Proof.
  induction new as [|[n a] new IH]; intros e log Ha; simpl.
  - rewrite app_nil_r. exact Ha.
  - change ((n, DExt a) :: map (fun na => (fst na, DExt (snd na))) new)
      with ([(n, DExt a)] ++ map (fun na => (fst na, DExt (snd na))) new).
    rewrite app_assoc. apply IH. apply agree_setup. exact Ha.
Qed.

Lemma bind_spec_ext e r n a :
  assoc e n = None -> r n = Some a ->
  forall m, bind_spec (fst (setup_global e n (DExt a))) r m = bind_spec e r m.
Proof.
  intros He Hr m. unfold bind_spec. rewrite setup_global_lookup.
  destruct (Nat.eqb n m) eqn:Hnm; [|reflexivity].
  apply Nat.eqb_eq in Hnm; subst m. rewrite He, Hr. reflexivity.
Qed.

(* the resolver was asked exactly for names without a definition, and answered *)
Definition fresh_answers (e : envT) (r : resolver) (new : list (name * nat)) : Prop :=
  forall n a, In (n, a) new -> assoc e n = None /\ r n = Some a.

Definition imports_in (items : list mitem) : list name :=
  map iname (filter (fun it => ikind_eqb (ik it) KImport) items).

Lemma import_bindings_cons_import n d bs :
  import_bindings ((KImport, n, d) :: bs) = (n, d) :: import_bindings bs.
Proof. reflexivity. Qed.

Lemma import_bindings_cons_other k n d bs :
  ikind_eqb k KImport = false -> import_bindings ((k, n, d) :: bs) = import_bindings bs.
Proof. intro H. unfold import_bindings. simpl. rewrite H. reflexivity. Qed.

Ltac splits6 := split; [|split; [|split; [|split; [|split]]]].
Ltac splits5 := split; [|split; [|split; [|split]]].

Lemma link_items_ok r id m items : forall e res e' res' bs,
  link_items r id m items e res = inl (e', res', bs) ->
  exists new, res' = res ++ new /\ e' = apply_new e new /\ fresh_answers e r new /\
    (forall k, bind_spec e' r k = bind_spec e r k) /\
    import_bindings bs = map (fun n => (n, bind_spec e r n)) (imports_in items) /\
    (forall n, In n (imports_in items) -> bind_spec e r n <> None).
Proof.
  induction items as [|it rest IH]; intros e res e' res' bs H; simpl in H.
  - inversion H; subst. exists []. rewrite app_nil_r.
    splits6; try reflexivity; try (intros n a []); try (intros n []); auto.
  - unfold imports_in in *. simpl.
    destruct (ik it) eqn:Hk; simpl.
    + (* import *)
      destruct (assoc e (iname it)) as [d|] eqn:He.
      * destruct (link_items r id m rest e res) as [[[e1 res1] bs1]|] eqn:Hl; [|discriminate].
        inversion H; subst. destruct (IH _ _ _ _ _ Hl) as (new & H1 & H2 & H3 & H4 & H5 & H6).
        exists new. splits6; auto.
        -- rewrite import_bindings_cons_import, H5. f_equal. unfold bind_spec. rewrite He. reflexivity.
        -- intros n [Hn|Hn]; [subst n; unfold bind_spec; rewrite He; discriminate | apply H6; exact Hn].
      * destruct (r (iname it)) as [a|] eqn:Hr; [|discriminate].
        destruct (link_items r id m rest (fst (setup_global e (iname it) (DExt a))) (res ++ [(iname it, a)]))
          as [[[e1 res1] bs1]|] eqn:Hl; [|discriminate].
        inversion H; subst. destruct (IH _ _ _ _ _ Hl) as (new & H1 & H2 & H3 & H4 & H5 & H6).
        pose proof (bind_spec_ext e r (iname it) a He Hr) as Hext.
        exists ((iname it, a) :: new). splits6.
        -- rewrite H1, <- app_assoc. reflexivity.
        -- exact H2.
        -- intros n b [Hin|Hin].
           ++ inversion Hin; subst. split; [exact He | exact Hr].
           ++ destruct (H3 _ _ Hin) as [Hx Hy]. split; [|exact Hy]. rewrite setup_global_lookup in Hx.
              destruct (Nat.eqb (iname it) n); [discriminate | exact Hx].
        -- intro k. rewrite H4. apply Hext.
        -- rewrite import_bindings_cons_import, H5. f_equal.
           ++ f_equal. unfold bind_spec. rewrite He, Hr. reflexivity.
           ++ apply map_ext. intro n. rewrite Hext. reflexivity.
        -- intros n [Hn|Hn].
           ++ subst n. unfold bind_spec. rewrite He, Hr. discriminate.
           ++ rewrite <- Hext. apply H6. exact Hn.
    + destruct (link_items r id m rest e res) as [[[e1 res1] bs1]|] eqn:Hl; [|discriminate].
      inversion H; subst. destruct (IH _ _ _ _ _ Hl) as (new & H1 & H2 & H3 & H4 & H5 & H6).
      exists new. splits6; auto.
    + destruct (link_items r id m rest e res) as [[[e1 res1] bs1]|] eqn:Hl; [|discriminate].
      inversion H; subst. destruct (IH _ _ _ _ _ Hl) as (new & H1 & H2 & H3 & H4 & H5 & H6).
      exists new. splits6; auto.
    + apply IH. exact H.
    + apply IH. exact H.
    + apply IH. exact H.
Qed.

(* a failed link step: the resolver's answers before the failing import are registered (and were
   asked for undefined names only); some import has neither a definition nor a resolver address *)
Lemma link_items_err r id m items : forall e res e1 res1,
  link_items r id m items e res = inr (e1, res1) ->
  exists new, res1 = res ++ new /\ e1 = apply_new e new /\ fresh_answers e r new /\
    (forall k, bind_spec e1 r k = bind_spec e r k) /\
    exists n, In n (imports_in items) /\ bind_spec e r n = None.
Proof.
  induction items as [|it rest IH]; intros e res e1 res1 H; simpl in H; [discriminate|].
  unfold imports_in in *. simpl.
  destruct (ik it) eqn:Hk; simpl.
  - destruct (assoc e (iname it)) as [d|] eqn:He.
    + destruct (link_items r id m rest e res) as [[[e2 res2] bs2]|y] eqn:Hl; [discriminate|].
      inversion H; subst. destruct (IH _ _ _ _ Hl) as (new & H1 & H2 & H3 & H4 & n & H5 & H6).
      exists new. splits5; auto. exists n. split; [right; exact H5 | exact H6].
    + destruct (r (iname it)) as [a|] eqn:Hr.
      * destruct (link_items r id m rest (fst (setup_global e (iname it) (DExt a))) (res ++ [(iname it, a)]))
          as [[[e2 res2] bs2]|y] eqn:Hl; [discriminate|].
        inversion H; subst. destruct (IH _ _ _ _ Hl) as (new & H1 & H2 & H3 & H4 & n & H5 & H6).
        pose proof (bind_spec_ext e r (iname it) a He Hr) as Hext.
        exists ((iname it, a) :: new). splits5.
        -- rewrite H1, <- app_assoc. reflexivity.
        -- exact H2.
        -- intros k b [Hin|Hin].
           ++ inversion Hin; subst. split; [exact He | exact Hr].
           ++ destruct (H3 _ _ Hin) as [Hx Hy]. split; [|exact Hy]. rewrite setup_global_lookup in Hx.
              destruct (Nat.eqb (iname it) k); [discriminate | exact Hx].
        -- intro k. rewrite H4. apply Hext.
        -- exists n. split; [right; exact H5|]. rewrite <- Hext. exact H6.
      * inversion H; subst. exists []. rewrite app_nil_r.
        splits5; try reflexivity; try (intros k b []).
        exists (iname it). split; [left; reflexivity|].
        unfold bind_spec. rewrite He, Hr. reflexivity.
  - destruct (link_items r id m rest e res) as [[[e2 res2] bs2]|y] eqn:Hl; [discriminate|].
    inversion H; subst. apply (IH _ _ _ _ Hl).
  - destruct (link_items r id m rest e res) as [[[e2 res2] bs2]|y] eqn:Hl; [discriminate|].
    inversion H; subst. apply (IH _ _ _ _ Hl).
  - apply (IH _ _ _ _ H).
  - apply (IH _ _ _ _ H).
  - apply (IH _ _ _ _ H).
Qed.

Lemma imports_in_of m : imports_in (mitems m) = imports_of m.
Proof. reflexivity. Qed.

Lemma apply_new_keeps l n : forall e, assoc e n <> None -> assoc (apply_new e l) n <> None.
Proof.
  induction l as [|[k b] l IH]; intros e He; simpl; [exact He|].
  apply IH. rewrite setup_global_lookup. destruct (Nat.eqb k n); [discriminate | exact He].
Qed.

Lemma Forall2_imp {A B} (P Q : A -> B -> Prop) l1 l2 :
  (forall a b, P a b -> Q a b) -> Forall2 P l1 l2 -> Forall2 Q l1 l2.
Proof. intros H F. induction F; constructor; auto. Qed.

Lemma fresh_answers_app e r l1 l2 :
  fresh_answers e r l1 -> fresh_answers (apply_new e l1) r l2 ->
  (forall k, bind_spec (apply_new e l1) r k = bind_spec e r k) ->
  fresh_answers e r (l1 ++ l2).
Proof.
  intros H1 H2 Hb n a Hin. apply in_app_or in Hin. destruct Hin as [Hin|Hin]; [apply H1; exact Hin|].
  destruct (H2 _ _ Hin) as [Hx Hr]. split; [|exact Hr].
  specialize (Hb n). unfold bind_spec in Hb. rewrite Hx, Hr in Hb.
  destruct (assoc e n) eqn:He; [|reflexivity].
  exfalso. apply (apply_new_keeps l1 n e); [rewrite He; discriminate | exact Hx].
Qed.

(* the per-module result of a link step: one binding list per pending module, in queue order,
   every import bound as bind_spec of the table BEFORE the step says *)
Lemma link_mods_ok r ms : forall e res e' res' all,
  link_mods r ms e res = inl (e', res', all) ->
  exists new, res' = res ++ new /\ e' = apply_new e new /\ fresh_answers e r new /\
    (forall k, bind_spec e' r k = bind_spec e r k) /\
    Forall2 (fun m ib => fst ib = lid m /\
                         import_bindings (snd ib) = map (fun n => (n, bind_spec e r n)) (imports_of (lmd m)) /\
                         forall n, In n (imports_of (lmd m)) -> bind_spec e r n <> None) ms all.
Proof.
  induction ms as [|m rest IH]; intros e res e' res' all H; simpl in H.
  - inversion H; subst. exists []. rewrite app_nil_r. splits5; try reflexivity; try (intros n a []); auto.
  - destruct (link_items r (lid m) (lmd m) (mitems (lmd m)) e res) as [[[e1 res1] bs]|] eqn:Hi; [|discriminate].
    destruct (link_mods r rest e1 res1) as [[[e2 res2] all2]|] eqn:Hm; [|discriminate].
    inversion H; subst.
    destruct (link_items_ok _ _ _ _ _ _ _ _ _ Hi) as (n1 & A1 & A2 & A3 & A4 & A5 & A6).
    destruct (IH _ _ _ _ _ Hm) as (n2 & B1 & B2 & B3 & B4 & B5).
    exists (n1 ++ n2). splits5.
    + rewrite B1, A1, app_assoc. reflexivity.
    + rewrite B2, A2, apply_new_app. reflexivity.
    + subst. apply fresh_answers_app; assumption.
    + intro k. rewrite B4, A4. reflexivity.
    + constructor.
      * simpl. split; [reflexivity|]. split; [exact A5 | exact A6].
      * eapply Forall2_imp; [|exact B5]. intros x ib (C1 & C2 & C3). split; [exact C1|]. split.
        -- rewrite C2. apply map_ext. intro n. rewrite A4. reflexivity.
        -- intros n Hn. rewrite <- A4. apply C3. exact Hn.
Qed.

Lemma link_mods_err r ms : forall e res e1 res1,
  link_mods r ms e res = inr (e1, res1) ->
  exists new, res1 = res ++ new /\ e1 = apply_new e new /\ fresh_answers e r new /\
    (forall k, bind_spec e1 r k = bind_spec e r k) /\
    exists m n, In m ms /\ In n (imports_of (lmd m)) /\ bind_spec e r n = None.
Proof.
  induction ms as [|m rest IH]; intros e res e1 res1 H; simpl in H; [discriminate|].
  destruct (link_items r (lid m) (lmd m) (mitems (lmd m)) e res) as [[[e2 res2] bs]|y] eqn:Hi.
  - destruct (link_mods r rest e2 res2) as [[[e3 res3] all3]|y] eqn:Hm; [discriminate|].
    inversion H; subst.
    destruct (link_items_ok _ _ _ _ _ _ _ _ _ Hi) as (n1 & A1 & A2 & A3 & A4 & A5 & A6).
    destruct (IH _ _ _ _ Hm) as (n2 & B1 & B2 & B3 & B4 & m' & n & H2 & H3 & H4).
    exists (n1 ++ n2). splits5.
    + rewrite B1, A1, app_assoc. reflexivity.
    + rewrite B2, A2, apply_new_app. reflexivity.
    + subst. apply fresh_answers_app; assumption.
    + intro k. rewrite B4, A4. reflexivity.
    + exists m', n. split; [right; exact H2|]. split; [exact H3|]. rewrite <- A4. exact H4.
  - inversion H; subst.
    destruct (link_items_err _ _ _ _ _ _ _ _ Hi) as (new & H1 & H2 & H3 & H4 & n & H5 & H6).
    exists new. splits5; auto. exists m, n. split; [left; reflexivity|]. split; assumption.
Qed.

(* ------------------------------------------------------------ traces *)

Lemma loads_in_snoc tr o out :
  loads_in (tr ++ [(o, out)]) = loads_in tr + (if is_load o then 1 else 0).
Proof.
  unfold loads_in. rewrite filter_app, app_length. simpl. destruct (is_load o); reflexivity.
Qed.

Lemma pubs_from_snoc tr : forall id o out,
  pubs_from id (tr ++ [(o, out)]) = pubs_from id tr ++ pubs_of_step (id + loads_in tr) o out.
Proof.
  induction tr as [|[o1 out1] tr IH]; intros id o out; simpl.
  - rewrite app_nil_r, Nat.add_0_r. reflexivity.
  - rewrite IH, <- app_assoc. do 2 f_equal. unfold loads_in. simpl.
    destruct (is_load o1); simpl; f_equal; lia.
Qed.

Lemma pubs_snoc tr o out : pubs (tr ++ [(o, out)]) = pubs tr ++ pubs_of_step (loads_in tr) o out.
Proof. unfold pubs. rewrite pubs_from_snoc. reflexivity. Qed.

Definition pending_step (id : nat) (acc : list lmod) (o : op) (out : output) : list lmod :=
  match o, out with
  | Load ds, OOk => match build ds with inl m => acc ++ [{| lid := id; lmd := m |}] | inr _ => acc end
  | Link _, OLinked _ _ => []
  | _, _ => acc
  end.

Lemma pending_from_snoc tr : forall id acc o out,
  pending_from id (tr ++ [(o, out)]) acc
  = pending_step (id + loads_in tr) (pending_from id tr acc) o out.
Proof.
  induction tr as [|[o1 out1] tr IH]; intros id acc o out.
  - simpl. rewrite Nat.add_0_r. unfold pending_step.
    destruct o; try reflexivity; destruct out; try reflexivity; try (destruct (build ds); reflexivity).
  - assert (E : forall a, pending_from (if is_load o1 then S id else id) (tr ++ [(o, out)]) a
                     = pending_step (id + loads_in ((o1, out1) :: tr))
                                    (pending_from (if is_load o1 then S id else id) tr a) o out).
    { intro a. rewrite IH. f_equal. unfold loads_in. simpl. destruct (is_load o1); simpl; lia. }
    simpl app. simpl pending_from.
    destruct o1; try apply E; destruct out1; try apply E.
    destruct (build ds); apply E.
Qed.

Lemma pending_snoc tr o out :
  pending (tr ++ [(o, out)]) = pending_step (loads_in tr) (pending tr) o out.
Proof. unfold pending. rewrite pending_from_snoc. reflexivity. Qed.

Lemma redef_from_snoc tr : forall acc o out,
  redef_from (tr ++ [(o, out)]) acc
  = match o, out with SetRedef b, OOk => b | _, _ => redef_from tr acc end.
Proof.
  induction tr as [|[o1 out1] tr IH]; intros acc o out.
  - simpl. destruct o; try reflexivity; destruct out; reflexivity.
  - simpl app. simpl redef_from.
    destruct o1; try apply IH; destruct out1; apply IH.
Qed.

Lemma redef_snoc tr o out :
  redef_of (tr ++ [(o, out)]) = match o, out with SetRedef b, OOk => b | _, _ => redef_of tr end.
Proof. apply redef_from_snoc. Qed.

(* the invariant tying the concrete state to the observable trace *)
Definition Inv (s : state) (tr : list (op * output)) : Prop :=
  dead s = false ->
  agree (env s) (pubs tr) /\ nloads s = loads_in tr /\ to_link s = pending tr /\ redef s = redef_of tr.

Lemma Inv_init : Inv init [].
Proof. intros _. split; [apply agree_nil | repeat split]. Qed.

Lemma step_dead am s o : dead s = true -> step am s o = (s, OSkipped).
Proof. intro H. unfold step. rewrite H. reflexivity. Qed.

(* the behaviour the property describes ([step true]: a rejected load has no effect) keeps the
   invariant through EVERY step - successful, rejected load, failed link, interface-less link *)
Lemma step_inv s tr o s' out :
  Inv s tr -> step true s o = (s', out) -> Inv s' (tr ++ [(o, out)]).
Proof.
  intros HI Hs Hd'. unfold step in Hs.
  destruct (dead s) eqn:Hd.
  { inversion Hs; subst. rewrite Hd in Hd'. discriminate. }
  destruct (HI Hd) as (Ha & Hn & Hq & Hr).
  rewrite pubs_snoc, pending_snoc, redef_snoc, loads_in_snoc.
  destruct o as [ds|n a|b|r|r].
  - (* Load *)
    destruct (build ds) as [m|e] eqn:Hb.
    2:{ inversion Hs; subst. simpl in Hd'. discriminate. }
    destruct (load_items (nloads s) (mitems m) 0 (env s) (redef s)) as [e' [x|]] eqn:Hl.
    { (* rejected: nothing changes but the module counter *)
      inversion Hs; subst. simpl. rewrite app_nil_r. repeat split; auto. rewrite Hn. lia. }
    inversion Hs; subst. simpl. rewrite Hb. repeat split.
    + rewrite <- Hn. eapply load_items_ok; [exact Hl | exact Ha].
    + rewrite Hn. lia.
    + rewrite Hq, Hn. reflexivity.
    + exact Hr.
  - inversion Hs; subst. simpl. repeat split; auto.
    + apply agree_setup. exact Ha.
    + rewrite Hn. lia.
  - inversion Hs; subst. simpl. rewrite app_nil_r. repeat split; auto. rewrite Hn. lia.
  - destruct (link_mods r (to_link s) (env s) []) as [[[e' res] bs]|[e1 res1]] eqn:Hl.
    + inversion Hs; subst. simpl.
      destruct (link_mods_ok _ _ _ _ _ _ _ Hl) as (new & A1 & A2 & _).
      simpl in A1. subst. repeat split; auto.
      * apply agree_apply_new. exact Ha.
      * rewrite Hn. lia.
    + inversion Hs; subst. simpl.
      destruct (link_mods_err _ _ _ _ _ _ Hl) as (new & A1 & A2 & _).
      simpl in A1. subst. repeat split; auto.
      * apply agree_apply_new. exact Ha.
      * rewrite Hn. lia.
  - destruct (link_mods r (to_link s) (env s) []) as [[[e' res] bs]|[e1 res1]] eqn:Hl.
    + inversion Hs; subst. simpl.
      destruct (link_mods_ok _ _ _ _ _ _ _ Hl) as (new & A1 & A2 & _).
      simpl in A1. subst. repeat split; auto.
      * apply agree_apply_new. exact Ha.
      * rewrite Hn. lia.
    + inversion Hs; subst. simpl.
      destruct (link_mods_err _ _ _ _ _ _ Hl) as (new & A1 & A2 & _).
      simpl in A1. subst. repeat split; auto.
      * apply agree_apply_new. exact Ha.
      * rewrite Hn. lia.
Qed.

Lemma run_from_inv h : forall s0 tr0 s tr,
  Inv s0 tr0 -> run_from true s0 h = (s, tr) -> Inv s (tr0 ++ tr).
Proof.
  induction h as [|o h IH]; intros s0 tr0 s tr HI Hr; simpl in Hr.
  - inversion Hr; subst. rewrite app_nil_r. exact HI.
  - destruct (step true s0 o) as [s1 out] eqn:Hs.
    destruct (run_from true s1 h) as [s2 tr2] eqn:Hr2.
    inversion Hr; subst.
    change (tr0 ++ (o, out) :: tr2) with (tr0 ++ [(o, out)] ++ tr2). rewrite app_assoc.
    eapply IH; [|exact Hr2]. eapply step_inv; eauto.
Qed.

Lemma run_inv h : Inv (fst (run h)) (snd (run h)).
Proof.
  destruct (run h) as [s tr] eqn:Hr. simpl.
  apply (run_from_inv h init [] s tr Inv_init Hr).
Qed.

Lemma run_from_app am h1 : forall h2 s0,
  run_from am s0 (h1 ++ h2)
  = let '(s1, t1) := run_from am s0 h1 in let '(s2, t2) := run_from am s1 h2 in (s2, t1 ++ t2).
Proof.
  induction h1 as [|o h1 IH]; intros h2 s0; simpl.
  - destruct (run_from am s0 h2); reflexivity.
  - destruct (step am s0 o) as [s1 out]. rewrite IH.
    destruct (run_from am s1 h1) as [s2 t2]. destruct (run_from am s2 h2) as [s3 t3]. reflexivity.
Qed.

(* ------------------------------------------------------------ which histories stay alive *)

Definition builds (o : op) : Prop :=
  match o with Load ds => exists m, build ds = inl m | _ => True end.

Lemma step_alive am s o : dead s = false -> builds o -> dead (fst (step am s o)) = false.
Proof.
  intros Hd Hb. unfold step. rewrite Hd.
  destruct o as [ds|n a|b|r|r]; simpl; try reflexivity.
  - destruct Hb as [m Hb]. rewrite Hb.
    destruct (load_items (nloads s) (mitems m) 0 (env s) (redef s)) as [e' [x|]]; reflexivity.
  - destruct (link_mods r (to_link s) (env s) []) as [[[e' res] bs]|[e1 res1]]; reflexivity.
  - destruct (link_mods r (to_link s) (env s) []) as [[[e' res] bs]|[e1 res1]]; reflexivity.
Qed.

Lemma run_from_alive am h : forall s, dead s = false -> Forall builds h ->
  dead (fst (run_from am s h)) = false.
Proof.
  induction h as [|o h IH]; intros s Hd Hf; simpl; [exact Hd|].
  inversion Hf; subst.
  pose proof (step_alive am s o Hd H1) as Ha.
  destruct (step am s o) as [s1 out]. simpl in Ha.
  specialize (IH s1 Ha H2). destruct (run_from am s1 h) as [s2 t2]. exact IH.
Qed.

(* no load/link error ends a history: only a module that cannot even be built does *)
Lemma alive_proof : forall h, Forall builds h -> dead (fst (run h)) = false.
Proof. intros h Hf. apply run_from_alive; [reflexivity | exact Hf]. Qed.

(* ------------------------------------------------------------ the property, on traces *)

(* the bindings a link step reports, given the trace before it: one binding list per module loaded
   since the previous completed link, in load order; every import of every such module is bound to
   the definition loaded last before the step, else to the resolver's address; the resolver is
   consulted only for names nobody defined *)
Definition bound_spec (tr : list (op * output)) (r : resolver)
           (bs : list (nat * list binding)) (res : list (name * nat)) : Prop :=
  let log := pubs tr in
  Forall2 (fun m ib =>
             fst ib = lid m /\
             import_bindings (snd ib) = map (fun n => (n, wanted log r n)) (imports_of (lmd m)) /\
             forall n, In n (imports_of (lmd m)) -> wanted log r n <> None)
          (pending tr) bs /\
  forall n a, In (n, a) res -> last_def log n = None /\ r n = Some a.

(* what a completed or failed link step must look like, given the trace before it *)
Definition link_step_spec (tr : list (op * output)) (r : resolver) (out : output) : Prop :=
  let log := pubs tr in
  match out with
  | OLinked bs res => bound_spec tr r bs res
  | OLinkFailed res =>
      (* reported as undeclared_op_ref: some import of some pending module has neither a definition
         nor a resolver address; what the resolver supplied before is as above *)
      (exists m n, In m (pending tr) /\ In n (imports_of (lmd m)) /\ wanted log r n = None) /\
      forall n a, In (n, a) res -> last_def log n = None /\ r n = Some a
  | _ => False
  end.

(* the same for MIR_link with a NULL set_interface *)
Definition bind_step_spec (tr : list (op * output)) (r : resolver) (out : output) : Prop :=
  match out with
  | OBound bs res => bound_spec tr r bs res
  | OLinkFailed res => link_step_spec tr r (OLinkFailed res)
  | _ => False
  end.

Lemma bind_spec_wanted e log r n : agree e log -> bind_spec e r n = wanted log r n.
Proof. intro H. unfold bind_spec, wanted. rewrite H. reflexivity. Qed.

Lemma link_mods_bound s tr r e' res bs :
  agree (env s) (pubs tr) -> to_link s = pending tr ->
  link_mods r (to_link s) (env s) [] = inl (e', res, bs) -> bound_spec tr r bs res.
Proof.
  intros Ha Hq Hl.
  destruct (link_mods_ok _ _ _ _ _ _ _ Hl) as (new & A1 & A2 & A3 & A4 & A5).
  simpl in A1. subst res. unfold bound_spec. rewrite <- Hq. split.
  - eapply Forall2_imp; [|exact A5]. intros m ib (C1 & C2 & C3). split; [exact C1|]. split.
    + rewrite C2. apply map_ext. intro n. f_equal. apply bind_spec_wanted. exact Ha.
    + intros n Hn'. rewrite <- (bind_spec_wanted (env s) _ r n Ha). apply C3. exact Hn'.
  - intros n a Hin. destruct (A3 _ _ Hin) as [B1 B2]. split; [rewrite <- Ha; exact B1 | exact B2].
Qed.

Lemma link_mods_failed s tr r e1 res :
  agree (env s) (pubs tr) -> to_link s = pending tr ->
  link_mods r (to_link s) (env s) [] = inr (e1, res) -> link_step_spec tr r (OLinkFailed res).
Proof.
  intros Ha Hq Hl.
  destruct (link_mods_err _ _ _ _ _ _ Hl) as (new & A1 & A2 & A3 & A4 & m & n & B1 & B2 & B3).
  simpl in A1. subst res. simpl. split.
  - exists m, n. rewrite <- Hq. split; [exact B1|]. split; [exact B2|].
    rewrite <- (bind_spec_wanted (env s) _ r n Ha). exact B3.
  - intros k a Hin. destruct (A3 _ _ Hin) as [C1 C2]. split; [rewrite <- Ha; exact C1 | exact C2].
Qed.

Lemma link_step_correct am s tr r :
  Inv s tr -> dead s = false -> link_step_spec tr r (snd (step am s (Link r))).
Proof.
  intros HI Hd. destruct (HI Hd) as (Ha & Hn & Hq & Hr).
  unfold step. rewrite Hd.
  destruct (link_mods r (to_link s) (env s) []) as [[[e' res] bs]|[e1 res1]] eqn:Hl; simpl.
  - eapply link_mods_bound; eauto.
  - apply (link_mods_failed s tr r e1 res1 Ha Hq Hl).
Qed.

Lemma bind_step_correct am s tr r :
  Inv s tr -> dead s = false -> bind_step_spec tr r (snd (step am s (LinkNoIface r))).
Proof.
  intros HI Hd. destruct (HI Hd) as (Ha & Hn & Hq & Hr).
  unfold step. rewrite Hd.
  destruct (link_mods r (to_link s) (env s) []) as [[[e' res] bs]|[e1 res1]] eqn:Hl; simpl.
  - eapply link_mods_bound; eauto.
  - apply (link_mods_failed s tr r e1 res1 Ha Hq Hl).
Qed.

(* every Link step of every history - including histories in which earlier loads were rejected
   and earlier links failed *)
Lemma link_binds_latest_proof : forall (p : list op) (r : resolver) (rest : list op),
  exists out tail,
    snd (run (p ++ Link r :: rest)) = snd (run p) ++ (Link r, out) :: tail /\
    (dead (fst (run p)) = false -> link_step_spec (snd (run p)) r out).
Proof.
  intros p r rest. unfold run. rewrite run_from_app.
  pose proof (run_inv p) as HI. unfold run in HI.
  destruct (run_from true init p) as [s1 t1] eqn:H1. simpl in HI. simpl run_from.
  destruct (step true s1 (Link r)) as [s2 out] eqn:Hs.
  destruct (run_from true s2 rest) as [s3 t3]. simpl.
  exists out, t3. split; [reflexivity|]. intro Hd.
  pose proof (link_step_correct true s1 t1 r HI Hd) as H. rewrite Hs in H. exact H.
Qed.

Lemma link_binds_latest_all_proof : forall (p : list op) (r : resolver) (rest : list op),
  Forall builds p ->
  exists out tail,
    snd (run (p ++ Link r :: rest)) = snd (run p) ++ (Link r, out) :: tail /\
    link_step_spec (snd (run p)) r out.
Proof.
  intros p r rest Hb. destruct (link_binds_latest_proof p r rest) as (out & tail & H1 & H2).
  exists out, tail. split; [exact H1|]. apply H2. apply alive_proof. exact Hb.
Qed.

Lemma nulliface_binds_latest_proof : forall (p : list op) (r : resolver) (rest : list op),
  Forall builds p ->
  exists out tail,
    snd (run (p ++ LinkNoIface r :: rest)) = snd (run p) ++ (LinkNoIface r, out) :: tail /\
    bind_step_spec (snd (run p)) r out.
Proof.
  intros p r rest Hb. unfold run. rewrite run_from_app.
  pose proof (run_inv p) as HI. pose proof (alive_proof p Hb) as Hd. unfold run in HI, Hd.
  destruct (run_from true init p) as [s1 t1] eqn:H1. simpl in HI, Hd. simpl run_from.
  destruct (step true s1 (LinkNoIface r)) as [s2 out] eqn:Hs.
  destruct (run_from true s2 rest) as [s3 t3]. simpl.
  exists out, t3. split; [reflexivity|].
  pose proof (bind_step_correct true s1 t1 r HI Hd) as H. rewrite Hs in H. exact H.
Qed.

(* ------------------------------------------------------------ redefinition *)

Definition redefines (log : list (name * defref)) (id : nat) (m : modl) : Prop :=
  exists l1 it l2, mitems m = l1 ++ it :: l2 /\ iexp it = true /\ ik it = KFunc /\
                   last_def (log ++ exported_from id l1 0) (iname it) <> None.

Lemma load_step_out am s ds m :
  dead s = false -> build ds = inl m ->
  snd (step am s (Load ds))
  = match snd (load_items (nloads s) (mitems m) 0 (env s) (redef s)) with
    | Some x => OErr x
    | None => OOk
    end.
Proof.
  intros Hd Hb. unfold step. rewrite Hd, Hb.
  destruct (load_items (nloads s) (mitems m) 0 (env s) (redef s)) as [e' [x|]]; reflexivity.
Qed.

Lemma link_redef_rejected_proof : forall (h : list op) (ds : list decl) (m : modl),
  let s := fst (run h) in
  let tr := snd (run h) in
  let out := snd (step true s (Load ds)) in
  dead s = false -> build ds = inl m ->
  (out = OOk \/ out = OErr ERepeatedDecl) /\
  (out = OErr ERepeatedDecl <-> redef_of tr = false /\ redefines (pubs tr) (loads_in tr) m).
Proof.
  intros h ds m s tr out Hd Hb.
  pose proof (run_inv h) as HI. destruct (HI Hd) as (Ha & Hn & Hq & Hr).
  fold s in Ha, Hn, Hq, Hr. fold tr in Ha, Hn, Hq, Hr.
  unfold out. rewrite (load_step_out true s ds m Hd Hb).
  pose proof (load_items_err_kind (nloads s) (mitems m) 0 (env s) (redef s)) as Hk.
  pose proof (load_items_rejects (nloads s) (mitems m) 0 (env s) (redef s) (pubs tr) Ha) as Hj.
  unfold redefines. rewrite <- Hr, <- Hn.
  destruct (snd (load_items (nloads s) (mitems m) 0 (env s) (redef s))) as [x|] eqn:Hl.
  - destruct Hk as [Hk|Hk]; [discriminate|]. inversion Hk; subst x.
    split; [right; reflexivity|]. split; [intros _; apply Hj; reflexivity | reflexivity].
  - split; [left; reflexivity|]. split; [discriminate|].
    intro H. apply Hj in H. discriminate.
Qed.

(* a rejected load changes nothing but the count of modules created: the table of globals, the
   queue, the permission and the recorded bindings are as before *)
Lemma rejected_load_no_effect_proof : forall s ds e,
  dead s = false -> (exists m, build ds = inl m) ->
  snd (step true s (Load ds)) = OErr e ->
  let s' := fst (step true s (Load ds)) in
  env s' = env s /\ to_link s' = to_link s /\ redef s' = redef s /\ linked s' = linked s /\
  dead s' = false.
Proof.
  intros s ds e Hd [m Hb]. unfold step. rewrite Hd, Hb.
  destruct (load_items (nloads s) (mitems m) 0 (env s) (redef s)) as [e' [x|]]; simpl.
  - intros _. repeat split.
  - discriminate.
Qed.

(* hence every later step behaves as if the rejected load had not been attempted, up to the
   numbering of modules: stated on the trace - a rejected load contributes nothing to the log of
   definitions nor to the queue *)
Lemma rejected_load_invisible_proof : forall tr ds e,
  pubs (tr ++ [(Load ds, OErr e)]) = pubs tr /\ pending (tr ++ [(Load ds, OErr e)]) = pending tr /\
  redef_of (tr ++ [(Load ds, OErr e)]) = redef_of tr.
Proof.
  intros tr ds e. rewrite pubs_snoc, pending_snoc, redef_snoc. simpl. rewrite app_nil_r. auto.
Qed.

(* a failed link keeps the queue and the recorded bindings; the table of globals only gains the
   addresses the resolver supplied (for names that had no definition) *)
Lemma failed_link_effect_proof : forall s r res,
  snd (step true s (Link r)) = OLinkFailed res ->
  let s' := fst (step true s (Link r)) in
  to_link s' = to_link s /\ linked s' = linked s /\ redef s' = redef s /\ dead s' = false /\
  env s' = apply_new (env s) res /\
  (forall n, assoc (env s) n <> None -> assoc (env s') n = assoc (env s) n).
Proof.
  intros s r res. unfold step. destruct (dead s); [discriminate|].
  destruct (link_mods r (to_link s) (env s) []) as [[[e' res'] bs]|[e1 res1]] eqn:Hl; simpl; [discriminate|].
  intro H. inversion H; subst res1.
  destruct (link_mods_err _ _ _ _ _ _ Hl) as (new & A1 & A2 & A3 & A4 & _). simpl in A1. subst new.
  repeat split; auto.
  intros n Hn. specialize (A4 n). unfold bind_spec in A4.
  destruct (assoc (env s) n) eqn:E; [|contradiction].
  destruct (assoc e1 n) eqn:E1; [exact A4|].
  exfalso. apply (apply_new_keeps res n (env s)); [rewrite E; discriminate | rewrite <- A2; exact E1].
Qed.

(* wave 6 (seeded C13-v2): a COMPLETED link registers nothing but the resolver's answers either: the exports of the
   modules it binds were published when they were loaded and are not published again, so every name that had a
   definition when the link started - whatever was registered last: a later module, an external - keeps it *)
Lemma completed_link_publishes_nothing_proof : forall s r bs res,
  snd (step true s (Link r)) = OLinked bs res ->
  let s' := fst (step true s (Link r)) in
  to_link s' = [] /\ linked s' = linked s ++ bs /\ redef s' = redef s /\ dead s' = false /\
  env s' = apply_new (env s) res /\
  (forall n, assoc (env s) n <> None -> assoc (env s') n = assoc (env s) n).
Proof.
  intros s r bs res. unfold step. destruct (dead s); [discriminate|].
  destruct (link_mods r (to_link s) (env s) []) as [[[e' res'] bs']|[e1 res1]] eqn:Hl; simpl; [|discriminate].
  intro H. inversion H; subst res' bs'.
  destruct (link_mods_ok _ _ _ _ _ _ _ Hl) as (new & A1 & A2 & A3 & A4 & _). simpl in A1. subst new.
  repeat split; auto.
  intros n Hn. specialize (A4 n). unfold bind_spec in A4.
  destruct (assoc (env s) n) eqn:E; [|contradiction].
  destruct (assoc e' n) eqn:E1; [exact A4|].
  exfalso. apply (apply_new_keeps res n (env s)); [rewrite E; discriminate | rewrite <- A2; exact E1].
Qed.

(* ------------------------------------------------------------ the two variants *)

Definition is_rejection (x : op * output) : bool :=
  match x with (Load _, OErr _) => true | _ => false end.

Lemma step_variants s o :
  is_rejection (o, snd (step true s o)) = false -> step false s o = step true s o.
Proof.
  unfold step. destruct (dead s); [reflexivity|].
  destruct o as [ds|n a|b|r|r]; try reflexivity.
  destruct (build ds) as [m|e]; [|simpl; discriminate].
  destruct (load_items (nloads s) (mitems m) 0 (env s) (redef s)) as [e' [x|]]; simpl; [discriminate|reflexivity].
Qed.

(* the pinned tree and the behaviour the property describes agree on every history in which no
   load is rejected *)
Lemma variants_agree_proof : forall h,
  existsb is_rejection (snd (run h)) = false -> run_pinned h = run h.
Proof.
  unfold run, run_pinned. generalize init as s0. intros s0 h. revert s0.
  induction h as [|o h IH]; intros s H; simpl in *; [reflexivity|].
  destruct (step true s o) as [s1 out] eqn:Hs.
  destruct (run_from true s1 h) as [s2 t2] eqn:Hr. simpl in H.
  apply orb_false_iff in H. destruct H as [H1 H2].
  assert (E : step false s o = step true s o).
  { apply step_variants. rewrite Hs. exact H1. }
  rewrite E, Hs. specialize (IH s1). rewrite Hr in IH. simpl in IH. rewrite (IH H2). reflexivity.
Qed.

(* ------------------------------------------------------------ export and forward items *)

Definition is_local_decl (k : ikind) : bool := ikind_eqb k KExport || ikind_eqb k KForward.

Definition local_bindings (bs : list binding) : list binding :=
  filter (fun b => is_local_decl (fst (fst b))) bs.

(* what a link stores in the export/forward items of module m: the module's own table entry *)
Definition local_spec (id : nat) (m : modl) : list binding :=
  map (fun it => (ik it, iname it, local_ref id m (iname it)))
      (filter (fun it => is_local_decl (ik it)) (mitems m)).

Lemma link_items_local r id m items : forall e res e' res' bs,
  link_items r id m items e res = inl (e', res', bs) ->
  local_bindings bs
  = map (fun it => (ik it, iname it, local_ref id m (iname it)))
        (filter (fun it => is_local_decl (ik it)) items).
Proof.
  induction items as [|it rest IH]; intros e res e' res' bs H; simpl in H.
  - inversion H; subst. reflexivity.
  - simpl. destruct (ik it) eqn:Hk; simpl.
    + destruct (assoc e (iname it)) as [d|].
      * destruct (link_items r id m rest e res) as [[[e1 res1] bs1]|] eqn:Hl; [|discriminate].
        inversion H; subst. unfold local_bindings. simpl. apply (IH _ _ _ _ _ Hl).
      * destruct (r (iname it)) as [a|]; [|discriminate].
        destruct (link_items r id m rest (fst (setup_global e (iname it) (DExt a))) (res ++ [(iname it, a)]))
          as [[[e1 res1] bs1]|] eqn:Hl; [|discriminate].
        inversion H; subst. unfold local_bindings. simpl. apply (IH _ _ _ _ _ Hl).
    + destruct (link_items r id m rest e res) as [[[e1 res1] bs1]|] eqn:Hl; [|discriminate].
      inversion H; subst. unfold local_bindings. simpl. rewrite Hk. f_equal. apply (IH _ _ _ _ _ Hl).
    + destruct (link_items r id m rest e res) as [[[e1 res1] bs1]|] eqn:Hl; [|discriminate].
      inversion H; subst. unfold local_bindings. simpl. rewrite Hk. f_equal. apply (IH _ _ _ _ _ Hl).
    + apply (IH _ _ _ _ _ H).
    + apply (IH _ _ _ _ _ H).
    + apply (IH _ _ _ _ _ H).
Qed.

Lemma link_mods_local r ms : forall e res e' res' all,
  link_mods r ms e res = inl (e', res', all) ->
  Forall2 (fun m ib => fst ib = lid m /\ local_bindings (snd ib) = local_spec (lid m) (lmd m)) ms all.
Proof.
  induction ms as [|m rest IH]; intros e res e' res' all H; simpl in H.
  - inversion H; subst. constructor.
  - destruct (link_items r (lid m) (lmd m) (mitems (lmd m)) e res) as [[[e1 res1] bs]|] eqn:Hi; [|discriminate].
    destruct (link_mods r rest e1 res1) as [[[e2 res2] all2]|] eqn:Hm; [|discriminate].
    inversion H; subst. constructor.
    + simpl. split; [reflexivity|]. apply (link_items_local _ _ _ _ _ _ _ _ _ Hi).
    + apply (IH _ _ _ _ _ Hm).
Qed.

(* every completed link (with or without interface) of every history stores in every export and
   forward item of every module it binds the module's own entry for that name *)
Lemma export_forward_local_proof : forall (p : list op) (r : resolver) (o : op),
  o = Link r \/ o = LinkNoIface r ->
  forall bs res, snd (step true (fst (run p)) o) = OLinked bs res
                 \/ snd (step true (fst (run p)) o) = OBound bs res ->
  dead (fst (run p)) = false ->
  Forall2 (fun m ib => fst ib = lid m /\ local_bindings (snd ib) = local_spec (lid m) (lmd m))
          (pending (snd (run p))) bs.
Proof.
  intros p r o Ho bs res Hout Hd.
  destruct (run_inv p Hd) as (_ & _ & Hq & _). rewrite <- Hq.
  unfold step in Hout. rewrite Hd in Hout.
  destruct Ho as [Ho|Ho]; subst o;
    destruct (link_mods r (to_link (fst (run p))) (env (fst (run p))) []) as [[[e' res'] bs']|[e1 res1]] eqn:Hl;
    simpl in Hout; destruct Hout as [Hout|Hout]; try discriminate;
    inversion Hout; subst; apply (link_mods_local _ _ _ _ _ _ _ Hl).
Qed.

(* ------------------------------------------------------------ stability of earlier bindings *)

Lemma step_linked_prefix am s o : exists ext, linked (fst (step am s o)) = linked s ++ ext.
Proof.
  unfold step. destruct (dead s); [exists []; simpl; rewrite app_nil_r; reflexivity|].
  destruct o as [ds|n a|b|r|r].
  - destruct (build ds) as [m|e].
    + destruct (load_items (nloads s) (mitems m) 0 (env s) (redef s)) as [e' [x|]];
        exists []; simpl; rewrite app_nil_r; reflexivity.
    + exists []; simpl; rewrite app_nil_r; reflexivity.
  - exists []; simpl; rewrite app_nil_r; reflexivity.
  - exists []; simpl; rewrite app_nil_r; reflexivity.
  - destruct (link_mods r (to_link s) (env s) []) as [[[e' res] bs]|[e1 res1]].
    + exists bs. reflexivity.
    + exists []; simpl; rewrite app_nil_r; reflexivity.
  - destruct (link_mods r (to_link s) (env s) []) as [[[e' res] bs]|[e1 res1]];
      exists []; simpl; rewrite app_nil_r; reflexivity.
Qed.

Lemma run_from_linked_prefix am h : forall s, exists ext, linked (fst (run_from am s h)) = linked s ++ ext.
Proof.
  induction h as [|o h IH]; intro s; simpl.
  - exists []. rewrite app_nil_r. reflexivity.
  - destruct (step am s o) as [s1 out] eqn:Hs.
    destruct (step_linked_prefix am s o) as [e1 H1]. rewrite Hs in H1. simpl in H1.
    destruct (IH s1) as [e2 H2]. destruct (run_from am s1 h) as [s2 t2]. simpl in *.
    exists (e1 ++ e2). rewrite H2, H1, app_assoc. reflexivity.
Qed.

Lemma link_earlier_bindings_stable_proof : forall (h later : list op),
  exists ext, linked (fst (run (h ++ later))) = linked (fst (run h)) ++ ext.
Proof.
  intros h later. unfold run. rewrite run_from_app.
  destruct (run_from true init h) as [s1 t1]. simpl.
  destruct (run_from_linked_prefix true later s1) as [ext H].
  destruct (run_from true s1 later) as [s2 t2]. simpl in *. exists ext. exact H.
Qed.

(* a completed link records exactly the bindings it reported, after those of earlier links *)
Lemma link_records_bindings_proof : forall am s r bs res,
  snd (step am s (Link r)) = OLinked bs res -> linked (fst (step am s (Link r))) = linked s ++ bs.
Proof.
  intros am s r bs res. unfold step. destruct (dead s); [discriminate|].
  destruct (link_mods r (to_link s) (env s) []) as [[[e' res'] bs']|[e1 res1]]; simpl; [|discriminate].
  intro H. inversion H; subst. reflexivity.
Qed.

(* ------------------------------------------------------------ queue and table characterisation *)

Lemma queue_is_pending_proof : forall h,
  dead (fst (run h)) = false -> to_link (fst (run h)) = pending (snd (run h)).
Proof. intros h Hd. destruct (run_inv h Hd) as (_ & _ & H & _). exact H. Qed.

Lemma table_is_last_def_proof : forall h n,
  dead (fst (run h)) = false -> assoc (env (fst (run h))) n = last_def (pubs (snd (run h))) n.
Proof. intros h n Hd. destruct (run_inv h Hd) as (H & _). apply H. Qed.

(* ------------------------------------------------------------ the property's third clause, literally *)

Lemma last_def_In log : forall n d, In (n, d) log -> last_def log n <> None.
Proof.
  induction log as [|[m x] log IH]; intros n d H; simpl in *; [destruct H|].
  destruct H as [H|H].
  - inversion H; subst. destruct (last_def log n); [discriminate|]. rewrite Nat.eqb_refl. discriminate.
  - specialize (IH n d H). destruct (last_def log n); [discriminate | contradiction].
Qed.

(* if some function named n was exported by an earlier successful load, then loading a module that
   exports a function named n is rejected with repeated_decl iff redefinition is not permitted *)
Lemma second_function_export_proof : forall (h : list op) (ds : list decl) (m : modl) n k i it,
  let s := fst (run h) in
  let tr := snd (run h) in
  dead s = false -> build ds = inl m ->
  In (n, DMod k i KFunc) (pubs tr) ->
  In it (mitems m) -> ik it = KFunc -> iexp it = true -> iname it = n ->
  (snd (step true s (Load ds)) = OErr ERepeatedDecl <-> redef_of tr = false) /\
  (redef_of tr = true -> snd (step true s (Load ds)) = OOk).
Proof.
  intros h ds m n k i it s tr Hd Hb Hpub Hin Hk He Hn.
  destruct (link_redef_rejected_proof h ds m Hd Hb) as [Hcases Hiff]. fold s tr in Hcases, Hiff.
  assert (Hred : redefines (pubs tr) (loads_in tr) m).
  { destruct (in_split _ _ Hin) as (l1 & l2 & Hsp). exists l1, it, l2. repeat split; auto.
    rewrite Hn. apply (last_def_In _ n (DMod k i KFunc)). apply in_or_app. left. exact Hpub. }
  split.
  - split; [intro H; apply Hiff in H; tauto | intro H; apply Hiff; split; assumption].
  - intro Ht. destruct Hcases as [H|H]; [exact H|]. apply Hiff in H. destruct H as [H _]. congruence.
Qed.

(* C13: proofs about the link step whose resolver loads modules (Reent.v) *)
From Coq Require Import List Arith Bool Lia.
Import ListNotations.
From MirV Require Import C13.Link C13.Reent.

Definition ext_log (res : list (name * nat)) : rlog :=
  map (fun na => (fst na, DExt (snd na))) res.

Lemma ext_log_app a b : ext_log (a ++ b) = ext_log a ++ ext_log b.
Proof. unfold ext_log. apply map_app. Qed.

(* ------------------------------------------------------------ conservative extension *)

Lemma link_items_re_lift r rd id m items : forall e res,
  link_items_re (lift_resolver r) rd id m items e [] (ext_log res) =
  match link_items r id m items e res with
  | inl (e', res', bs) => IDone e' [] (ext_log res') bs
  | inr (e1, res1) => IFail e1 [] (ext_log res1) EUndeclaredOpRef
  end.
Proof.
  induction items as [|it rest IH]; intros e res; cbn [link_items_re link_items]; [reflexivity|].
  destruct (ik it) eqn:Hk.
  - (* import *)
    destruct (assoc e (iname it)) as [d|] eqn:Ha.
    + rewrite IH. destruct (link_items r id m rest e res) as [[[e' res'] bs]|[e1 res1]]; reflexivity.
    + unfold lift_resolver at 1 2 3. cbn [fst snd rloads_run].
      destruct (r (iname it)) as [a|] eqn:Hr; cbn [answer_addr app].
      * change (ext_log res ++ [(iname it, DExt a)]) with (ext_log res ++ ext_log [(iname it, a)]).
        rewrite <- ext_log_app. rewrite IH.
        destruct (link_items r id m rest _ _) as [[[e' res'] bs]|[e1 res1]]; reflexivity.
      * reflexivity.
  - rewrite IH. destruct (link_items r id m rest e res) as [[[e' res'] bs]|[e1 res1]]; reflexivity.
  - rewrite IH. destruct (link_items r id m rest e res) as [[[e' res'] bs]|[e1 res1]]; reflexivity.
  - apply IH.
  - apply IH.
  - apply IH.
Qed.

Lemma link_mods_re_lift r rd ms : forall fuel e res, length ms < fuel ->
  link_mods_re fuel (lift_resolver r) rd ms e (ext_log res) [] =
  match link_mods r ms e res with
  | inl (e', res', all) => LDone e' (ext_log res') all []
  | inr (e1, res1) => LFail e1 (ext_log res1) [] EUndeclaredOpRef
  end.
Proof.
  induction ms as [|m rest IH]; intros fuel e res Hf.
  - destruct fuel; [inversion Hf|]. reflexivity.
  - destruct fuel; [inversion Hf|]. cbn [link_mods_re link_mods].
    rewrite link_items_re_lift.
    destruct (link_items r (lid m) (lmd m) (mitems (lmd m)) e res) as [[[e1 res1] bs]|[e1 res1]].
    + rewrite app_nil_r. cbn [app]. rewrite IH by (cbn [length] in Hf; lia).
      destruct (link_mods r rest e1 res1) as [[[e2 res2] all]|[e2 res2]]; reflexivity.
    + reflexivity.
Qed.

(* what the outputs of the old Link step are called in the new vocabulary *)
Definition routput_of (o : output) : routput :=
  match o with
  | OLinked bs res => RLinked bs (ext_log res)
  | OLinkFailed res => RFailed EUndeclaredOpRef (ext_log res)
  | _ => RSkipped
  end.

Lemma reent_conservative_proof : forall s r,
  step_re s [] r = (fst (step true s (Link r)), routput_of (snd (step true s (Link r)))).
Proof.
  intros s r. unfold step_re, step. destruct (dead s) eqn:Hd; [reflexivity|].
  cbn [build_script script_mods].
  change (script_resolver [] r) with (lift_resolver r).
  change (@nil (name * defref)) with (ext_log []) at 1.
  rewrite link_mods_re_lift by lia.
  destruct (link_mods r (to_link s) (env s) []) as [[[e' res] bs]|[e1 res]]; cbn [fst snd routput_of].
  - reflexivity.
  - rewrite app_nil_r. reflexivity.
Qed.

(* ------------------------------------------------------------ every dequeued module is bound *)

(* one binding list for the module, holding one non-NULL binding per import, in import order *)
Definition bound_ok (m : lmod) (ib : nat * list binding) : Prop :=
  fst ib = lid m /\
  map fst (import_bindings (snd ib)) = imports_of (lmd m) /\
  Forall (fun x => snd x <> None) (import_bindings (snd ib)).

Definition imports_in (items : list mitem) : list name :=
  map iname (filter (fun it => ikind_eqb (ik it) KImport) items).

Lemma link_items_re_spec r rd id m items : forall e q res e' q' res' bs,
  link_items_re r rd id m items e q res = IDone e' q' res' bs ->
  map fst (import_bindings bs) = imports_in items /\
  Forall (fun x => snd x <> None) (import_bindings bs) /\
  exists q1, q' = q ++ q1.
Proof.
  induction items as [|it rest IH]; intros e q res e' q' res' bs H; cbn [link_items_re] in H.
  - inversion H; subst. split; [reflexivity|]. split; [constructor|]. exists []. symmetry; apply app_nil_r.
  - unfold imports_in. cbn [filter]. destruct (ik it) eqn:Hk; cbn [ikind_eqb].
    + (* import *)
      destruct (assoc e (iname it)) as [d|] eqn:Ha.
      * destruct (link_items_re r rd id m rest e q res) as [e2 q2 res2 bs2|] eqn:Hr; [|discriminate].
        inversion H; subst. destruct (IH _ _ _ _ _ _ _ Hr) as (A & B & C).
        unfold import_bindings in *. cbn [filter fst snd ikind_eqb map].
        split; [f_equal; exact A|]. split; [constructor; [cbn; discriminate|exact B]|exact C].
      * destruct (rloads_run (fst (r (iname it))) e rd) as [[e1 q1] x] eqn:Hl.
        destruct x as [er|]; [discriminate|].
        destruct (answer_addr _ _ _) as [d|]; [|discriminate].
        destruct (link_items_re r rd id m rest _ (q ++ q1) _) as [e2 q2 res2 bs2|] eqn:Hr; [|discriminate].
        inversion H; subst. destruct (IH _ _ _ _ _ _ _ Hr) as (A & B & (q3 & C)).
        unfold import_bindings in *. cbn [filter fst snd ikind_eqb map].
        split; [f_equal; exact A|]. split; [constructor; [cbn; discriminate|exact B]|].
        exists (q1 ++ q3). rewrite C. symmetry; apply app_assoc.
    + destruct (link_items_re r rd id m rest e q res) as [e2 q2 res2 bs2|] eqn:Hr; [|discriminate].
      inversion H; subst. destruct (IH _ _ _ _ _ _ _ Hr) as (A & B & C).
      unfold import_bindings in *. cbn [filter fst snd ikind_eqb]. auto.
    + destruct (link_items_re r rd id m rest e q res) as [e2 q2 res2 bs2|] eqn:Hr; [|discriminate].
      inversion H; subst. destruct (IH _ _ _ _ _ _ _ Hr) as (A & B & C).
      unfold import_bindings in *. cbn [filter fst snd ikind_eqb]. auto.
    + exact (IH _ _ _ _ _ _ _ H).
    + exact (IH _ _ _ _ _ _ _ H).
    + exact (IH _ _ _ _ _ _ _ H).
Qed.

Lemma link_mods_re_spec r rd : forall fuel todo e res added e' res' bs added',
  link_mods_re fuel r rd todo e res added = LDone e' res' bs added' ->
  exists new, added' = added ++ new /\ Forall2 bound_ok (todo ++ new) bs.
Proof.
  induction fuel as [|f IH]; intros todo e res added e' res' bs added' H; cbn [link_mods_re] in H;
    [discriminate|].
  destruct todo as [|m rest].
  - inversion H; subst. exists []. split; [symmetry; apply app_nil_r|constructor].
  - destruct (link_items_re r rd (lid m) (lmd m) (mitems (lmd m)) e [] res) as [e1 q1 res1 b|] eqn:Hi;
      [|discriminate].
    destruct (link_mods_re f r rd (rest ++ q1) e1 res1 (added ++ q1)) as [e2 res2 all added2| |] eqn:Hm;
      try discriminate.
    inversion H; subst.
    destruct (IH _ _ _ _ _ _ _ _ Hm) as (new' & Ha & Hf).
    destruct (link_items_re_spec _ _ _ _ _ _ _ _ _ _ _ _ Hi) as (A & B & _).
    exists (q1 ++ new'). split; [rewrite Ha; symmetry; apply app_assoc|].
    cbn [app]. constructor.
    + unfold bound_ok. cbn [fst snd]. split; [reflexivity|]. split; [exact A|exact B].
    + rewrite app_assoc. exact Hf.
Qed.

(* A completed link step with a resolver that loads modules: the queue is empty afterwards, and the
   step reports (and records) one binding list for EVERY module it dequeued - the modules queued
   before the step followed by the modules [new] the resolver loaded during it, in load order -,
   each with a non-NULL binding for every import of the module. *)
Lemma reent_binds_every_dequeued_module_proof : forall s sc fb bs res,
  snd (step_re s sc fb) = RLinked bs res ->
  let s' := fst (step_re s sc fb) in
  to_link s' = [] /\ linked s' = linked s ++ bs /\ dead s' = false /\
  exists new, Forall2 bound_ok (to_link s ++ new) bs.
Proof.
  intros s sc fb bs res H. unfold step_re in *.
  destruct (dead s); [discriminate|].
  destruct (build_script sc (nloads s)) as [[bsc id]|[x id]]; [|discriminate].
  destruct (link_mods_re _ _ _ _ _ _ _) as [e' res' bs' added| |] eqn:Hm; try discriminate.
  cbn [fst snd] in *. inversion H; subst.
  destruct (link_mods_re_spec _ _ _ _ _ _ _ _ _ _ _ Hm) as (new & _ & Hf).
  repeat split; try reflexivity. exists new. exact Hf.
Qed.

(* A failed one (undeclared_op_ref, or repeated_decl raised by a load the resolver performed)
   dequeues nothing: the modules the resolver had loaded are queued behind the earlier ones. *)
Lemma reent_failed_keeps_queue_proof : forall s sc fb x res,
  snd (step_re s sc fb) = RFailed x res ->
  let s' := fst (step_re s sc fb) in
  linked s' = linked s /\ redef s' = redef s /\ dead s' = false /\
  exists added, to_link s' = to_link s ++ added.
Proof.
  intros s sc fb x res H. unfold step_re in *.
  destruct (dead s); [discriminate|].
  destruct (build_script sc (nloads s)) as [[bsc id]|[x' id]]; [|discriminate].
  destruct (link_mods_re _ _ _ _ _ _ _) as [e' res' bs' added|e1 res1 added x1|] eqn:Hm; try discriminate.
  cbn [fst snd] in *. repeat split; try reflexivity. exists added. reflexivity.
Qed.

(* ------------------------------------------------------------ non-vacuity *)

(* APP imports g (name 0); the resolver loads LIB (export g, function g, import base (name 1)) and
   answers with LIB's g; base is a registered external.  LIB's import is bound by the same step. *)
Definition app_lib : state :=
  fst (run [Load [(KImport, 0)]; LoadExternal 1 3]).

Example reent_demo :
  snd (step_re app_lib [(0, ([[(KExport, 0); (KFunc, 0); (KImport, 1)]], RLast))] (fun _ => None))
  = RLinked [(0, [(KImport, 0, Some (DMod 1 1 KFunc))]);
             (1, [(KExport, 0, Some (DMod 1 1 KFunc)); (KImport, 1, Some (DExt 3))])]
            [(0, DMod 1 1 KFunc)].
Proof. vm_compute. reflexivity. Qed.

(* a chain: the library's own import is resolved by loading a second library *)
Example reent_chain :
  snd (step_re app_lib [(0, ([[(KExport, 0); (KFunc, 0); (KImport, 2)]], RLast));
                        (2, ([[(KExport, 2); (KData, 2)]], RLast))] (fun _ => None))
  = RLinked [(0, [(KImport, 0, Some (DMod 1 1 KFunc))]);
             (1, [(KExport, 0, Some (DMod 1 1 KFunc)); (KImport, 2, Some (DMod 2 1 KData))]);
             (2, [(KExport, 2, Some (DMod 2 1 KData))])]
            [(0, DMod 1 1 KFunc); (2, DMod 2 1 KData)].
Proof. vm_compute. reflexivity. Qed.

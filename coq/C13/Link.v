(* C13: executable model of the module-building layer (mir.c add_item), MIR_load_module's
   publication of exported items (setup_global + redefinition check), MIR_load_external,
   MIR_set_func_redef_permission and MIR_link's import/export/forward resolution.
   Definitions only; proofs are in LinkProofs.v.

   What is modelled (mir.c at the pinned commit):
     add_item                 997-1071   -> add_item
     new_export_import_forward, MIR_new_func/data/proto (only their use of add_item) -> build
     setup_global            1773-1794   -> setup_global   (environment item is updated IN PLACE)
     MIR_load_module         1915-1954   -> load_items / the Load case of step
     MIR_load_external       1959-1963   -> the LoadExternal case of step
     MIR_link                1987-2019   -> link_items / link_mods (first loop: binding)
                             2061-2072   -> the queue is emptied, or kept when set_interface is NULL
                                            (LinkNoIface)
   Errors.  The default error function exits the process; a user error function must not return
   but may longjmp, after which the context is used again.  The model describes that state:
   - an error raised while a module is being BUILT (add_item) ends the history ([dead]): the public
     API offers no way to go on (curr_func dangles);
   - a rejected MIR_load_module (repeated_decl): the module is not queued.  The tree as pinned has
     already updated the table of globals for the items up to and including the offending one
     ([step false]); with fixes/C13-1.patch the check comes first and nothing is published
     ([step true]).  The two variants agree on every history without a rejected load;
   - a failed MIR_link (undeclared_op_ref): the addresses the resolver supplied before the failing
     import stay registered, the queue is kept, no interface is set; a later link binds the
     queued modules again. *)
From Coq Require Import List Arith Bool.
Import ListNotations.

Definition name := nat.

Inductive ikind := KImport | KExport | KForward | KFunc | KData | KProto.

Definition ikind_eqb (a b : ikind) : bool :=
  match a, b with
  | KImport, KImport | KExport, KExport | KForward, KForward
  | KFunc, KFunc | KData, KData | KProto, KProto => true
  | _, _ => false
  end.

Definition is_def (k : ikind) : bool :=
  match k with KFunc | KData | KProto => true | _ => false end.

(* error codes that the modelled code passes to the error function *)
Inductive err := ERepeatedDecl | EImportExport | EUndeclaredOpRef | EInternal.

(* ---------------------------------------------------------------- module building *)

Record mitem := { ik : ikind; iname : name; iexp : bool }.

(* items in DLIST order; tab = the (name, module) slice of module_item_tab: name -> index of the
   item currently registered for that name (first match wins; re-registration conses in front) *)
Record modl := { mitems : list mitem; mtab : list (name * nat) }.

Definition empty_mod : modl := {| mitems := []; mtab := [] |}.

Fixpoint assoc {A} (l : list (name * A)) (n : name) : option A :=
  match l with
  | [] => None
  | (m, v) :: r => if Nat.eqb m n then Some v else assoc r n
  end.

Definition tab_find (m : modl) (n : name) : option nat := assoc (mtab m) n.

Definition append_item (m : modl) (it : mitem) : modl :=
  {| mitems := mitems m ++ [it]; mtab := mtab m |}.

(* item_tab_remove + item_tab_insert of the item at index i under name n *)
Definition retab (m : modl) (n : name) (i : nat) : modl :=
  {| mitems := mitems m; mtab := (n, i) :: mtab m |}.

Fixpoint set_exp_at (l : list mitem) (i : nat) : list mitem :=
  match l, i with
  | [], _ => []
  | it :: r, O => {| ik := ik it; iname := iname it; iexp := true |} :: r
  | it :: r, S j => it :: set_exp_at r j
  end.

Definition set_exp (m : modl) (i : nat) : modl :=
  {| mitems := set_exp_at (mitems m) i; mtab := mtab m |}.

Definition mk (k : ikind) (n : name) (e : bool) : mitem := {| ik := k; iname := n; iexp := e |}.

(* add_item: the new item has kind k and name n (export_p FALSE, as create_item leaves it) *)
Definition add_item (m : modl) (k : ikind) (n : name) : modl + err :=
  match tab_find m n with
  | None =>
      let i := length (mitems m) in inl (retab (append_item m (mk k n false)) n i)
  | Some ti =>
      match nth_error (mitems m) ti with
      | None => inr EInternal
      | Some t =>
          match ik t with
          | KImport =>
              match k with KImport => inl m | _ => inr EImportExport end
          | KExport | KForward =>
              match k with
              | KImport => inr EImportExport
              | KExport | KForward =>
                  if ikind_eqb (ik t) k then inl m
                  else
                    let i := length (mitems m) in
                    let m1 := append_item m (mk k n false) in
                    (* export replaces forward in the table; forward after export does not *)
                    match k with KExport => inl (retab m1 n i) | _ => inl m1 end
              | _ =>
                  (* a definition replaces its export/forward; it is exported iff the table
                     item was the export *)
                  let i := length (mitems m) in
                  let e := ikind_eqb (ik t) KExport in
                  inl (retab (append_item m (mk k n e)) n i)
              end
          | KProto => inr ERepeatedDecl
          | KFunc | KData =>
              match k with
              | KExport =>
                  if iexp t then inl m
                  else inl (append_item (set_exp m ti) (mk KExport n false))
              | KForward => inl (append_item m (mk KForward n false))
              | KImport => inr EImportExport
              | _ => inr ERepeatedDecl
              end
          end
      end
  end.

(* a module source: the declarations in creation order *)
Definition decl := (ikind * name)%type.

Fixpoint build_from (m : modl) (ds : list decl) : modl + err :=
  match ds with
  | [] => inl m
  | (k, n) :: r =>
      match add_item m k n with
      | inl m' => build_from m' r
      | inr e => inr e
      end
  end.

Definition build (ds : list decl) : modl + err := build_from empty_mod ds.

(* ---------------------------------------------------------------- context state *)

(* what an address stands for: the item at index idx of the module loaded by the mid-th Load
   (a thunk for a function, the section for data, NULL for a proto), or an external address *)
Inductive defref := DMod (mid : nat) (idx : nat) (k : ikind) | DExt (a : nat).

Definition envT := list (name * defref).   (* environment_module.items order *)

(* setup_global: update in place when the name is present (returns redef_p = true), else append *)
Fixpoint env_update (e : envT) (n : name) (d : defref) : envT :=
  match e with
  | [] => []
  | (m, v) :: r => if Nat.eqb m n then (m, d) :: r else (m, v) :: env_update r n d
  end.

Definition setup_global (e : envT) (n : name) (d : defref) : envT * bool :=
  match assoc e n with
  | Some _ => (env_update e n d, true)
  | None => (e ++ [(n, d)], false)
  end.

(* one binding made by MIR_link's first loop: the declaring item's kind and name, and what its
   addr now stands for (None = NULL) *)
Definition binding := (ikind * name * option defref)%type.

Record lmod := { lid : nat; lmd : modl }.

Record state := {
  env : envT;
  to_link : list lmod;                    (* modules_to_link, oldest first *)
  redef : bool;                           (* func_redef_permission_p *)
  nloads : nat;                           (* number of Load operations so far = next module id *)
  linked : list (nat * list binding);     (* modules whose interface was set, oldest first *)
  dead : bool }.

Definition init : state :=
  {| env := []; to_link := []; redef := false; nloads := 0; linked := []; dead := false |}.

Definition resolver := name -> option nat.

Inductive op :=
| Load (ds : list decl)
| LoadExternal (n : name) (a : nat)
| SetRedef (b : bool)
| Link (r : resolver)
| LinkNoIface (r : resolver).            (* MIR_link (ctx, NULL, r) *)

Inductive output :=
| OOk
| OErr (e : err)
| OLinked (bs : list (nat * list binding)) (resolved : list (name * nat))
| OBound (bs : list (nat * list binding)) (resolved : list (name * nat))  (* LinkNoIface completed *)
| OLinkFailed (resolved : list (name * nat))     (* undeclared_op_ref; resolver answers so far *)
| OSkipped.

(* MIR_load_module's item loop; i = index of the head of [items] in the module *)
Fixpoint load_items (id : nat) (items : list mitem) (i : nat) (e : envT) (rd : bool)
  : envT * option err :=
  match items with
  | [] => (e, None)
  | it :: rest =>
      if iexp it then
        let '(e', existed) := setup_global e (iname it) (DMod id i (ik it)) in
        if existed && ikind_eqb (ik it) KFunc && negb rd then (e', Some ERepeatedDecl)
        else load_items id rest (S i) e' rd
      else load_items id rest (S i) e rd
  end.

(* what a local name resolves to at link (item_tab_find in the module itself) *)
Definition local_ref (id : nat) (m : modl) (n : name) : option defref :=
  match tab_find m n with
  | None => None
  | Some ti =>
      match nth_error (mitems m) ti with
      | None => None
      | Some t => if is_def (ik t) then Some (DMod id ti (ik t)) else None
      end
  end.

(* MIR_link first loop over one module's items *)
Fixpoint link_items (r : resolver) (id : nat) (m : modl) (items : list mitem) (e : envT)
         (res : list (name * nat)) : (envT * list (name * nat) * list binding) + (envT * list (name * nat)) :=
  match items with
  | [] => inl (e, res, [])
  | it :: rest =>
      match ik it with
      | KImport =>
          match assoc e (iname it) with
          | Some d =>
              match link_items r id m rest e res with
              | inl (e', res', bs) => inl (e', res', (KImport, iname it, Some d) :: bs)
              | inr x => inr x
              end
          | None =>
              match r (iname it) with
              | None => inr (e, res)
              | Some a =>
                  (* MIR_load_external (name, addr) *)
                  let e1 := fst (setup_global e (iname it) (DExt a)) in
                  match link_items r id m rest e1 (res ++ [(iname it, a)]) with
                  | inl (e', res', bs) => inl (e', res', (KImport, iname it, Some (DExt a)) :: bs)
                  | inr x => inr x
                  end
              end
          end
      | KExport | KForward =>
          match link_items r id m rest e res with
          | inl (e', res', bs) => inl (e', res', (ik it, iname it, local_ref id m (iname it)) :: bs)
          | inr x => inr x
          end
      | _ => link_items r id m rest e res
      end
  end.

Fixpoint link_mods (r : resolver) (ms : list lmod) (e : envT) (res : list (name * nat))
  : (envT * list (name * nat) * list (nat * list binding)) + (envT * list (name * nat)) :=
  match ms with
  | [] => inl (e, res, [])
  | m :: rest =>
      match link_items r (lid m) (lmd m) (mitems (lmd m)) e res with
      | inr x => inr x
      | inl (e1, res1, bs) =>
          match link_mods r rest e1 res1 with
          | inr x => inr x
          | inl (e2, res2, all) => inl (e2, res2, (lid m, bs) :: all)
          end
      end
  end.

Definition kill (s : state) : state :=
  {| env := env s; to_link := to_link s; redef := redef s; nloads := nloads s; linked := linked s;
     dead := true |}.

(* [atomic]: a rejected load publishes nothing (fixes/C13-1.patch); false = the pinned tree *)
Definition step (atomic : bool) (s : state) (o : op) : state * output :=
  if dead s then (s, OSkipped) else
  match o with
  | Load ds =>
      let id := nloads s in
      let s0 := {| env := env s; to_link := to_link s; redef := redef s; nloads := S id;
                   linked := linked s; dead := false |} in
      match build ds with
      | inr e => (kill s0, OErr e)
      | inl m =>
          match load_items id (mitems m) 0 (env s) (redef s) with
          | (e', Some x) =>
              (* the module is not queued; the history goes on *)
              ({| env := if atomic then env s else e'; to_link := to_link s; redef := redef s;
                  nloads := S id; linked := linked s; dead := false |}, OErr x)
          | (e', None) =>
              ({| env := e'; to_link := to_link s ++ [{| lid := id; lmd := m |}]; redef := redef s;
                  nloads := S id; linked := linked s; dead := false |}, OOk)
          end
      end
  | LoadExternal n a =>
      ({| env := fst (setup_global (env s) n (DExt a)); to_link := to_link s; redef := redef s;
          nloads := nloads s; linked := linked s; dead := false |}, OOk)
  | SetRedef b =>
      ({| env := env s; to_link := to_link s; redef := b; nloads := nloads s; linked := linked s;
          dead := false |}, OOk)
  | Link r =>
      match link_mods r (to_link s) (env s) [] with
      | inr (e1, res) =>
          ({| env := e1; to_link := to_link s; redef := redef s; nloads := nloads s;
              linked := linked s; dead := false |}, OLinkFailed res)
      | inl (e', res, bs) =>
          ({| env := e'; to_link := []; redef := redef s; nloads := nloads s;
              linked := linked s ++ bs; dead := false |}, OLinked bs res)
      end
  | LinkNoIface r =>
      match link_mods r (to_link s) (env s) [] with
      | inr (e1, res) =>
          ({| env := e1; to_link := to_link s; redef := redef s; nloads := nloads s;
              linked := linked s; dead := false |}, OLinkFailed res)
      | inl (e', res, bs) =>
          ({| env := e'; to_link := to_link s; redef := redef s; nloads := nloads s;
              linked := linked s; dead := false |}, OBound bs res)
      end
  end.

(* a history and its trace of (operation, output) pairs *)
Fixpoint run_from (atomic : bool) (s : state) (h : list op) : state * list (op * output) :=
  match h with
  | [] => (s, [])
  | o :: r =>
      let '(s1, out) := step atomic s o in
      let '(s2, tr) := run_from atomic s1 r in
      (s2, (o, out) :: tr)
  end.

(* the behaviour the property describes: a rejected load has no effect *)
Definition run (h : list op) : state * list (op * output) := run_from true init h.
(* the pinned tree *)
Definition run_pinned (h : list op) : state * list (op * output) := run_from false init h.

(* ---------------------------------------------------------------- specification vocabulary *)

(* the exported definitions of a built module, in item order, as (name, what the address is) *)
Fixpoint exported_from (id : nat) (items : list mitem) (i : nat) : list (name * defref) :=
  match items with
  | [] => []
  | it :: rest =>
      if iexp it then (iname it, DMod id i (ik it)) :: exported_from id rest (S i)
      else exported_from id rest (S i)
  end.

Definition exported (id : nat) (m : modl) : list (name * defref) := exported_from id (mitems m) 0.

Definition imports_of (m : modl) : list name :=
  map iname (filter (fun it => ikind_eqb (ik it) KImport) (mitems m)).

(* the definitions a step made visible, in order: a successful Load publishes its exported
   items (a rejected one nothing); LoadExternal its address; a link - completed or failed - the
   addresses its resolver supplied.
   [id] is the number of Loads before the step. *)
Definition pubs_of_step (id : nat) (o : op) (out : output) : list (name * defref) :=
  match o, out with
  | Load ds, OOk => match build ds with inl m => exported id m | inr _ => [] end
  | LoadExternal n a, OOk => [(n, DExt a)]
  | Link _, OLinked _ res | Link _, OLinkFailed res
  | LinkNoIface _, OBound _ res | LinkNoIface _, OLinkFailed res =>
      map (fun na => (fst na, DExt (snd na))) res
  | _, _ => []
  end.

Definition is_load (o : op) : bool := match o with Load _ => true | _ => false end.

Fixpoint pubs_from (id : nat) (tr : list (op * output)) : list (name * defref) :=
  match tr with
  | [] => []
  | (o, out) :: r => pubs_of_step id o out ++ pubs_from (if is_load o then S id else id) r
  end.

(* the log of all definitions loaded by a trace, oldest first *)
Definition pubs (tr : list (op * output)) : list (name * defref) := pubs_from 0 tr.

(* "the definition of n that was loaded last": the last entry for n in the log *)
Fixpoint last_def (log : list (name * defref)) (n : name) : option defref :=
  match log with
  | [] => None
  | (m, d) :: r =>
      match last_def r n with
      | Some d' => Some d'
      | None => if Nat.eqb m n then Some d else None
      end
  end.

(* modules loaded successfully since the last completed link, oldest first *)
Fixpoint pending_from (id : nat) (tr : list (op * output)) (acc : list lmod) : list lmod :=
  match tr with
  | [] => acc
  | (o, out) :: r =>
      let id' := if is_load o then S id else id in
      match o, out with
      | Load ds, OOk =>
          match build ds with
          | inl m => pending_from id' r (acc ++ [{| lid := id; lmd := m |}])
          | inr _ => pending_from id' r acc
          end
      | Link _, OLinked _ _ => pending_from id' r []
      | _, _ => pending_from id' r acc
      end
  end.

Definition pending (tr : list (op * output)) : list lmod := pending_from 0 tr [].

(* the redefinition permission in force after a trace *)
Fixpoint redef_from (tr : list (op * output)) (acc : bool) : bool :=
  match tr with
  | [] => acc
  | (SetRedef b, OOk) :: r => redef_from r b
  | _ :: r => redef_from r acc
  end.

Definition redef_of (tr : list (op * output)) : bool := redef_from tr false.

Definition loads_in (tr : list (op * output)) : nat := length (filter (fun x => is_load (fst x)) tr).

Definition import_bindings (bs : list binding) : list (name * option defref) :=
  map (fun b => (snd (fst b), snd b)) (filter (fun b => ikind_eqb (fst (fst b)) KImport) bs).

(* what the property demands an import of n to be bound to, given the log of definitions loaded
   before the link step and the step's resolver *)
Definition wanted (log : list (name * defref)) (r : resolver) (n : name) : option defref :=
  match last_def log n with
  | Some d => Some d
  | None => match r n with Some a => Some (DExt a) | None => None end
  end.

(* C13, round 3 (seeded C13-u2): MIR_set_func_redef_permission (ctx, int enable_p).  The parameter is a C truth
   value: ANY non-zero int permits redefinition.  [perm_of_int] is what the model driver applies to the
   argument of the `R` op; [perm_low_bit] is what a one-bit bit-field assigned directly would keep. *)
From Coq Require Import ZArith Bool List.
From MirV Require Import C13.Link.

Definition perm_of_int (z : Z) : bool := negb (Z.eqb z 0).
Definition perm_low_bit (z : Z) : bool := Z.odd z.

Lemma set_perm_int_proof : forall atomic s z,
  dead s = false ->
  (redef (fst (step atomic s (SetRedef (perm_of_int z)))) = true <-> z <> 0%Z) /\
  snd (step atomic s (SetRedef (perm_of_int z))) = OOk.
Proof.
  intros atomic s z Hd. unfold step. rewrite Hd. simpl. unfold perm_of_int. split; [|reflexivity].
  rewrite negb_true_iff. rewrite Z.eqb_neq. tauto.
Qed.

Lemma perm_low_bit_refuted_proof :
  exists z, z <> 0%Z /\ perm_of_int z = true /\ perm_low_bit z = false.
Proof. exists 2%Z. split; [discriminate|split; reflexivity]. Qed.

Lemma perm_low_bit_agrees_on_01_proof : forall z, (z = 0 \/ z = 1)%Z -> perm_low_bit z = perm_of_int z.
Proof. intros z [->| ->]; reflexivity. Qed.

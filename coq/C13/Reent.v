(* C13, round 3 (wave 5): MIR_link whose import resolver itself LOADS modules.

   mir.c MIR_link re-reads VARR_LENGTH (modules_to_link) on every iteration of its first (simplify +
   import/export/forward resolution) and second (inlining, ref/expr data) loop, and
   MIR_load_module pushes onto modules_to_link.  An import resolver that calls MIR_load_module
   (a resolver that satisfies an undefined import from a not yet loaded MIR library) therefore
   makes the SAME link step process the freshly loaded modules too: they are resolved after the
   modules that were queued before them, and the final loop dequeues them and sets their interface.

   Definitions only (proofs: ReentProofs.v).  The resolver is scripted: asked for name n it loads
   the modules [fst (r n)] (already built; MIR_load_module each, in order) and then answers
     RNull   NULL (the link fails with undeclared_op_ref, even if a module just loaded exports n:
             MIR_link does not look the name up again),
     RExt a  the external address a,
     RLast   the address of the definition of n in the LAST module it has just loaded (item->addr:
             the thunk of a function, the section of data; NULL for a proto, when that module has
             no definition of n, or when nothing was loaded) - what a resolver that satisfies an
             import from a MIR library returns; the definition need not be exported.
   A non-NULL answer is registered by MIR_load_external (n, addr) - in place when n is present.
   A load performed by the resolver can be rejected (repeated_decl): the error function longjmps out
   of the resolver AND of MIR_link; what was loaded and registered before stays, nothing is
   dequeued.  *)
From Coq Require Import List Arith Bool.
Import ListNotations.
From MirV Require Import C13.Link.

Inductive ransw := RNull | RExt (a : nat) | RLast.

Definition rresolver := name -> list lmod * ransw.

(* the resolver log: the non-NULL answers in order, as what the address stands for *)
Definition rlog := list (name * defref).

(* MIR_load_module for each module (built before the link), in order; [rd] = redefinition permission.
   Returns the table, the modules queued, and the error of the first rejected load (a rejected
   load publishes nothing and ends the resolver call: the error function does not return) *)
Fixpoint rloads_run (ms : list lmod) (e : envT) (rd : bool) : envT * list lmod * option err :=
  match ms with
  | [] => (e, [], None)
  | m :: rest =>
      match load_items (lid m) (mitems (lmd m)) 0 e rd with
      | (_, Some x) => (e, [], Some x)
      | (e', None) =>
          let '(e2, q, x) := rloads_run rest e' rd in (e2, m :: q, x)
      end
  end.

(* the address a resolver answer stands for; None = NULL *)
Definition answer_addr (ans : ransw) (ms : list lmod) (n : name) : option defref :=
  match ans with
  | RNull => None
  | RExt a => Some (DExt a)
  | RLast =>
      match last (map Some ms) None with
      | None => None
      | Some m =>
          match local_ref (lid m) (lmd m) n with
          | Some (DMod _ _ KProto) => None        (* a proto's address is NULL *)
          | x => x
          end
      end
  end.

Inductive ires :=
| IDone (e : envT) (newq : list lmod) (res : rlog) (bs : list binding)
| IFail (e : envT) (newq : list lmod) (res : rlog) (x : err).

(* MIR_link's first loop over one module's items; [newq] = modules queued by resolver loads *)
Fixpoint link_items_re (r : rresolver) (rd : bool) (id : nat) (m : modl) (items : list mitem)
         (e : envT) (newq : list lmod) (res : rlog) : ires :=
  match items with
  | [] => IDone e newq res []
  | it :: rest =>
      match ik it with
      | KImport =>
          match assoc e (iname it) with
          | Some d =>
              match link_items_re r rd id m rest e newq res with
              | IDone e' q' res' bs => IDone e' q' res' ((KImport, iname it, Some d) :: bs)
              | f => f
              end
          | None =>
              let '(e1, q1, x) := rloads_run (fst (r (iname it))) e rd in
              match x with
              | Some er => IFail e1 (newq ++ q1) res er
              | None =>
                  match answer_addr (snd (r (iname it))) (fst (r (iname it))) (iname it) with
                  | None => IFail e1 (newq ++ q1) res EUndeclaredOpRef
                  | Some d =>
                      let e2 := fst (setup_global e1 (iname it) d) in
                      match link_items_re r rd id m rest e2 (newq ++ q1) (res ++ [(iname it, d)]) with
                      | IDone e' q' res' bs => IDone e' q' res' ((KImport, iname it, Some d) :: bs)
                      | f => f
                      end
                  end
              end
          end
      | KExport | KForward =>
          match link_items_re r rd id m rest e newq res with
          | IDone e' q' res' bs =>
              IDone e' q' res' ((ik it, iname it, local_ref id m (iname it)) :: bs)
          | f => f
          end
      | _ => link_items_re r rd id m rest e newq res
      end
  end.

Inductive lres :=
| LDone (e : envT) (res : rlog) (bs : list (nat * list binding)) (added : list lmod)
| LFail (e : envT) (res : rlog) (added : list lmod) (x : err)
| LNoFuel.

(* the loop `for (i = 0; i < VARR_LENGTH (modules_to_link); i++)`: [todo] = the part of the queue not
   yet visited, it GROWS at its end by what the resolver loads; [added] = all modules queued during
   the step so far *)
Fixpoint link_mods_re (fuel : nat) (r : rresolver) (rd : bool) (todo : list lmod) (e : envT)
         (res : rlog) (added : list lmod) : lres :=
  match fuel with
  | O => LNoFuel
  | S f =>
      match todo with
      | [] => LDone e res [] added
      | m :: rest =>
          match link_items_re r rd (lid m) (lmd m) (mitems (lmd m)) e [] res with
          | IFail e1 q1 res1 x => LFail e1 res1 (added ++ q1) x
          | IDone e1 q1 res1 bs =>
              match link_mods_re f r rd (rest ++ q1) e1 res1 (added ++ q1) with
              | LDone e2 res2 all added2 => LDone e2 res2 ((lid m, bs) :: all) added2
              | x => x
              end
          end
      end
  end.

(* ---------------------------------------------------------------- the step *)

(* one entry of a resolver script: the name, the sources of the modules it loads, the answer *)
Definition sentry := (name * (list (list decl) * ransw))%type.

(* the script's modules are built before MIR_link is called, in script order; ids from [id] *)
Fixpoint build_mods (dss : list (list decl)) (id : nat) : (list lmod * nat) + err :=
  match dss with
  | [] => inl ([], id)
  | ds :: rest =>
      match build ds with
      | inr x => inr x
      | inl m =>
          match build_mods rest (S id) with
          | inr x => inr x
          | inl (ms, id') => inl ({| lid := id; lmd := m |} :: ms, id')
          end
      end
  end.

Fixpoint build_script (sc : list sentry) (id : nat)
  : (list (name * (list lmod * ransw)) * nat) + (err * nat) :=
  match sc with
  | [] => inl ([], id)
  | (n, (dss, ans)) :: rest =>
      match build_mods dss id with
      | inr x => inr (x, id)
      | inl (ms, id1) =>
          match build_script rest id1 with
          | inr x => inr x
          | inl (bsc, id2) => inl ((n, (ms, ans)) :: bsc, id2)
          end
      end
  end.

(* names without a script entry: a plain resolver (address or NULL), loads nothing *)
Definition lift_resolver (r : resolver) : rresolver :=
  fun n => ([], match r n with Some a => RExt a | None => RNull end).

Definition script_resolver (bsc : list (name * (list lmod * ransw))) (fallback : resolver) : rresolver :=
  fun n => match assoc bsc n with Some x => x | None => lift_resolver fallback n end.

Inductive routput :=
| RLinked (bs : list (nat * list binding)) (res : rlog)
| RFailed (x : err) (res : rlog)
| RBuildErr (x : err)
| RSkipped.

Fixpoint script_mods (bsc : list (name * (list lmod * ransw))) : nat :=
  match bsc with
  | [] => 0
  | (_, (ms, _)) :: r => length ms + script_mods r
  end.

(* MIR_link (ctx, set_interface, resolver) with a resolver that follows the script *)
Definition step_re (s : state) (sc : list sentry) (fallback : resolver) : state * routput :=
  if dead s then (s, RSkipped) else
  match build_script sc (nloads s) with
  | inr (x, id) =>
      ({| env := env s; to_link := to_link s; redef := redef s; nloads := S id; linked := linked s;
          dead := true |}, RBuildErr x)
  | inl (bsc, id) =>
      let fuel := S (length (to_link s) + script_mods bsc) in
      match link_mods_re fuel (script_resolver bsc fallback) (redef s) (to_link s) (env s) [] [] with
      | LDone e' res bs _ =>
          ({| env := e'; to_link := []; redef := redef s; nloads := id; linked := linked s ++ bs;
              dead := false |}, RLinked bs res)
      | LFail e1 res added x =>
          ({| env := e1; to_link := to_link s ++ added; redef := redef s; nloads := id;
              linked := linked s; dead := false |}, RFailed x res)
      | LNoFuel =>
          ({| env := env s; to_link := to_link s; redef := redef s; nloads := id; linked := linked s;
              dead := true |}, RSkipped)
      end
  end.

(* Property C02: every instruction computes its documented result (MIR.md, formalised in
   Mir/DocSpec.v) for all operand values.  Only property theorems, each closed by [exact] and
   followed by Print Assumptions.  The tables are REGENERATED from the checked tree on every run
   (tools/tr_c02_*.py -> coq/gen/*.v), so these theorems are re-checked against what the code says now. *)
From Coq Require Import ZArith List Bool.
Import ListNotations.
From MirV Require Import Mir.DocSpec Mir.CExpr C02.RowCheck C02.Table gen.InterpTable C02.InterpFacts
  C02.GvnCheck gen.GvnFoldTable C02.GvnFacts C02.MemRows C02.GvnMemType
  C02.PeepholeDefs C02.PeepholeProofs gen.Peephole C02.PeepholeFacts
  Mir.Opcode Mir.DocSpecInt C02.X86Sem C02.X86Check gen.X86Patterns C02.X86TableFacts
  C02.BuiltinCheck gen.X86Builtins C02.X86BuiltinFacts
  Base.W64 C02.AddrDefs gen.AddrTable C02.AddrLowering.

(* Interpreter (mir-interp.c): for every row of the regenerated table (every value, compare, branch
   and overflow opcode) and ALL operand values on which MIR.md defines the instruction, the row's C
   statement, under C11 typing + two's-complement machine semantics (Mir/CExpr.v), is defined and
   yields the documented value on the defined bits / takes the documented branch. *)
Theorem interp_row_sound :
  forall op s, In (op, s) interp_table -> ld_opcode op = false -> row_sound op s.
Proof. exact interp_rows_sound. Qed.
Print Assumptions interp_row_sound.

(* every opcode with a documented value/branch/overflow meaning (and every long-double opcode) has a row *)
Theorem interp_table_total :
  forall op, needs_row op = true \/ ld_opcode op = true -> exists s, In (op, s) interp_table.
Proof. exact interp_rows_total. Qed.
Print Assumptions interp_table_total.

(* long double rows (no Coq semantics for x87 arithmetic): each is, literally, the verified double
   row of its twin opcode with `double` replaced by `long double` *)
Theorem interp_ld_rows_are_double_twins :
  forall op s d, In (op, s) interp_table -> ld_twin op = Some d ->
  exists sd, In (d, sd) interp_table /\ cstmt_eqb sd (ld2d_stmt s) = true /\ row_sound d sd.
Proof. exact interp_ld_rows. Qed.
Print Assumptions interp_ld_rows_are_double_twins.

(* ADDO SUBO MULO UMULO and their S variants in the interpreter: the stored result is the documented
   one and the pre-check formulas assigned to signed_overflow_p / unsigned_overflow_p equal "the exact
   signed / unsigned result is not representable in the operation's width", for all operands *)
Theorem overflow_flags_sound : forall op s, In (op, s) interp_table ->
  forall args r sf uf, doc_ovf op args = Some (r, sf, uf) ->
  exists r' fs fu, stmt_ovf (env_of args) s = Some (r', fs, fu) /\ eqv op r' r = true
    /\ (fst (ovf_defined op) = true -> fs = Some sf) /\ (snd (ovf_defined op) = true -> fu = Some uf).
Proof. exact interp_overflow_flags. Qed.
Print Assumptions overflow_flags_sound.

(* Generator, GVN constant folding (mir-gen.c gvn_modify): for every row of the regenerated fold table
   (ext, neg, integer arithmetic/logic/shift/compare, compare-and-branch, BT/BF, and the value of the
   overflow instructions) and ALL constant operand values on which MIR.md defines the instruction, the
   constant substituted at compile time / the branch decision taken at compile time is the documented one *)
Theorem gvn_fold_row_sound : forall op g s, In (op, g, s) gvn_table -> gvn_row_sound op s.
Proof. exact gvn_rows_sound. Qed.
Print Assumptions gvn_fold_row_sound.

(* GVN's memory expressions (mir-gen.c canonic_mem_type, regenerated from the preprocessed source): the optimiser
   (-O2/-O3) identifies two accesses of one address value whose types have the same canonical type -- the second load
   gets the value of the first, a load after a store the stored value.  Whenever two memory types are identified they
   are the same documented access: the same extending load of EVERY cell content and the same truncating store of EVERY
   value (only I64 / U64 / P may be merged); and every memory type has a canonical type. *)
Theorem gvn_canonic_mem_type_sound : forall t1 t2 c,
  In (t1, c) gvn_canonic_mem_type -> In (t2, c) gvn_canonic_mem_type ->
  (forall bytes, load_ext t1 bytes = load_ext t2 bytes) /\ (forall v, store_trunc t1 v = store_trunc t2 v).
Proof. exact gvn_canonic_sound. Qed.
Print Assumptions gvn_canonic_mem_type_sound.

Theorem gvn_canonic_mem_type_total : forall t, exists c, In (t, c) gvn_canonic_mem_type.
Proof. exact gvn_canonic_total. Qed.
Print Assumptions gvn_canonic_mem_type_total.

(* Memory operands in the interpreter (the LD and ST macros behind the IC_LDxx and IC_STxx codes): a load of MIR type ty
   yields load_ext ty of the cell (sign / zero extension of narrow integers by the signedness of the
   type), a store writes store_trunc ty of the value (truncation to the memory type); F/D/LD cells are
   moved unchanged.  All ten load and ten store pseudo instructions are present. *)
Theorem ld_st_ext_trunc_sound : forall name s, In (name, s) interp_aux_table ->
  match aux_type name with
  | Some (true, ty) => forall bytes, stmt_load s bytes = Some (load_ext ty bytes)
  | Some (false, ty) => forall p rest, stmt_store (p :: rest) s = Some (store_trunc ty p)
  | None => False
  end.
Proof. exact interp_mem_rows. Qed.
Print Assumptions ld_st_ext_trunc_sound.

(* Link-time algebraic shortcuts (mir.c simplify_func; the opcode/constant pairs are regenerated from the
   source condition): `op r,x,C -> mov r,x` is only applied to instructions that define no overflow flag,
   and x is the documented result of `op x,C` on the defined bits, for all x *)
Theorem link_shortcut_sound : forall op c, In (op, c) shortcut_table ->
  ovf_class op = None /\
  forall a d, doc_sem_int op [a; c] = Some d ->
    match int_res_width op with Some w => eqlow w (u64 a) d | None => False end.
Proof. exact shortcuts_sound. Qed.
Print Assumptions link_shortcut_sound.

(* transform_mul_div (mir-gen.c; opcode map, guards on sh and the emitted instruction sequences are
   regenerated from the source): for every source value x and every shift 0 <= sh < bound the generator
   admits for that opcode, running the replacement sequence under the documented semantics of its
   instructions gives the documented result of `op x, 2^sh` (mul -> lsh, udiv -> ursh, div -> the
   sign-bias sequence) on the defined bits *)
Theorem transform_mul_div_sound : forall op bound mv sq, In (op, bound, mv, sq) muldiv_table ->
  forall x sh d, (0 <= sh < bound)%Z -> doc_sem_int op [x; (2 ^ sh)%Z] = Some d ->
  exists r, run_seq x sh (if (sh =? 0)%Z then mv else sq) = Some r /\
            match int_res_width op with Some w => eqlow w r d | None => False end.
Proof. exact muldiv_rows_sound. Qed.
Print Assumptions transform_mul_div_sound.

(* Generator, x86-64 instruction selection (mir-gen-x86_64.c; patterns[] after the real preprocessor,
   the early-clobber list of target_get_early_clobbered_hard_regs and the uext8 list of
   target_machinize are regenerated on every run).  Semantics are attached to the elements of the
   replacement templates (C02/X86Sem.v: 16 registers, one memory cell, CF ZF SF OF, the ~40 instruction
   forms the integer patterns use); the byte encoder is not modelled.  For every move, extension,
   negation, integer arithmetic / logic / shift, multiply, divide, remainder, compare, overflow and
   branch opcode (xclass_of), every realisation of the operands (hard registers, a memory operand of
   each integer type, immediates), every machine state, and the row find_insn_pattern selects (the
   first row of the opcode whose operand pattern matches): the template decodes, runs without fault
   wherever MIR.md defines the instruction, leaves the documented value on the defined bits of operand 0
   (takes the documented branch, sets the documented overflow flag), and changes no other register or
   memory byte except AX/DX for mul/div.  Rows that are not sound are shown to be unreachable. *)
Theorem x86_pattern_row_sound :
  forall code cls ops st row, xclass_of code = Some cls ->
    x86_select x86_table code ops = Some row -> early_ok early_dx code ops ->
    row_sound_at cls row ops st.
Proof. exact x86_selected_row_sound. Qed.
Print Assumptions x86_pattern_row_sound.

(* the same for every row wherever it stands (selection with and without short labels): each row of
   an in-scope opcode is sound for ALL operands matching its pattern, or it is dead: whenever it matches,
   an earlier row of the same opcode matches too (today: `mul r r s` -> lea, which would compute r1 + s) *)
Theorem x86_pattern_rows_sound_or_dead :
  forall pre code pat tmpl post cls, x86_table = pre ++ (code, pat, tmpl) :: post -> xclass_of code = Some cls ->
    row_sound_x86 early_dx cls (code, pat, tmpl)
    \/ (forall ops, pat_match [] pat ops = true -> exists e, In e pre /\ row_matches code ops e = true).
Proof. exact x86_every_row_sound_or_dead. Qed.
Print Assumptions x86_pattern_rows_sound_or_dead.

(* every opcode of that scope has rows *)
Theorem x86_pattern_table_total :
  forall op cls, xclass_of op = Some cls -> exists row, In row x86_table /\ fst (fst row) = op.
Proof. exact x86_scope_has_rows. Qed.
Print Assumptions x86_pattern_table_total.

(* compares: setcc defines the low byte only; with the `uext8 res, res` that target_machinize appends
   after exactly these opcodes the result register holds the documented 64-bit 0 / 1 *)
Theorem x86_compare_rows_sound :
  forall code c sg w ops r st row row2,
    int_class code = IC_cmp c sg w -> opnd ops 0 = OReg r ->
    x86_select x86_table code ops = Some row ->
    x86_select x86_table UEXT8 [OReg r; OReg r] = Some row2 ->
    exists i1 i2, decode (snd row) = Some i1 /\ decode (snd row2) = Some i2 /\
    forall d, doc_sem_int code (args_of st ops) = Some d ->
    exists st1 st2, xrun ops st i1 = Some (st1, None) /\ xrun [OReg r; OReg r] st1 i2 = Some (st2, None)
      /\ uwrap 64 (regs st2 r) = d /\ (forall r', r' <> r -> regs st2 r' = regs st r') /\ memc st2 = memc st.
Proof. exact x86_compare_uext8_sound. Qed.
Print Assumptions x86_compare_rows_sound.

(* Generator, x86-64: opcodes without an instruction pattern are executed by a call of a C function of the generator
   itself (mir-gen-x86_64.c: target_machinize -> get_builtin -> mir_ui2f / mir_ui2d / mir_ui2ld / mir_ld2i; the
   dispatched opcodes, the prototype types and the function bodies, with calls inlined and the implicit conversions of
   the argument and of the returned value made explicit, are regenerated on every run).  For every such opcode with a
   Coq meaning and ALL operand values the value the function returns is the documented one: in particular the
   unsigned 64-bit integer is rounded ONCE, to nearest even, into the result format. *)
Theorem x86_builtin_row_sound :
  forall op s, In (op, s) x86_builtin_table -> ld_opcode op = false -> row_sound op s.
Proof. exact x86_builtin_rows_sound. Qed.
Print Assumptions x86_builtin_row_sound.

(* the long double builtins (no Coq semantics for x87 arithmetic): each is, literally, the verified double row of the
   interpreter table with `double` replaced by `long double` *)
Theorem x86_builtin_ld_rows_are_double_twins :
  forall op s d, In (op, s) x86_builtin_table -> ld_twin op = Some d ->
  exists sd, In (d, sd) interp_table /\ cstmt_eqb sd (ld2d_stmt s) = true /\ row_sound d sd.
Proof. exact x86_builtin_ld_rows. Qed.
Print Assumptions x86_builtin_ld_rows_are_double_twins.

(* every opcode target_machinize hands to get_builtin has such a function *)
Theorem x86_builtin_table_total :
  forall op, In op x86_builtin_codes -> exists s, In (op, s) x86_builtin_table.
Proof. exact x86_builtin_rows_total. Qed.
Print Assumptions x86_builtin_table_total.

(* Memory operands "with any base/index/scale/displacement" (mir.c simplify_op, shared by the interpreter and the
   generator; the inserted instructions, their operands and the conditions they are inserted under are regenerated):
   executed with the documented meaning of their opcodes, the instructions that replace the operand disp(base, index,
   scale) leave base + index*scale + disp modulo 2^64 in the address register -- for EVERY scale 1..255 (not only the
   hardware scales 1/2/4/8), all register values, all displacements, each part present or absent. *)
Theorem simplify_mem_operand_address_sound : forall base index scale disp,
  (1 <= scale <= 255)%Z -> (is_some base || is_some index || negb (disp =? 0)%Z = true) ->
  exists a, lowered_addr base index scale disp simplify_addr_insns = Some a /\ u64 a = doc_addr base index scale disp.
Proof. exact simplify_lowering_sound. Qed.
Print Assumptions simplify_mem_operand_address_sound.

(* The address combiner of the generator at -O2/-O3 (mir-gen.c update_addr_p; the guard of the base * constant step, the
   displacement update and the scale update of the index steps are regenerated): every step that replaces the base /
   index of base + index*scale + disp by the operands of the add / sub / mul / lsh-by-constant instruction defining it
   leaves the address unchanged modulo 2^64 (constants of multiplications 0..255 as var_mult_const accepts them; a
   base * constant is moved into the index slot only while the index is unscaled; a product of scales above 255 is
   given up, never truncated to 8 bits). *)
Theorem addr_combiner_steps_sound : forall a s a', step_premise a s ->
  apply_step combiner_base_mult_needs_scale1 combiner_index_plus_scales_disp combiner_index_mult a s = Some a' ->
  ai_addr a' = ai_addr a.
Proof. exact combiner_steps_sound. Qed.
Print Assumptions addr_combiner_steps_sound.

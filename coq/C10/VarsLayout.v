(* output_vars prints eight variables per line: the index arithmetic of p_vars_from equals the
   chunked layout used by the token specification. *)
From Coq Require Import List ZArith NArith Bool String Lia Arith.
From MirV Require Import C11.Ast C10.TextOut C10.TextTokens.
Import ListNotations.
Local Notation length := List.length.

Section Layout.
  Context {A : Type}.
  Variables (prefix : bytes) (f : A -> bytes).

  Definition line_chars (c : list A) : bytes := tab ++ prefix ++ tab ++ sep_list comma f c.

  Fixpoint lines_from (k : nat) (cs : list (list A)) : bytes :=
    match cs with
    | [] => []
    | c :: r => (if Nat.eqb k 0 then [] else nl) ++ line_chars c ++ lines_from (S k) r
    end.

  Lemma mod8_mul k : Nat.modulo (8 * k) 8 = 0.
  Proof. rewrite Nat.mul_comm. apply Nat.mod_mul. lia. Qed.

  Lemma mod8_add k j : j < 8 -> Nat.modulo (8 * k + j) 8 = j.
  Proof. intros H. rewrite Nat.add_comm, (Nat.mul_comm 8 k), Nat.mod_add by lia. apply Nat.mod_small. exact H. Qed.

  (* inside a line: elements at positions 8k+j, j >= 1, are preceded by ", " *)
  Lemma vars_run k : forall run j more, 1 <= j -> j + length run <= 8 ->
    p_vars_from prefix f (8 * k + j) (run ++ more)
    = flat_map (fun v => comma ++ f v) run ++ p_vars_from prefix f (8 * k + j + length run) more.
  Proof.
    induction run as [|v run IH]; intros j more Hj Hlen.
    - cbn [app flat_map length]. now rewrite Nat.add_0_r.
    - cbn [app p_vars_from flat_map length] in *. rewrite mod8_add by lia.
      destruct (Nat.eqb_spec j 0); [lia|].
      replace (S (8 * k + j)) with (8 * k + S j) by lia. rewrite (IH (S j) more) by lia.
      replace (8 * k + S j + length run) with (8 * k + j + S (length run)) by lia. now rewrite <- !app_assoc.
  Qed.

  Lemma firstn_skipn_len {B} n (l : list B) : skipn n l <> [] -> length (firstn n l) = n.
  Proof.
    intros H. apply firstn_length_le. destruct (le_lt_dec n (length l)) as [Hle|Hlt]; [assumption|].
    exfalso. apply H. apply skipn_all2. lia.
  Qed.

  Lemma vars_lines : forall fuel vs k, length vs <= fuel ->
    p_vars_from prefix f (8 * k) vs = lines_from k (chunks8 fuel vs).
  Proof.
    induction fuel as [|fuel IH]; intros vs k Hlen.
    - destruct vs; [reflexivity | cbn in Hlen; lia].
    - destruct vs as [|v r]; [reflexivity|].
      change (chunks8 (S fuel) (v :: r)) with ((v :: firstn 7 r) :: chunks8 fuel (skipn 7 r)).
      cbn [lines_from]. unfold line_chars. cbn [sep_list]. cbn [p_vars_from]. rewrite mod8_mul. cbn [Nat.eqb].
      assert (Ek : Nat.eqb (8 * k) 0 = Nat.eqb k 0) by (destruct k; reflexivity).
      rewrite Ek.
      rewrite <- (firstn_skipn 7 r) at 1.
      replace (S (8 * k)) with (8 * k + 1) by lia.
      rewrite (vars_run k (firstn 7 r) 1 (skipn 7 r)) by (pose proof (firstn_le_length 7 r); lia).
      rewrite <- !app_assoc. do 5 f_equal.
      destruct (skipn 7 r) as [|w r'] eqn:Es.
      + destruct fuel; reflexivity.
      + rewrite firstn_skipn_len by (rewrite Es; discriminate).
        replace (8 * k + 1 + 7) with (8 * S k) by lia.
        f_equal. apply IH. rewrite <- Es, skipn_length. cbn [length] in Hlen. lia.
  Qed.

  Lemma lines_from_nl : forall cs k, cs <> [] ->
    lines_from k cs ++ nl = (if Nat.eqb k 0 then [] else nl) ++ flat_map (fun c => line_chars c ++ nl) cs.
  Proof.
    induction cs as [|c cs IH]; intros k Hne; [congruence|].
    cbn [lines_from flat_map]. destruct cs as [|c2 cs'].
    - cbn [lines_from flat_map]. rewrite ?app_nil_r. repeat rewrite <- app_assoc. reflexivity.
    - repeat rewrite <- app_assoc. rewrite (IH (S k)) by discriminate. cbn [Nat.eqb]. repeat rewrite <- app_assoc. reflexivity.
  Qed.

  Lemma chunks8_nonempty fuel (vs : list A) : vs <> [] -> chunks8 fuel vs <> [].
  Proof. destruct fuel, vs; cbn; congruence. Qed.

  (* output_vars as a sequence of complete lines *)
  Lemma p_vars_lines (kw : string) vs : prefix = str kw ->
    p_vars kw f vs = flat_map (fun c => line_chars c ++ nl) (chunks8 (length vs) vs).
  Proof.
    intros Hp. unfold p_vars. destruct vs as [|v r] eqn:E; [reflexivity|]. rewrite <- E, <- Hp.
    replace 0 with (8 * 0) by reflexivity. rewrite (vars_lines (length vs) vs 0) by lia.
    rewrite lines_from_nl by (apply chunks8_nonempty; rewrite E; discriminate). reflexivity.
  Qed.
End Layout.

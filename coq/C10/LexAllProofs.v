(* Lexing the whole text MIR_output writes: lex_all (p_ctx ms) = tk_ctx ms ++ [TEOF]. *)
From Coq Require Import List ZArith NArith Bool String Lia.
From MirV Require Import Base.W64 Mir.Opcode C11.Tables C11.Ast C11.BinIO C11.BinIOProofs C10.TextOut C10.TextScan C10.TextProofs
  C10.LexProofs C10.HexProofs C10.TextTokens C10.VarsLayout C10.ParseProofs.
Import ListNotations.
Local Open Scope Z_scope.
Local Notation length := List.length.

Section Lexing.
  Variables pF pD pLD : bytes -> Z.

  Notation lex := (lex_all pF pD pLD).
  Notation stok := (scan_token pF pD pLD).

  (* lexing [cs ++ rest] produces [ts] and continues on [rest], whatever (sufficient) fuel *)
  Definition lreaches (cs : bytes) (ts : list ttok) (rest : bytes) : Prop :=
    forall fuel, (length (cs ++ rest) + 2 <= fuel)%nat ->
      exists fuel', (length rest + 2 <= fuel')%nat /\ lex fuel (cs ++ rest) = option_map (app ts) (lex fuel' rest).

  (* A: no condition on what follows; S: a separator character (or the end) must follow *)
  Definition lexA (cs : bytes) (ts : list ttok) : Prop := forall rest, lreaches cs ts rest.
  Definition lexS (cs : bytes) (ts : list ttok) : Prop := forall rest, good_rest rest -> lreaches cs ts rest.

  Lemma option_map_app {A} (a b : list A) o : option_map (app a) (option_map (app b) o) = option_map (app (a ++ b)) o.
  Proof. destruct o; cbn; [now rewrite app_assoc | reflexivity]. Qed.

  Lemma lreaches_nil rest : lreaches [] [] rest.
  Proof. intros fuel H. exists fuel. split; [cbn in H; lia|]. cbn [app]. destruct (lex fuel rest); reflexivity. Qed.

  Lemma lreaches_app c1 t1 c2 t2 rest :
    lreaches c1 t1 (c2 ++ rest) -> lreaches c2 t2 rest -> lreaches (c1 ++ c2) (t1 ++ t2) rest.
  Proof.
    intros H1 H2 fuel Hf. rewrite <- app_assoc in *. destruct (H1 fuel Hf) as (f1 & Hf1 & E1).
    destruct (H2 f1 Hf1) as (f2 & Hf2 & E2). exists f2. split; [assumption|].
    rewrite E1, E2. apply option_map_app.
  Qed.

  Lemma lexA_S cs ts : lexA cs ts -> lexS cs ts.
  Proof. intros H rest _. apply H. Qed.

  Lemma lexA_app c1 t1 c2 t2 : lexA c1 t1 -> lexA c2 t2 -> lexA (c1 ++ c2) (t1 ++ t2).
  Proof. intros H1 H2 rest. apply lreaches_app; [apply H1 | apply H2]. Qed.

  Lemma lexA_appS c1 t1 c2 t2 : lexA c1 t1 -> lexS c2 t2 -> lexS (c1 ++ c2) (t1 ++ t2).
  Proof. intros H1 H2 rest Hr. apply lreaches_app; [apply H1 | now apply H2]. Qed.

  Definition starts_sep (cs : bytes) : Prop := match cs with c :: _ => sep_char c = true | [] => False end.

  Lemma good_rest_app c2 rest : starts_sep c2 -> good_rest (c2 ++ rest).
  Proof. destruct c2; cbn; tauto. Qed.

  Lemma lexS_appA c1 t1 c2 t2 : lexS c1 t1 -> lexA c2 t2 -> starts_sep c2 -> lexA (c1 ++ c2) (t1 ++ t2).
  Proof. intros H1 H2 Hs rest. apply lreaches_app; [apply H1; now apply good_rest_app | apply H2]. Qed.

  Lemma lexS_appS c1 t1 c2 t2 : lexS c1 t1 -> lexS c2 t2 -> starts_sep c2 -> lexS (c1 ++ c2) (t1 ++ t2).
  Proof. intros H1 H2 Hs rest Hr. apply lreaches_app; [apply H1; now apply good_rest_app | now apply H2]. Qed.

  (* one token, possibly after blanks and tabs *)
  Definition is_ws (cs : bytes) : Prop := Forall (fun c => c = 32%N \/ c = 9%N) cs.

  Lemma stok_ws ws cs f : is_ws ws -> stok (length ws + f) (ws ++ cs) = stok f cs.
  Proof.
    induction ws as [|c ws IH]; intros H; [reflexivity|].
    pose proof (Forall_inv H) as Hc. pose proof (Forall_inv_tail H) as Hws.
    cbn [length app Nat.add]. destruct Hc as [-> | ->]; cbn [scan_token N.eqb Pos.eqb orb]; now apply IH.
  Qed.

  Lemma lreaches_tok ws lexeme t rest :
    is_ws ws -> (0 < length lexeme)%nat -> t <> TEOF ->
    (forall f, (length lexeme + length rest <= f)%nat -> stok (S f) (lexeme ++ rest) = Some (t, rest)) ->
    lreaches (ws ++ lexeme) [t] rest.
  Proof.
    intros Hws Hne Ht Hs fuel Hf. destruct fuel as [|F]; [lia|].
    rewrite <- app_assoc in *. rewrite !app_length in Hf.
    exists F. split; [lia|]. cbn [lex_all].
    replace F with (length ws + S (F - length ws - 1))%nat by lia.
    rewrite stok_ws by assumption. rewrite Hs by lia.
    destruct t; try reflexivity; try (destruct (lex _ rest); reflexivity). congruence.
  Qed.

  (* ---------------------------------------------------------------- the pieces *)

  Definition is_ident_b (n : name) : bool :=
    match n with [] => false | c :: r => name_char c true && forallb (fun x => name_char x false) r end.
  Lemma is_ident_b_spec n : is_ident_b n = true -> is_ident n.
  Proof.
    destruct n as [|c r]; [discriminate|]. cbn. rewrite andb_true_iff, forallb_forall. intros [H1 H2].
    split; [assumption | now apply Forall_forall].
  Qed.

  Lemma lexS_name ws n : is_ws ws -> is_ident n -> lexS (ws ++ n) [TName n].
  Proof.
    intros Hws Hn rest Hr. apply lreaches_tok; try assumption; try discriminate.
    - destruct n; [contradiction | cbn; lia].
    - intros f _. now apply scan_token_name.
  Qed.

  Lemma p_int_nonempty z : (0 < length (p_int z))%nat.
  Proof.
    unfold p_int. destruct (Z.ltb_spec z 0); [cbn; lia|].
    destruct (p_nat_nonempty z) as (d & ds & ->); [assumption | cbn; lia].
  Qed.

  Lemma lexS_int ws z : is_ws ws -> in_s64 z -> lexS (ws ++ p_int z) [TInt z].
  Proof.
    intros Hws Hz rest Hr. apply lreaches_tok; try assumption; try discriminate.
    - apply p_int_nonempty.
    - intros f _. now apply scan_token_int.
  Qed.

  Lemma lexS_uint ws u : is_ws ws -> in_u64 u -> lexS (ws ++ p_nat u) [TInt (s64 u)].
  Proof.
    intros Hws Hu rest Hr. apply lreaches_tok; try assumption; try discriminate.
    - destruct (p_nat_nonempty u) as (d & ds & ->); [destruct Hu; assumption | cbn; lia].
    - intros f _. now apply scan_token_uint.
  Qed.

  Lemma lexS_hex ws u : is_ws ws -> in_u64 u -> lexS (ws ++ str "0x" ++ p_hex u) [TInt (s64 u)].
  Proof.
    intros Hws Hu rest Hr. apply lreaches_tok; try assumption; try discriminate.
    - cbn; lia.
    - intros f _. rewrite <- app_assoc. now apply scan_token_hex.
  Qed.

  Lemma float_lexeme_nonempty body : float_lexeme body -> (0 < length body)%nat.
  Proof. intros (neg & d0 & frac & es & ex & -> & _). unfold float_body. rewrite app_length. cbn [length]. lia. Qed.

  Lemma lexS_double ws body : is_ws ws -> float_lexeme body -> lexS (ws ++ body) [TDouble (pD body)].
  Proof.
    intros Hws Hb rest Hr. apply lreaches_tok; try assumption; try discriminate.
    - now apply float_lexeme_nonempty.
    - intros f _. now apply scan_token_double.
  Qed.

  Lemma lexA_float ws body : is_ws ws -> float_lexeme body -> lexA (ws ++ body ++ [102%N]) [TFloat (pF body)].
  Proof.
    intros Hws Hb rest. apply lreaches_tok; try assumption; try discriminate.
    - rewrite app_length. cbn. lia.
    - intros f _. rewrite <- app_assoc. cbn [app]. now apply scan_token_float.
  Qed.

  Lemma lexA_ldouble ws body : is_ws ws -> float_lexeme body -> lexA (ws ++ body ++ [76%N]) [TLdouble (pLD body)].
  Proof.
    intros Hws Hb rest. apply lreaches_tok; try assumption; try discriminate.
    - rewrite app_length. cbn. lia.
    - intros f _. rewrite <- app_assoc. cbn [app]. now apply scan_token_ldouble.
  Qed.

  Lemma output_str_length s : (length s + 2 <= length (output_str s))%nat.
  Proof.
    unfold output_str. rewrite !app_length. cbn [length].
    assert (length s <= length (flat_map out_char s))%nat.
    { induction s as [|c s IH]; [cbn; lia|]. cbn [flat_map length]. rewrite app_length.
      assert (1 <= length (out_char c))%nat.
      { unfold out_char. repeat (match goal with |- context [if ?b then _ else _] => destruct b end); cbn; lia. }
      lia. }
    lia.
  Qed.

  Lemma lexA_str ws s : is_ws ws -> is_bytes s -> lexA (ws ++ output_str s) [TStr (nul_terminate s)].
  Proof.
    intros Hws Hb rest. apply lreaches_tok; try assumption; try discriminate.
    - pose proof (output_str_length s). lia.
    - intros f Hf. apply scan_token_str; [assumption|]. pose proof (output_str_length s). lia.
  Qed.

  Lemma lexA_punct ws c t : is_ws ws ->
    (forall f cs, stok (S f) (c :: cs) = Some (t, cs)) -> t <> TEOF -> lexA (ws ++ [c]) [t].
  Proof. intros Hws H Ht rest. apply lreaches_tok; try assumption; [cbn; lia | intros f _; apply H]. Qed.

  Lemma lexA_comma ws : is_ws ws -> lexA (ws ++ [44%N]) [TComma].
  Proof. intros H. apply lexA_punct; try assumption; [reflexivity | discriminate]. Qed.
  Lemma lexA_colon ws : is_ws ws -> lexA (ws ++ [58%N]) [TCol].
  Proof. intros H. apply lexA_punct; try assumption; [reflexivity | discriminate]. Qed.
  Lemma lexA_lpar ws : is_ws ws -> lexA (ws ++ [40%N]) [TLpar].
  Proof. intros H. apply lexA_punct; try assumption; [reflexivity | discriminate]. Qed.
  Lemma lexA_rpar ws : is_ws ws -> lexA (ws ++ [41%N]) [TRpar].
  Proof. intros H. apply lexA_punct; try assumption; [reflexivity | discriminate]. Qed.
  Lemma lexA_nl ws : is_ws ws -> lexA (ws ++ [10%N]) [TNL].
  Proof. intros H. apply lexA_punct; try assumption; [reflexivity | discriminate]. Qed.

  (* a comment up to and including the end of its line is one NL token *)
  Lemma lexA_comment ws body : is_ws ws -> no_newline body -> lexA (ws ++ 35%N :: body ++ [10%N]) [TNL].
  Proof.
    intros Hws Hb rest. apply lreaches_tok; try assumption; try discriminate; [cbn; lia|].
    intros f _. cbn [app]. rewrite scan_token_hash. rewrite <- app_assoc. cbn [app]. now rewrite skip_comment_line.
  Qed.

  (* ---------------------------------------------------------------- composition with optional parts *)

  Definition nil_or_sep (cs : bytes) : Prop := cs = [] \/ starts_sep cs.

  Lemma lexS_appS' c1 t1 c2 t2 : lexS c1 t1 -> lexS c2 t2 -> nil_or_sep c2 -> lexS (c1 ++ c2) (t1 ++ t2).
  Proof.
    intros H1 H2 Hc rest Hr. apply lreaches_app; [|now apply H2].
    apply H1. destruct Hc as [->|Hs]; [exact Hr | now apply good_rest_app].
  Qed.

  Lemma lexS_nil : lexS [] [].
  Proof. intros rest _. apply lreaches_nil. Qed.
  Lemma lexA_nil : lexA [] [].
  Proof. intros rest. apply lreaches_nil. Qed.

  Lemma ws_nil : is_ws []. Proof. constructor. Qed.
  Lemma ws_blank : is_ws [32%N]. Proof. repeat constructor. Qed.
  Lemma ws_tab : is_ws [9%N]. Proof. repeat constructor; now right. Qed.

  (* ---------------------------------------------------------------- operands *)

  Variables fF fD fLD : Z -> bytes.

  (* the libc law on one immediate: the printed lexeme has the printf shape and strtoX returns the bits *)
  Definition okF (b : Z) : Prop := exists body, fF b = body ++ [102%N] /\ float_lexeme body /\ pF body = b.
  Definition okD (b : Z) : Prop := float_lexeme (fD b) /\ pD (fD b) = b.
  Definition okLD (b : Z) : Prop := exists body, fLD b = body ++ [76%N] /\ float_lexeme body /\ pLD body = b.

  Definition ident_opt (o : option name) : Prop := match o with Some n => is_ident n | None => True end.

  Definition cmem_ok (m : mem) : Prop :=
    wf_mtype (m_type m) /\ in_s64 (m_disp m) /\ ident_opt (m_base m) /\ ident_opt (m_index m)
    /\ ident_opt (m_alias m) /\ ident_opt (m_nonalias m).

  Definition cop_ok (o : operand) : Prop :=
    match o with
    | OReg r | ORef r => is_ident r
    | OInt i => in_s64 i
    | OUint u => in_u64 u
    | OFloat b => okF b
    | ODouble b => okD b
    | OLdouble b => okLD b
    | OMem m => cmem_ok m
    | OStr s => is_bytes s
    | OLabel l => 0 <= l < 2 ^ 63
    end.

  Lemma type_str_ident t : wf_mtype t -> is_ident (type_str t).
  Proof.
    intros H. apply is_ident_b_spec. destruct t as [| | | | | | | | | | | |n| |]; try reflexivity.
    cbn in H. assert (E : (n = 0 \/ n = 1 \/ n = 2 \/ n = 3 \/ n = 4)%N) by lia.
    repeat (destruct E as [E|E]); subst n; reflexivity.
  Qed.

  Lemma lname_ident l : 0 <= l -> is_ident (lname l).
  Proof.
    intros Hl. unfold lname. cbn [str app]. split; [reflexivity|].
    unfold p_int. destruct (Z.ltb_spec l 0); [lia|].
    eapply Forall_impl; [|apply p_nat_digits; assumption]. intros c Hc. unfold name_char. rewrite Hc.
    cbn [negb andb]. now rewrite !orb_true_r.
  Qed.

  Lemma starts_sep_str s r : starts_sep (str s ++ r) -> True. Proof. trivial. Qed.

  Lemma s64_of_N sc : (sc < 256)%N -> s64 (Z.of_N sc) = Z.of_N sc.
  Proof. intros H. apply swrap_id; [lia|]. unfold in_s. cbn. lia. Qed.

  (* ", name" *)
  Lemma lex_comma_name n : is_ident n -> lexS (comma ++ n) [TComma; TName n].
  Proof.
    intros Hn. change (comma ++ n) with (([] ++ [44%N]) ++ ([32%N] ++ n)). change [TComma; TName n] with ([TComma] ++ [TName n]).
    apply lexA_appS; [apply lexA_comma, ws_nil | apply lexS_name; [apply ws_blank | assumption]].
  Qed.

  Lemma lex_comma_nat z : in_u64 z -> lexS (comma ++ p_nat z) [TComma; TInt (s64 z)].
  Proof.
    intros Hz. change (comma ++ p_nat z) with (([] ++ [44%N]) ++ ([32%N] ++ p_nat z)). change [TComma; TInt (s64 z)] with ([TComma] ++ [TInt (s64 z)]).
    apply lexA_appS; [apply lexA_comma, ws_nil | apply lexS_uint; [apply ws_blank | assumption]].
  Qed.

  Lemma lex_comma_int z : in_s64 z -> lexS (comma ++ p_int z) [TComma; TInt z].
  Proof.
    intros Hz. change (comma ++ p_int z) with (([] ++ [44%N]) ++ ([32%N] ++ p_int z)). change [TComma; TInt z] with ([TComma] ++ [TInt z]).
    apply lexA_appS; [apply lexA_comma, ws_nil | apply lexS_int; [apply ws_blank | assumption]].
  Qed.

  (* the parenthesised part of a memory operand *)
  Lemma lex_mem_paren b i sc : ident_opt b -> ident_opt i -> (sc < 256)%N ->
    lexA (str "(" ++ opt_bytes b
          ++ (match i with
              | Some x => comma ++ x ++ (if N.eqb sc 1 then [] else comma ++ p_nat (Z.of_N sc))
              | None => []
              end) ++ str ")")
         ([TLpar] ++ (match b with Some x => [TName x] | None => [] end)
          ++ (match i with
              | Some x => [TComma; TName x] ++ (if N.eqb sc 1 then [] else [TComma; TInt (Z.of_N sc)])
              | None => []
              end) ++ [TRpar]).
  Proof.
    intros Hb Hi Hsc.
    apply (lexA_app ([] ++ [40%N]) [TLpar]); [apply lexA_lpar, ws_nil|].
    rewrite !app_assoc. apply lexS_appA; [ | apply (lexA_rpar []), ws_nil | reflexivity].
    apply lexS_appS'.
    - destruct b as [x|]; cbn [opt_bytes]; [apply (lexS_name [] x ws_nil Hb) | apply lexS_nil].
    - destruct i as [x|]; [|apply lexS_nil]. cbn in Hi.
      rewrite app_assoc. apply lexS_appS'; [now apply lex_comma_name | | ].
      + destruct (N.eqb sc 1); [apply lexS_nil|].
        replace (TInt (Z.of_N sc)) with (TInt (s64 (Z.of_N sc))) by now rewrite s64_of_N.
        apply lex_comma_nat. unfold in_u64. lia.
      + destruct (N.eqb sc 1); [now left | right; reflexivity].
    - destruct i as [x|]; [right; reflexivity | now left].
  Qed.

  (* the alias part *)
  Lemma lex_mem_alias a na : ident_opt a -> ident_opt na ->
    lexS (str ":" ++ opt_bytes a ++ (match na with Some x => str ":" ++ x | None => [] end))
         ([TCol] ++ (match a with Some x => [TName x] | None => [] end) ++ (match na with Some x => [TCol; TName x] | None => [] end)).
  Proof.
    intros Ha Hna. apply (lexA_appS ([] ++ [58%N]) [TCol]); [apply lexA_colon, ws_nil|].
    apply lexS_appS'.
    - destruct a as [x|]; cbn [opt_bytes]; [apply (lexS_name [] x ws_nil Ha) | apply lexS_nil].
    - destruct na as [x|]; [|apply lexS_nil].
      change [TCol; TName x] with ([TCol] ++ [TName x]).
      apply (lexA_appS ([] ++ [58%N]) [TCol]); [apply lexA_colon, ws_nil | apply (lexS_name [] x ws_nil Hna)].
    - destruct na as [x|]; [right; reflexivity | now left].
  Qed.

  Definition cmem_ok' (m : mem) : Prop := cmem_ok m /\ (m_scale m < 256)%N.

  (* memory operand *)
  Lemma lex_mem ws m : is_ws ws -> cmem_ok' m -> lexS (ws ++ p_mem m) (tk_mem m).
  Proof.
    intros Hws [(Ht & Hd & Hb & Hi & Ha & Hna) Hsc]. destruct m as [t d b i sc a na].
    unfold p_mem, tk_mem. cbn [m_type m_disp m_base m_index m_scale m_alias m_nonalias] in *.
    rewrite app_assoc.
    change ([TName (type_str t); TCol] ++ ?x) with ([TName (type_str t)] ++ [TCol] ++ x).
    apply lexS_appS'; [apply lexS_name; [assumption | now apply type_str_ident] | | right; reflexivity].
    apply (lexA_appS ([] ++ [58%N]) [TCol]); [apply lexA_colon, ws_nil|].
    apply lexS_appS'.
    - destruct (negb (d =? 0) || (negb (is_some b) && negb (is_some i)))%bool; [apply (lexS_int [] d ws_nil Hd) | apply lexS_nil].
    - apply lexS_appS'.
      + destruct (is_some b || is_some i)%bool; [|apply lexS_nil]. apply lexA_S. now apply lex_mem_paren.
      + destruct (is_some a || is_some na)%bool; [|apply lexS_nil]. now apply lex_mem_alias.
      + destruct (is_some a || is_some na)%bool; [right; reflexivity | now left].
    - destruct (is_some b || is_some i)%bool; [right; reflexivity|].
      destruct (is_some a || is_some na)%bool; [right; reflexivity | now left].
  Qed.

  Lemma lex_op ws o : is_ws ws -> cop_ok o -> (match o with OMem m => (m_scale m < 256)%N | _ => True end) ->
    lexS (ws ++ p_op fF fD fLD o) (tk_op o).
  Proof.
    intros Hws Hok Hsc. destruct o as [r|i|u|b|b|b|m|n|s|l]; cbn [p_op tk_op cop_ok] in *.
    - now apply lexS_name.
    - now apply lexS_int.
    - now apply lexS_uint.
    - destruct Hok as (body & E & Hl & Hp). rewrite E, <- Hp. apply lexA_S. now apply lexA_float.
    - destruct Hok as (Hl & Hp). rewrite <- Hp at 2. now apply lexS_double.
    - destruct Hok as (body & E & Hl & Hp). rewrite E, <- Hp. apply lexA_S. now apply lexA_ldouble.
    - apply lex_mem; [assumption | split; assumption].
    - now apply lexS_name.
    - apply lexA_S. now apply lexA_str.
    - apply lexS_name; [assumption | apply lname_ident; lia].
  Qed.

  Definition cop_ok' (o : operand) : Prop := cop_ok o /\ (match o with OMem m => (m_scale m < 256)%N | _ => True end).

  Lemma sep_list_cons2 {A} sep (f : A -> bytes) x y r : sep_list sep f (x :: y :: r) = f x ++ sep ++ sep_list sep f (y :: r).
  Proof. cbn [sep_list flat_map]. now rewrite <- app_assoc. Qed.

  (* "el, el, ..." for any kind of element whose first token may follow blanks *)
  Lemma lex_sep_list {A} (f : A -> bytes) (tk : A -> list ttok) (ok : A -> Prop) :
    (forall ws a, is_ws ws -> ok a -> lexS (ws ++ f a) (tk a)) ->
    forall els ws, els <> [] -> is_ws ws -> Forall ok els -> lexS (ws ++ sep_list comma f els) (sep_toks tk els).
  Proof.
    intros Hel. induction els as [|x els IH]; intros ws Hne Hws Hok; [congruence|].
    pose proof (Forall_inv Hok) as Hx. pose proof (Forall_inv_tail Hok) as Hoks.
    destruct els as [|y els'].
    - cbn [sep_list flat_map sep_toks]. rewrite app_nil_r. now apply Hel.
    - rewrite sep_list_cons2. change (sep_toks tk (x :: y :: els')) with (tk x ++ [TComma] ++ sep_toks tk (y :: els')).
      rewrite app_assoc. apply lexS_appS'; [now apply Hel | | right; reflexivity].
      change (comma ++ sep_list comma f (y :: els')) with (([] ++ [44%N]) ++ ([32%N] ++ sep_list comma f (y :: els'))).
      apply lexA_appS; [apply lexA_comma, ws_nil|]. apply IH; [discriminate | apply ws_blank | assumption].
  Qed.

  Lemma lex_ops ws ops : ops <> [] -> is_ws ws -> Forall cop_ok' ops ->
    lexS (ws ++ sep_list comma (p_op fF fD fLD) ops) (sep_toks tk_op ops).
  Proof.
    intros Hne Hws Hok. apply (lex_sep_list (p_op fF fD fLD) tk_op cop_ok'); try assumption.
    intros ws' a Hws' [H1 H2]. now apply lex_op.
  Qed.

  (* ---------------------------------------------------------------- instruction and label lines *)

  Lemma insn_name_ident c : readable_code c = true -> is_ident (insn_name c).
  Proof. intros H. apply is_ident_b_spec. destruct c; try discriminate; reflexivity. Qed.

  Definition cinsn_ok (i : insn) : Prop :=
    match i with
    | ILabel l => 0 <= l < 2 ^ 63
    | IInsn c ops => readable_code c = true /\ Forall cop_ok' ops
    end.

  Lemma lex_insn i : cinsn_ok i -> lexA (p_insn fF fD fLD i) (tk_insn i).
  Proof.
    destruct i as [l|c ops]; cbn [cinsn_ok p_insn tk_insn].
    - intros Hl. unfold p_label.
      change [TName (lname l); TCol; TNL] with ([TName (lname l)] ++ [TCol] ++ [TNL]).
      apply lexS_appA; [apply (lexS_name [] (lname l) ws_nil), lname_ident; lia | | reflexivity].
      apply (lexA_app ([] ++ [58%N]) [TCol] ([] ++ [10%N]) [TNL]); [apply lexA_colon | apply lexA_nl]; apply ws_nil.
    - intros [Hrd Hops].
      change (TName (insn_name c) :: sep_toks tk_op ops ++ [TNL]) with ([TName (insn_name c)] ++ sep_toks tk_op ops ++ [TNL]).
      rewrite !app_assoc. apply lexS_appA; [ | apply (lexA_nl []), ws_nil | reflexivity].
      apply lexS_appS'; [apply lexS_name; [apply ws_tab | now apply insn_name_ident] | | ].
      + destruct ops as [|o ops']; [apply lexS_nil|]. apply lex_ops; [discriminate | apply ws_tab | assumption].
      + destruct ops as [|o ops']; [now left | right; reflexivity].
  Qed.

  Lemma lex_flat_map {A} (f : A -> bytes) (tk : A -> list ttok) l :
    Forall (fun x => lexA (f x) (tk x)) l -> lexA (flat_map f l) (flat_map tk l).
  Proof.
    induction l as [|x l IH]; intros H; [apply lexA_nil|]. cbn [flat_map].
    apply lexA_app; [exact (Forall_inv H) | apply IH; exact (Forall_inv_tail H)].
  Qed.

  (* ---------------------------------------------------------------- signatures *)

  Definition p_sigel (e : sigel) : bytes := match e with SigRes t => type_str t | SigArg v => p_arg v end.

  Definition csigel_ok (e : sigel) : Prop :=
    match e with
    | SigRes t => wf_mtype t
    | SigArg v => wf_mtype (v_type v) /\ is_ident (v_name v) /\ 0 <= v_size v < 2 ^ 63
    end.

  Lemma lex_sigel ws e : is_ws ws -> csigel_ok e -> lexS (ws ++ p_sigel e) (tk_sigel e).
  Proof.
    intros Hws Hok. destruct e as [t|v]; cbn [p_sigel tk_sigel csigel_ok] in *.
    - apply lexS_name; [assumption | now apply type_str_ident].
    - destruct Hok as (Ht & Hn & Hsz). unfold p_arg, tk_arg. destruct (all_blk_type_p (v_type v)).
      + rewrite app_assoc.
        change [TName (type_str (v_type v)); TCol; TInt (v_size v); TLpar; TName (v_name v); TRpar]
          with ([TName (type_str (v_type v))] ++ [TCol] ++ [TInt (v_size v)] ++ [TLpar] ++ [TName (v_name v)] ++ [TRpar]).
        apply lexS_appS'; [apply lexS_name; [assumption | now apply type_str_ident] | | right; reflexivity].
        apply (lexA_appS ([] ++ [58%N]) [TCol]); [apply lexA_colon, ws_nil|].
        apply lexS_appS'; [ | | right; reflexivity].
        * replace (TInt (v_size v)) with (TInt (s64 (v_size v))) by (f_equal; apply swrap_id; [lia | unfold in_s; cbn; lia]).
          apply (lexS_uint [] (v_size v) ws_nil). unfold in_u64. lia.
        * apply (lexA_appS ([] ++ [40%N]) [TLpar]); [apply lexA_lpar, ws_nil|].
          apply lexA_S. apply lexS_appA; [apply (lexS_name [] _ ws_nil Hn) | apply (lexA_rpar []), ws_nil | reflexivity].
      + rewrite app_assoc.
        change [TName (type_str (v_type v)); TCol; TName (v_name v)] with ([TName (type_str (v_type v))] ++ [TCol] ++ [TName (v_name v)]).
        apply lexS_appS'; [apply lexS_name; [assumption | now apply type_str_ident] | | right; reflexivity].
        apply (lexA_appS ([] ++ [58%N]) [TCol]); [apply lexA_colon, ws_nil | apply (lexS_name [] _ ws_nil Hn)].
  Qed.

  Lemma sep_list_map {A B} sep (g : A -> B) (f : B -> bytes) l : sep_list sep f (map g l) = sep_list sep (fun x => f (g x)) l.
  Proof.
    destruct l as [|x l]; [reflexivity|]. cbn [map sep_list]. f_equal.
    induction l as [|y l IH]; [reflexivity|]. cbn. now rewrite IH.
  Qed.

  Lemma proto_strings res args :
    map type_str res ++ map p_arg args = map p_sigel (map SigRes res ++ map SigArg args).
  Proof. rewrite map_app, !map_map. reflexivity. Qed.

  Lemma dots_ident : is_ident (str "..."). Proof. apply is_ident_b_spec. reflexivity. Qed.


  Lemma lex_proto_nonempty ws va els : els <> [] -> is_ws ws -> Forall csigel_ok els ->
    lexA (ws ++ sep_list comma p_sigel els ++ (if va : bool then str ", ..." else []) ++ nl)
         (sep_toks tk_sigel els ++ (if va then [TComma; TName (str "...")] else []) ++ [TNL]).
  Proof.
    intros Hne Hws Hok. rewrite !app_assoc. apply lexS_appA; [ | apply (lexA_nl []), ws_nil | reflexivity].
    apply lexS_appS'.
    - apply (lex_sep_list p_sigel tk_sigel csigel_ok); try assumption. intros. now apply lex_sigel.
    - destruct va; [|apply lexS_nil]. apply (lex_comma_name (str "...") dots_ident).
    - destruct va; [right; reflexivity | now left].
  Qed.

  Lemma lex_proto_tail ws va res args : is_ws ws -> Forall csigel_ok (map SigRes res ++ map SigArg args) ->
    lexA (ws ++ p_proto_tail va res args) (tk_proto_tail va res args).
  Proof.
    intros Hws Hok. unfold p_proto_tail, tk_proto_tail.
    rewrite proto_strings, sep_list_map.
    destruct res as [|t res'], args as [|v args'].
    - cbn [map app sep_list sep_toks]. destruct va.
      + rewrite app_assoc. apply lexS_appA; [apply lexS_name; [assumption | apply dots_ident] | apply (lexA_nl []), ws_nil | reflexivity].
      + cbn [app]. now apply lexA_nl.
    - apply (lex_proto_nonempty ws va (map SigRes [] ++ map SigArg (v :: args'))); [discriminate | assumption | assumption].
    - apply (lex_proto_nonempty ws va (map SigRes (t :: res') ++ map SigArg [])); [discriminate | assumption | assumption].
    - apply (lex_proto_nonempty ws va (map SigRes (t :: res') ++ map SigArg (v :: args'))); [discriminate | assumption | assumption].
  Qed.

  (* ---------------------------------------------------------------- items *)

  Lemma kw_ident (k : string) : is_ident_b (str k) = true -> is_ident (str k).
  Proof. apply is_ident_b_spec. Qed.

  Lemma lex_optname n : ident_opt n -> lexA (p_optname n) (tk_optname n).
  Proof.
    destruct n as [x|]; cbn [p_optname tk_optname ident_opt]; [|intros _; apply lexA_nil].
    intros Hx. change [TName x; TCol] with ([TName x] ++ [TCol]).
    apply lexS_appA; [apply (lexS_name [] x ws_nil Hx) | apply (lexA_colon []), ws_nil | reflexivity].
  Qed.

  (* "\tkw\tname\n" *)
  Lemma lex_kw_name k n : is_ident_b (str k) = true -> is_ident n ->
    lexA (tab ++ str k ++ tab ++ n ++ nl) [TName (str k); TName n; TNL].
  Proof.
    intros Hk Hn. change [TName (str k); TName n; TNL] with ([TName (str k)] ++ [TName n] ++ [TNL]).
    rewrite !app_assoc. apply lexS_appA; [ | apply (lexA_nl []), ws_nil | reflexivity].
    rewrite <- app_assoc. apply lexS_appS'; [apply lexS_name; [apply ws_tab | now apply kw_ident] | | right; reflexivity].
    apply lexS_name; [apply ws_tab | assumption].
  Qed.

  Definition cel_ok (t : mtype) (z : Z) : Prop :=
    match t with
    | TI8 | TI16 | TI32 | TI64 => in_s64 z
    | TU8 | TU16 | TU32 | TU64 | TP => in_u64 z       (* p data prints as 0x...: HexProofs.v *)
    | TF => okF z | TD => okD z | TLD => okLD z
    | TBLK _ | TRBLK | TUNDEF => False
    end.

  Lemma lex_el ws t z : is_ws ws -> cel_ok t z -> lexS (ws ++ p_el fF fD fLD t z) (tk_el t z).
  Proof.
    intros Hws Hok. destruct t; cbn [cel_ok p_el tk_el] in *; try contradiction;
      try (now apply lexS_int); try (now apply lexS_uint); try (now apply lexS_hex).
    - destruct Hok as (body & E & Hl & Hp). rewrite E, <- Hp. apply lexA_S. now apply lexA_float.
    - destruct Hok as (Hl & Hp). rewrite <- Hp at 2. now apply lexS_double.
    - destruct Hok as (body & E & Hl & Hp). rewrite E, <- Hp. apply lexA_S. now apply lexA_ldouble.
  Qed.

  Definition citem_ok_simple (it : item) : Prop :=
    match it with
    | ItImport n | ItExport n | ItForward n => is_ident n
    | ItBss n len => ident_opt n /\ in_u64 len
    | ItRef n r d => ident_opt n /\ is_ident r /\ in_s64 d
    | ItLref n l l2 d => ident_opt n /\ 0 <= l < 2 ^ 63 /\ (match l2 with Some x => 0 <= x < 2 ^ 63 | None => True end) /\ in_s64 d
    | ItExpr n f => ident_opt n /\ is_ident f
    | ItData n t els => ident_opt n /\ wf_mtype t /\ Forall (cel_ok t) els /\ (t = TU8 -> Forall (fun z => 0 <= z < 256) els)
    | ItProto n va res args => is_ident n /\ Forall csigel_ok (map SigRes res ++ map SigArg args)
    | ItFunc _ => True
    end.

  Lemma is_bytes_of_Z els : Forall (fun z => 0 <= z < 256) els -> is_bytes (map Z.to_N els).
  Proof. intros H. apply Forall_map. eapply Forall_impl; [|exact H]. intros z Hz. cbv beta in Hz |- *. destruct Hz as [H0 H1]. apply N2Z.inj_lt. rewrite Z2N.id by exact H0. exact H1. Qed.

  Lemma lex_item_simple it : (match it with ItFunc _ => False | _ => True end) -> citem_ok_simple it ->
    lexA (p_item fF fD fLD it) (tk_item it).
  Proof.
    intros Hnf Hok. destruct it as [x|x|x|x len|x t els|x r d|x l l2 d|x f|x va res args|f]; try contradiction;
      cbn [citem_ok_simple p_item tk_item] in *.
    - now apply (lex_kw_name "import").
    - now apply (lex_kw_name "export").
    - now apply (lex_kw_name "forward").
    - destruct Hok as [Hn Hl]. apply lexA_app; [now apply lex_optname|].
      change [TName (str "bss"); TInt (s64 len); TNL] with ([TName (str "bss")] ++ [TInt (s64 len)] ++ [TNL]).
      rewrite !app_assoc. apply lexS_appA; [ | apply (lexA_nl []), ws_nil | reflexivity].
      rewrite <- app_assoc. apply lexS_appS'; [apply lexS_name; [apply ws_tab | now apply kw_ident] | | right; reflexivity].
      apply lexS_uint; [apply ws_tab | assumption].
    - (* data *)
      destruct Hok as (Hn & Ht & Hels & Hu8). rewrite <- ?app_assoc. apply lexA_app; [now apply lex_optname|].
      change (TName (type_str t) :: ?x) with ([TName (type_str t)] ++ x).
      (* "\ttype" then "\tels" then optional comment, newline *)
      rewrite (app_assoc tab (type_str t)).
      assert (Hty : lexS (tab ++ type_str t) [TName (type_str t)]) by (apply lexS_name; [apply ws_tab | now apply type_str_ident]).
      assert (Htail : lexA ((match t, els with
                             | TU8, _ :: _ => if last els 1 =? 0 then str " # " ++ output_str (map Z.to_N els) else []
                             | _, _ => []
                             end) ++ nl) [TNL]).
      { destruct t; try (cbn [app]; apply (lexA_nl []), ws_nil).
        destruct els as [|z els']; [apply (lexA_nl []), ws_nil|].
        destruct (last (z :: els') 1 =? 0); [|apply (lexA_nl []), ws_nil].
        change (str " # " ++ output_str (map Z.to_N (z :: els'))) with ([32%N] ++ 35%N :: ([32%N] ++ output_str (map Z.to_N (z :: els')))).
        rewrite <- app_assoc. cbn [app].
        apply (lexA_comment [32%N] (32%N :: output_str (map Z.to_N (z :: els'))) ws_blank).
        constructor; [discriminate|]. apply output_str_no_newline. apply is_bytes_of_Z. now apply Hu8. }
      destruct els as [|z els'].
      + (* no element: "\ttype\t" and the end of the line *)
        cbn [sep_list sep_toks app].
        assert (Em : forall (X : bytes), (match t, @nil Z with TU8, _ :: _ => X | _, _ => [] end) = []) by (intros; destruct t; reflexivity).
        rewrite (Em []). cbn [app].
        change [TName (type_str t); TNL] with ([TName (type_str t)] ++ [TNL]).
        apply lexS_appA; [exact Hty | apply (lexA_nl [9%N]), ws_tab | reflexivity].
      + apply lexS_appA; [exact Hty | | reflexivity].
        rewrite !app_assoc. rewrite <- (app_assoc _ _ nl).
        apply lexS_appA; [ | exact Htail | ].
        * apply (lex_sep_list (p_el fF fD fLD t) (tk_el t) (cel_ok t)); try assumption; try discriminate; [|apply ws_tab].
          intros. now apply lex_el.
        * destruct t; try reflexivity. destruct (last (z :: els') 1 =? 0); reflexivity.
    - destruct Hok as (Hn & Hr & Hd). apply lexA_app; [now apply lex_optname|].
      replace (tab ++ str "ref" ++ tab ++ r ++ comma ++ p_int d ++ nl)
        with (((tab ++ str "ref") ++ (tab ++ r) ++ (comma ++ p_int d)) ++ nl) by (repeat rewrite <- app_assoc; reflexivity).
      change [TName (str "ref"); TName r; TComma; TInt d; TNL] with (([TName (str "ref")] ++ [TName r] ++ [TComma; TInt d]) ++ [TNL]).
      apply lexS_appA; [ | apply (lexA_nl []), ws_nil | reflexivity].
      apply lexS_appS'; [apply lexS_name; [apply ws_tab | now apply kw_ident] | | right; reflexivity].
      apply lexS_appS'; [apply lexS_name; [apply ws_tab | assumption] | now apply lex_comma_int | right; reflexivity].
    - destruct Hok as (Hn & Hl & Hl2 & Hd). rewrite <- ?app_assoc. apply lexA_app; [now apply lex_optname|].
      set (P2 := match l2 with Some x0 => comma ++ p_label x0 | None => [] end).
      set (P3 := if d =? 0 then [] else comma ++ p_int d).
      set (T2 := match l2 with Some x0 => [TComma; TName (lname x0)] | None => [] end).
      set (T3 := if d =? 0 then [] else [TComma; TInt d]).
      replace (tab ++ str "lref" ++ tab ++ p_label l ++ P2 ++ P3 ++ nl)
        with (((tab ++ str "lref") ++ (tab ++ p_label l) ++ P2 ++ P3) ++ nl) by (repeat rewrite <- app_assoc; reflexivity).
      replace ([TName (str "lref"); TName (lname l)] ++ T2 ++ T3 ++ [TNL])
        with (([TName (str "lref")] ++ [TName (lname l)] ++ T2 ++ T3) ++ [TNL]) by (cbn [app]; repeat rewrite <- app_assoc; reflexivity).
      apply lexS_appA; [ | apply (lexA_nl []), ws_nil | reflexivity].
      apply lexS_appS'; [apply lexS_name; [apply ws_tab | now apply kw_ident] | | right; reflexivity].
      apply lexS_appS'; [apply (lexS_name [9%N] (lname l) ws_tab); apply lname_ident; lia | | ].
      + apply lexS_appS'.
        * subst P2 T2. destruct l2 as [y|]; [|apply lexS_nil]. apply (lex_comma_name (lname y)). apply lname_ident; lia.
        * subst P3 T3. destruct (d =? 0); [apply lexS_nil | now apply lex_comma_int].
        * subst P3. destruct (d =? 0); [now left | right; reflexivity].
      + subst P2 P3. destruct l2 as [y|]; [right; reflexivity|]. destruct (d =? 0); [now left | right; reflexivity].
    - destruct Hok as (Hn & Hf). apply lexA_app; [now apply lex_optname|]. now apply (lex_kw_name "expr").
    - destruct Hok as (Hn & Hsig).
      replace (x ++ str ":" ++ tab ++ str "proto" ++ tab ++ p_proto_tail va res args)
        with (x ++ ([] ++ [58%N]) ++ (tab ++ str "proto") ++ (tab ++ p_proto_tail va res args)) by (repeat rewrite <- app_assoc; reflexivity).
      replace ([TName x; TCol; TName (str "proto")] ++ tk_proto_tail va res args)
        with ([TName x] ++ [TCol] ++ [TName (str "proto")] ++ tk_proto_tail va res args) by reflexivity.
      apply lexS_appA; [apply (lexS_name [] x ws_nil Hn) | | reflexivity].
      apply lexA_app; [apply lexA_colon, ws_nil|].
      apply lexS_appA; [apply lexS_name; [apply ws_tab | now apply kw_ident] | | reflexivity].
      apply lex_proto_tail; [apply ws_tab | assumption].
  Qed.

  (* ---------------------------------------------------------------- local / global lines *)

  Definition clocal_ok (v : mtype * name) : Prop := wf_mtype (fst v) /\ is_ident (snd v).
  Definition cglobal_ok (v : mtype * name * name) : Prop := wf_mtype (fst (fst v)) /\ is_ident (snd (fst v)) /\ is_ident (snd v).

  Lemma lex_local ws v : is_ws ws -> clocal_ok v -> lexS (ws ++ p_local v) (tk_local v).
  Proof.
    intros Hws [Ht Hn]. destruct v as [t n]. unfold p_local, tk_local. cbn [fst snd] in *.
    rewrite app_assoc. change [TName (type_str t); TCol; TName n] with ([TName (type_str t)] ++ [TCol] ++ [TName n]).
    apply lexS_appS'; [apply lexS_name; [assumption | now apply type_str_ident] | | right; reflexivity].
    apply (lexA_appS ([] ++ [58%N]) [TCol]); [apply lexA_colon, ws_nil | apply (lexS_name [] n ws_nil Hn)].
  Qed.

  Lemma lex_global ws v : is_ws ws -> cglobal_ok v -> lexS (ws ++ p_global v) (tk_global v).
  Proof.
    intros Hws (Ht & Hn & Hh). destruct v as [[t n] h]. unfold p_global, tk_global. cbn [fst snd] in *.
    rewrite app_assoc.
    change [TName (type_str t); TCol; TName n; TCol; TName h] with ([TName (type_str t)] ++ [TCol] ++ [TName n] ++ [TCol] ++ [TName h]).
    apply lexS_appS'; [apply lexS_name; [assumption | now apply type_str_ident] | | right; reflexivity].
    apply (lexA_appS ([] ++ [58%N]) [TCol]); [apply lexA_colon, ws_nil|].
    apply lexS_appS'; [apply (lexS_name [] n ws_nil Hn) | | right; reflexivity].
    apply (lexA_appS ([] ++ [58%N]) [TCol]); [apply lexA_colon, ws_nil | apply (lexS_name [] h ws_nil Hh)].
  Qed.

  Lemma chunks8_all_nonempty {A} : forall fuel (l : list A), Forall (fun c => c <> []) (chunks8 fuel l).
  Proof.
    induction fuel as [|fuel IH]; intros l.
    - destruct l; cbn; constructor; [discriminate | constructor].
    - destruct l as [|a l']; [constructor|]. cbn [chunks8]. constructor; [cbn; discriminate | apply IH].
  Qed.

  Lemma lex_vars {A} (kw : string) (f : A -> bytes) (tk : A -> list ttok) (ok : A -> Prop) vs :
    is_ident_b (str kw) = true ->
    (forall ws a, is_ws ws -> ok a -> lexS (ws ++ f a) (tk a)) -> Forall ok vs ->
    lexA (p_vars kw f vs) (tk_vars kw tk vs).
  Proof.
    intros Hkw Hel Hok. rewrite (p_vars_lines (str kw) f kw vs eq_refl). unfold tk_vars.
    pose proof (chunks8_all_nonempty (length vs) vs) as Hne.
    assert (Hoks : Forall (Forall ok) (chunks8 (length vs) vs)) by (now apply Forall_chunks8).
    induction (chunks8 (length vs) vs) as [|c cs IH]; [apply lexA_nil|].
    cbn [flat_map]. apply lexA_app; [|apply IH; [exact (Forall_inv_tail Hne) | exact (Forall_inv_tail Hoks)]].
    unfold line_chars.
    replace ((tab ++ str kw ++ tab ++ sep_list comma f c) ++ nl)
      with (((tab ++ str kw) ++ (tab ++ sep_list comma f c)) ++ nl) by (repeat rewrite <- app_assoc; reflexivity).
    change (TName (str kw) :: sep_toks tk c ++ [TNL]) with (([TName (str kw)] ++ sep_toks tk c) ++ [TNL]).
    apply lexS_appA; [ | apply (lexA_nl []), ws_nil | reflexivity].
    apply lexS_appS'; [apply lexS_name; [apply ws_tab | now apply kw_ident] | | right; reflexivity].
    apply (lex_sep_list f tk ok Hel); [exact (Forall_inv Hne) | apply ws_tab | exact (Forall_inv Hoks)].
  Qed.

  (* ---------------------------------------------------------------- functions, modules, contexts *)

  Definition cfunc_ok (f : func) : Prop :=
    is_ident (f_name f) /\ Forall csigel_ok (map SigRes (f_res f) ++ map SigArg (f_args f))
    /\ Forall clocal_ok (f_locals f) /\ Forall cglobal_ok (f_globals f) /\ Forall cinsn_ok (f_insns f).

  Lemma no_newline_app a b : no_newline a -> no_newline b -> no_newline (a ++ b).
  Proof. intros Ha Hb. apply Forall_app. split; assumption. Qed.

  Lemma no_newline_digits z : 0 <= z -> no_newline (p_nat z).
  Proof.
    intros Hz. eapply Forall_impl; [|apply p_nat_digits; assumption]. intros c Hc ->. discriminate.
  Qed.

  Lemma no_newline_plural n : no_newline (plural n).
  Proof. unfold plural. destruct (Nat.eqb n 1); repeat constructor; discriminate. Qed.

  Lemma lex_func f : cfunc_ok f -> lexA (p_func fF fD fLD f) (tk_func f).
  Proof.
    intros (Hn & Hsig & Hloc & Hglob & Hins). unfold p_func, tk_func.
    repeat rewrite <- app_assoc. cbn [app].
    change (TName (f_name f) :: TCol :: TName (str "func") :: ?x) with ([TName (f_name f)] ++ [TCol] ++ [TName (str "func")] ++ x).
    (* header *)
    apply lexS_appA; [apply (lexS_name [] _ ws_nil Hn) | | reflexivity].
    apply (lexA_app (str ":") [TCol]); [apply (lexA_colon []), ws_nil|].
    rewrite (app_assoc tab (str "func")).
    apply lexS_appA; [apply lexS_name; [apply ws_tab | now apply kw_ident] | | reflexivity].
    rewrite (app_assoc tab (p_proto_tail _ _ _)).
    apply lexA_app; [apply lex_proto_tail; [apply ws_tab | assumption]|].
    (* locals, globals *)
    apply lexA_app; [apply (lex_vars "local" p_local tk_local clocal_ok); [reflexivity | intros; now apply lex_local | assumption]|].
    apply lexA_app; [apply (lex_vars "global" p_global tk_global cglobal_ok); [reflexivity | intros; now apply lex_global | assumption]|].
    (* empty line and the comment line *)
    change (TNL :: TNL :: ?x) with ([TNL] ++ [TNL] ++ x).
    apply (lexA_app nl [TNL]); [apply (lexA_nl []), ws_nil|].
    set (A1 := p_nat (Z.of_nat (length (f_args f)))). set (A2 := p_nat (Z.of_nat (length (f_locals f)))).
    set (A3 := p_nat (Z.of_nat (length (f_globals f)))).
    set (tail := flat_map (p_insn fF fD fLD) (f_insns f) ++ tab ++ str "endfunc" ++ nl).
    set (cmt := 32%N :: A1 ++ str " arg" ++ plural (length (f_args f)) ++ str ", " ++ A2 ++ str " local"
             ++ plural (length (f_locals f)) ++ str ", " ++ A3 ++ str " global" ++ plural (length (f_globals f))).
    change (str "# " ++ ?x) with (35%N :: 32%N :: x).
    replace (35%N :: 32%N :: A1 ++ str " arg" ++ plural (length (f_args f)) ++ str ", " ++ A2 ++ str " local"
             ++ plural (length (f_locals f)) ++ str ", " ++ A3 ++ str " global" ++ plural (length (f_globals f)) ++ nl ++ tail)
      with (([] ++ 35%N :: cmt ++ [10%N]) ++ tail)
      by (subst cmt; unfold nl; cbn [app]; repeat rewrite <- app_assoc; reflexivity).
    apply lexA_app.
    - apply lexA_comment; [apply ws_nil|]. subst cmt.
      constructor; [discriminate|].
      subst A1 A2 A3.
      repeat (apply no_newline_app; [first [apply no_newline_digits; lia | apply no_newline_plural | repeat constructor; discriminate]|]).
      apply no_newline_plural.
    - (* body and endfunc *)
      subst tail. apply lexA_app.
      + apply lex_flat_map. eapply Forall_impl; [|exact Hins]. intros i. apply lex_insn.
      + change [TName (str "endfunc"); TNL] with ([TName (str "endfunc")] ++ [TNL]). rewrite app_assoc.
        apply lexS_appA; [apply lexS_name; [apply ws_tab | now apply kw_ident] | apply (lexA_nl []), ws_nil | reflexivity].
  Qed.

  Definition citem_ok (it : item) : Prop :=
    match it with ItFunc f => cfunc_ok f | _ => citem_ok_simple it end.

  Lemma lex_item it : citem_ok it -> lexA (p_item fF fD fLD it) (tk_item it).
  Proof.
    intros H. destruct it as [x|x|x|x l|x t els|x r d|x l l2 d|x f|x va res args|f];
      try (apply lex_item_simple; [exact I | exact H]).
    cbn [p_item tk_item]. now apply lex_func.
  Qed.

  Definition cmodule_ok (m : module) : Prop := is_ident (mod_name m) /\ Forall citem_ok (mod_items m).

  Lemma lex_module m : cmodule_ok m -> lexA (p_module fF fD fLD m) (tk_module m).
  Proof.
    intros [Hn Hits]. unfold p_module, tk_module.
    repeat rewrite <- app_assoc. cbn [app].
    change (TName (mod_name m) :: TCol :: TName (str "module") :: TNL :: ?x)
      with ([TName (mod_name m)] ++ [TCol] ++ [TName (str "module")] ++ [TNL] ++ x).
    apply lexS_appA; [apply (lexS_name [] _ ws_nil Hn) | | reflexivity].
    apply (lexA_app (str ":") [TCol]); [apply (lexA_colon []), ws_nil|].
    rewrite (app_assoc tab (str "module")).
    apply lexS_appA; [apply lexS_name; [apply ws_tab | now apply kw_ident] | | reflexivity].
    apply (lexA_app nl [TNL]); [apply (lexA_nl []), ws_nil|].
    apply lexA_app.
    - apply lex_flat_map. eapply Forall_impl; [|exact Hits]. intros it. apply lex_item.
    - change [TName (str "endmodule"); TNL] with ([TName (str "endmodule")] ++ [TNL]). rewrite app_assoc.
      apply lexS_appA; [apply lexS_name; [apply ws_tab | now apply kw_ident] | apply (lexA_nl []), ws_nil | reflexivity].
  Qed.

  Definition cctx_ok (ms : list module) : Prop := Forall cmodule_ok ms.

  (* MIR_output's text lexes to the token sequence of the specification *)
  Lemma lex_ctx ms : cctx_ok ms ->
    lex (S (S (S (length (p_ctx fF fD fLD ms))))) (p_ctx fF fD fLD ms) = Some (tk_ctx ms ++ [TEOF]).
  Proof.
    intros Hok.
    assert (H : lexA (p_ctx fF fD fLD ms) (tk_ctx ms)).
    { unfold p_ctx, tk_ctx. apply lex_flat_map. eapply Forall_impl; [|exact Hok]. intros m. apply lex_module. }
    destruct (H [] (S (S (S (length (p_ctx fF fD fLD ms))))) ltac:(rewrite app_nil_r; lia)) as (f' & Hf' & E).
    rewrite app_nil_r in E. rewrite E.
    destruct f' as [|[|f']]; try (cbn in Hf'; lia). reflexivity.
  Qed.
End Lexing.

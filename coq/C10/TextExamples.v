(* Non-vacuity of text_module_fixpoint: a concrete context satisfies wf_text for the exact libc models
   of FloatFmt.v, and the model really returns it. *)
From Coq Require Import List ZArith NArith Bool String Lia.
From MirV Require Import Base.W64 Mir.Opcode C11.Tables C11.Ast C11.BinIO C11.BinIOProofs C11.BinGrammarProofs
  C10.TextOut C10.TextScan C10.TextProofs C10.FloatFmt
  C10.LexProofs C10.TextTokens C10.ParseProofs C10.PrintNormProofs C10.LexAllProofs C10.TextFixpoint.
Import ListNotations.
Local Open Scope Z_scope.

Definition tex_mem : mem := mkMem TU16 (-8) (Some (str "r")) (Some (str "i")) 8 (Some (str "A")) None.

Definition tex_func : func :=
  mkFunc (str "f") true [TI64] [mkVar TI32 (str "a") 0; mkVar (TBLK 3) (str "s") 16]
    [(TI64, str "r"); (TI64, str "i"); (TD, str "x")]
    [(TD, str "g", str "xmm12")]
    [ ILabel 1;
      IInsn MOV [OReg (str "r"); OInt (-1)];
      IInsn ADD [OMem tex_mem; OReg (str "r"); OUint 9223372036854775807];
      IInsn DMOV [OReg (str "x"); ODouble 0x3ff0000000000000];
      IInsn MOV [OReg (str "r"); OStr [104; 0; 255; 34; 92; 10; 0]%N];
      IInsn CALL [ORef (str "p"); ORef (str "f"); OReg (str "r"); OInt 5; OReg (str "i")];
      IInsn SWITCH [OReg (str "i"); OLabel 1; OLabel 2];
      IInsn BT [OLabel 1; OReg (str "r")];
      IInsn RET [OReg (str "r")];
      ILabel 2 ].

Definition tex_ctx : list module :=
  [ mkModule (str "m1")
      [ ItImport (str "ext"); ItForward (str "f");
        ItProto (str "p") false [TI64] [mkVar TI32 (str "a") 0; mkVar TI64 (str "b") 0];
        ItFunc tex_func;
        ItBss (Some (str "b")) 16;
        ItData (Some (str "d")) TI8 [-128; 127]; ItData None TU8 [104; 105; 0];
        ItData (Some (str "pd")) TP [0; 3735928559; 18446744073709551615];
        ItRef (Some (str "r1")) (str "d") (-1);
        ItLref (Some (str "l1")) 1 (Some 2) 8;
        ItExpr None (str "f") ];
    mkModule (str "empty") [] ].

Lemma okD_one : okD parseD fmtD 0x3ff0000000000000.
Proof.
  split; [|vm_compute; reflexivity].
  exists false, 49%N, (repeat 48%N 53), 43%N, [48; 48]%N.
  split; [vm_compute; reflexivity|]. split; [reflexivity|]. split; [repeat constructor|].
  split; [now left|]. split; [repeat constructor | discriminate].
Qed.

Ltac wf_step :=
  match goal with
  | |- _ /\ _ => split
  | |- Forall _ [] => constructor
  | |- Forall _ (_ :: _) => constructor
  | |- is_ident _ => apply is_ident_b_spec; reflexivity
  | |- ident_opt _ => cbn [ident_opt]
  | |- True => exact I
  | |- okD _ _ _ => exact okD_one
  | |- in_s64 _ => unfold in_s64; lia
  | |- in_u64 _ => unfold in_u64; lia
  | |- is_bytes _ => unfold is_bytes
  | |- (_ < _)%N => reflexivity
  | |- _ <= _ < _ => lia
  | |- (_ <= _)%Z => lia
  | |- (_ < _)%Z => lia
  | |- _ = _ => reflexivity
  | |- wf_mtype _ => exact I
  | |- wf_mtype (TBLK _) => cbn; lia
  | |- reg_type _ => unfold reg_type; tauto
  | |- (_ = _) -> _ => let H := fresh in intros H; try discriminate H
  | |- _ -> _ => intros
  end.

Ltac wf_cbn :=
  cbv beta iota delta [mod_name mod_items citem_ok citem_ok_simple cfunc_ok cmodule_ok f_name f_res f_args f_locals f_globals f_insns f_vararg
       map app cinsn_ok cop_ok' cop_ok cmem_ok cmem_ok' m_type m_disp m_base m_index m_scale m_alias m_nonalias ident_opt
       csigel_ok clocal_ok cglobal_ok cel_ok v_type v_name v_size fst snd tex_ctx tex_func tex_mem].

Lemma tex_chars_ok : cctx_ok parseF parseD parseLD fmtF fmtD fmtLD tex_ctx.
Proof.
  unfold cctx_ok, tex_ctx, tex_func, tex_mem. repeat (wf_cbn; wf_step).
Qed.

Ltac tk_cbn :=
  cbv beta iota delta [mod_name mod_items tmodule_ok titems_ok titem_ok tnorm_item func_ok sig_ok sig_els insn_ok tops_ok top_ok
       f_name f_res f_args f_locals f_globals f_insns f_vararg map app sigel_ok opt_reg_ok
       m_type m_disp m_base m_index m_scale m_alias m_nonalias v_type v_name v_size fst snd tex_ctx tex_func tex_mem
       text_stable item_text_stable insn_text_stable op_text_stable].

Ltac tk_step :=
  match goal with
  | |- _ /\ _ => split
  | |- Forall _ [] => constructor
  | |- Forall _ (_ :: _) => constructor
  | |- True => exact I
  | |- reg_type _ => unfold reg_type; tauto
  | |- wf_mtype _ => exact I
  | |- wf_mtype (TBLK _) => cbn; lia
  | |- (_ < _)%N => reflexivity
  | |- _ <= _ < _ => lia
  | |- (_ <= _)%Z => lia
  | |- (_ < _)%Z => lia
  | |- el_ok _ _ => unfold el_ok, in_s, in_u; cbn; lia
  | |- _ = _ => reflexivity
  | |- (_ = _) -> _ => let H := fresh in intros H; first [discriminate H | reflexivity | (cbn; lia)]
  | |- _ -> _ => intros
  end.

Lemma tex_tokens_ok : wf_text_tokens tex_ctx.
Proof.
  split.
  - unfold tex_ctx. repeat (tk_cbn; tk_step).
  - unfold canon_labels. vm_compute. reflexivity.
Qed.

Lemma tex_stable : text_stable tex_ctx.
Proof. unfold tex_ctx. repeat (tk_cbn; tk_step). Qed.

Example tex_wf : wf_text parseF parseD parseLD fmtF fmtD fmtLD tex_ctx.
Proof. split; [exact tex_chars_ok | split; [exact tex_tokens_ok | exact tex_stable]]. Qed.

(* the labels of the example are numbered 1, 2 in order of first occurrence; [tnorm] changes it *)
Example tex_tnorm_differs : map tnorm_module tex_ctx <> tex_ctx.
Proof. vm_compute. intros H. inversion H. Qed.

(* ---------------------------------------------------------------- labels numbered arbitrarily *)

(* two modules whose labels are not in first-occurrence order and overlap (7 and 3 in both): the way
   separately produced modules look after they were read into one context *)
Definition tex_func2 (nm : string) : func :=
  mkFunc (str nm) false [TI64] [] [(TI64, str "r")] []
    [ IInsn MOV [OReg (str "r"); OInt 0];
      IInsn BT [OLabel 7; OReg (str "r")];
      ILabel 3;
      IInsn JMP [OLabel 3];
      ILabel 7;
      IInsn RET [OReg (str "r")] ].

Definition tex_ctx2 : list module :=
  [ mkModule (str "ma") [ ItLref (Some (str "lq")) 3 (Some 7) 0; ItFunc (tex_func2 "fa") ];
    mkModule (str "mb") [ ItFunc (tex_func2 "fb"); ItLref None 7 None 8 ] ].

Definition tex_func2r (nm : string) (a b : Z) : func :=
  mkFunc (str nm) false [TI64] [] [(TI64, str "r")] []
    [ IInsn MOV [OReg (str "r"); OInt 0];
      IInsn BT [OLabel a; OReg (str "r")];
      ILabel b;
      IInsn JMP [OLabel b];
      ILabel a;
      IInsn RET [OReg (str "r")] ].

(* what the scanner makes of it: 3 -> 1, 7 -> 2 in the first module (the lref comes first), 7 -> 3, 3 -> 4 in the second *)
Definition tex_ctx2r : list module :=
  [ mkModule (str "ma") [ ItLref (Some (str "lq")) 1 (Some 2) 0; ItFunc (tex_func2r "fa" 2 1) ];
    mkModule (str "mb") [ ItFunc (tex_func2r "fb" 3 4); ItLref None 3 None 8 ] ].

Example tex2_relabel : relabel_ctx tex_ctx2 = Some tex_ctx2r /\ tex_ctx2r <> tex_ctx2 /\ relabel_ctx tex_ctx2r = Some tex_ctx2r.
Proof. split; [vm_compute; reflexivity|]. split; [intros H; inversion H | vm_compute; reflexivity]. Qed.

Ltac wf_cbn2 :=
  cbv beta iota delta [mod_name mod_items citem_ok citem_ok_simple cfunc_ok cmodule_ok f_name f_res f_args f_locals f_globals f_insns f_vararg
       map app cinsn_ok cop_ok' cop_ok cmem_ok cmem_ok' m_type m_disp m_base m_index m_scale m_alias m_nonalias ident_opt
       csigel_ok clocal_ok cglobal_ok cel_ok v_type v_name v_size fst snd tex_ctx2 tex_func2].

Lemma tex2_chars_ok : cctx_ok parseF parseD parseLD fmtF fmtD fmtLD tex_ctx2.
Proof. unfold cctx_ok, tex_ctx2, tex_func2. repeat (wf_cbn2; wf_step). Qed.

Ltac tk_cbn2 :=
  cbv beta iota delta [mod_name mod_items tmodule_ok titems_ok titem_ok tnorm_item func_ok sig_ok sig_els insn_ok tops_ok top_ok
       f_name f_res f_args f_locals f_globals f_insns f_vararg map app sigel_ok opt_reg_ok
       m_type m_disp m_base m_index m_scale m_alias m_nonalias v_type v_name v_size fst snd tex_ctx2 tex_func2].

Lemma tex2_tokens_ok : Forall tmodule_ok tex_ctx2.
Proof. unfold tex_ctx2. repeat (tk_cbn2; tk_step). Qed.

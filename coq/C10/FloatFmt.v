(* Exact model of libc's correctly rounded printf ("%.<prec>e") and strtof/strtod/strtold on the
   three MIR floating point immediates (binary32, binary64, x87 extended), in integer
   arithmetic.  Definitions only.  These are the *oracles* the text I/O model is instantiated with
   when it is run against the implementation; the theorems of C10 take the two directions as
   Section variables with the round-trip law as a hypothesis (see TextScanProofs.v). *)
From Coq Require Import List ZArith NArith Bool String.
From MirV Require Import C11.Ast C10.TextOut.
Import ListNotations.
Local Open Scope Z_scope.
Local Notation length := List.length.

(* format descriptor: mantissa bits p (with the leading bit), minimal exponent of the unit in the
   last place (value = m * 2^e, e >= emin), biased exponent field width *)
Record ffmt : Set := mkFfmt { ff_p : Z; ff_emin : Z; ff_ebits : Z; ff_explicit : bool }.
Definition fmt32 := mkFfmt 24 (-149) 8 false.
Definition fmt64 := mkFfmt 53 (-1074) 11 false.
Definition fmt80 := mkFfmt 64 (-16445) 15 true.     (* explicit integer bit *)

Inductive fval : Set :=
| FZero (neg : bool) | FInf (neg : bool) | FNan (neg : bool)
| FFin (neg : bool) (m e : Z).        (* m > 0, value = m * 2^e *)

Definition frac_bits (f : ffmt) : Z := if ff_explicit f then ff_p f else ff_p f - 1.

Definition decode (f : ffmt) (bits : Z) : fval :=
  let fb := frac_bits f in
  let frac := bits mod 2 ^ fb in
  let ex := (bits / 2 ^ fb) mod 2 ^ ff_ebits f in
  let neg := negb ((bits / 2 ^ (fb + ff_ebits f)) mod 2 =? 0) in
  if ex =? 2 ^ ff_ebits f - 1 then
    (if (if ff_explicit f then frac mod 2 ^ (fb - 1) else frac) =? 0 then FInf neg else FNan neg)
  else
    let m := if ff_explicit f then frac else (if ex =? 0 then frac else frac + 2 ^ fb) in
    let e := (if ex =? 0 then 1 else ex) - 1 + ff_emin f in
    if m =? 0 then FZero neg else FFin neg m e.

(* ------------------------------------------------------------------ printf "%.<prec>e" *)

Definition round_div (n d : Z) : Z :=           (* nearest, ties to even; d > 0 *)
  let q := n / d in
  let r := n mod d in
  if 2 * r <? d then q else if d <? 2 * r then q + 1 else if Z.even q then q else q + 1.

(* n/d >= 10^k ?  (k may be negative) *)
Definition ge_pow10 (n d k : Z) : bool :=
  if 0 <=? k then d * 10 ^ k <=? n else d <=? n * 10 ^ (- k).

Fixpoint adjust_up (fuel : nat) (n d k : Z) : Z :=
  match fuel with O => k | S f => if ge_pow10 n d (k + 1) then adjust_up f n d (k + 1) else k end.
Fixpoint adjust_down (fuel : nat) (n d k : Z) : Z :=
  match fuel with O => k | S f => if ge_pow10 n d k then k else adjust_down f n d (k - 1) end.

(* floor (log10 (n/d)), n, d > 0 *)
Definition log10_floor (n d : Z) : Z :=
  let est := ((Z.log2 n - Z.log2 d) * 30103) / 100000 in
  adjust_up 8 n d (adjust_down 8 n d est).

Fixpoint pad0 (k : nat) (ds : bytes) : bytes :=
  match k with O => ds | S j => 48%N :: pad0 j ds end.

Definition fmt_exp (k : Z) : bytes :=
  [101%N; (if k <? 0 then 45%N else 43%N)] ++ pad0 (2 - length (p_nat (Z.abs k))) (p_nat (Z.abs k)).

Definition fmt_e_fin (prec : Z) (m e : Z) : bytes :=
  let n := if 0 <=? e then m * 2 ^ e else m in
  let d := if 0 <=? e then 1 else 2 ^ (- e) in
  let k := log10_floor n d in
  let s := prec - k in
  let q := if 0 <=? s then round_div (n * 10 ^ s) d else round_div n (d * 10 ^ (- s)) in
  let '(q, k) := if 10 ^ (prec + 1) <=? q then (q / 10, k + 1) else (q, k) in
  let ds := p_nat q in
  match ds with
  | [] => []
  | d0 :: rest => d0 :: 46%N :: rest ++ fmt_exp k
  end.

Definition zeros (n : nat) : bytes := repeat 48%N n.

Definition fmt_e (prec : Z) (v : fval) : bytes :=
  let sign (neg : bool) := if neg then [45%N] else [] in
  match v with
  | FZero neg => sign neg ++ [48; 46]%N ++ zeros (Z.to_nat prec) ++ str "e+00"
  | FInf neg => sign neg ++ str "inf"
  | FNan neg => sign neg ++ str "nan"
  | FFin neg m e => sign neg ++ fmt_e_fin prec m e
  end.

(* MIR_output_op / _MIR_output_data_item_els *)
Definition fmtF (bits : Z) : bytes := fmt_e 24 (decode fmt32 bits) ++ str "f".
Definition fmtD (bits : Z) : bytes := fmt_e 53 (decode fmt64 bits).
Definition fmtLD (bits : Z) : bytes := fmt_e 64 (decode fmt80 bits) ++ str "L".

(* ------------------------------------------------------------------ strtof / strtod / strtold
   on the lexemes scan_number passes (sign, digits, optional fraction, optional exponent) *)

Definition is_digit (c : N) : bool := (N.leb 48 c && N.leb c 57)%bool.

Fixpoint take_digits (cs : bytes) (acc : Z) (cnt : Z) : Z * Z * bytes :=
  match cs with
  | c :: r => if is_digit c then take_digits r (acc * 10 + (Z.of_N c - 48)) (cnt + 1) else (acc, cnt, cs)
  | [] => (acc, cnt, [])
  end.

(* decimal lexeme -> (negative, digits as integer D, exponent E) with value D * 10^E *)
Definition parse_dec (cs : bytes) : bool * Z * Z :=
  let '(neg, cs) := match cs with
                    | 45%N :: r => (true, r)
                    | 43%N :: r => (false, r)
                    | _ => (false, cs)
                    end in
  let '(ip, _, cs) := take_digits cs 0 0 in
  let '(D, fcnt, cs) := match cs with
                        | 46%N :: r => take_digits r ip 0
                        | _ => (ip, 0, cs)
                        end in
  let ex := match cs with
            | c :: r =>
                if (N.eqb c 101 || N.eqb c 69)%bool then
                  match r with
                  | 45%N :: r' => let '(x, _, _) := take_digits r' 0 0 in - x
                  | 43%N :: r' => let '(x, _, _) := take_digits r' 0 0 in x
                  | _ => let '(x, _, _) := take_digits r 0 0 in x
                  end
                else 0
            | [] => 0
            end in
  (neg, D, ex - fcnt).

(* round n/d (> 0) to the format: result (m, e) with m < 2^p, e >= emin, or overflow *)
Definition round_to (f : ffmt) (n d : Z) : option (Z * Z) :=
  let p := ff_p f in
  (* exponent e with 2^(p-1) <= n/d/2^e < 2^p, clamped below by emin *)
  let e0 := Z.log2 n - Z.log2 d - p in
  let scaled (e : Z) := if 0 <=? e then round_div n (d * 2 ^ e) else round_div (n * 2 ^ (- e)) d in
  let fits (e : Z) := scaled e <? 2 ^ p in
  (* e0 or e0+1 or e0+2 is the right one; take the smallest that fits, then clamp *)
  let e1 := if fits e0 then e0 else if fits (e0 + 1) then e0 + 1 else e0 + 2 in
  let e2 := Z.max e1 (ff_emin f) in
  let m := scaled e2 in
  let '(m, e2) := if 2 ^ p <=? m then (m / 2, e2 + 1) else (m, e2) in
  if ff_emin f + 2 ^ ff_ebits f - 3 <? e2 then None else Some (m, e2).

Definition encode (f : ffmt) (neg : bool) (v : option (Z * Z)) : Z :=
  let fb := frac_bits f in
  let sgn := if neg then 2 ^ (fb + ff_ebits f) else 0 in
  match v with
  | None => sgn + (2 ^ ff_ebits f - 1) * 2 ^ fb + (if ff_explicit f then 2 ^ (fb - 1) else 0)   (* inf *)
  | Some (m, e) =>
      if m =? 0 then sgn
      else if m <? 2 ^ (ff_p f - 1) then sgn + m                                   (* subnormal, e = emin *)
      else sgn + (e - ff_emin f + 1) * 2 ^ fb + (if ff_explicit f then m else m - 2 ^ (ff_p f - 1))
  end.

Definition parse_float (f : ffmt) (cs : bytes) : Z :=
  let '(neg, D, E) := parse_dec cs in
  if D =? 0 then encode f neg (Some (0, 0))
  else if 0 <=? E then encode f neg (round_to f (D * 10 ^ E) 1)
  else encode f neg (round_to f D (10 ^ (- E))).

Definition parseF : bytes -> Z := parse_float fmt32.
Definition parseD : bytes -> Z := parse_float fmt64.
Definition parseLD : bytes -> Z := parse_float fmt80.

(* The renaming of labels MIR_scan_string performs is idempotent: the renamed context is numbered in
   first-occurrence order, so a second scan renames nothing ([canon_labels] of the result), provided the
   context's label counter stays below 2^63 (label numbers must print as L<n> with n an int64). *)
From Coq Require Import List ZArith NArith Bool String Lia.
From MirV Require Import Base.W64 Mir.Opcode C11.Tables C11.Ast C11.BinIO C11.BinIOProofs C11.BinGrammarProofs
  C10.TextOut C10.TextScan C10.TextProofs C10.TextTokens C10.ParseProofs C10.PrintNormProofs C10.LexAllProofs
  C10.TextFixpoint C10.TextWfDec.
Import ListNotations.
Local Open Scope Z_scope.
Local Notation length := List.length.

(* s: the state of the run on the original context, t: of the run on the renamed one *)
Record rel (s t : lstate) : Prop := mkRel {
  r_next : l_next t = l_next s;
  r_seen : l_seen t = map (fun e => (snd e, snd e)) (l_seen s);
  r_defd : forall o k, In (o, k) (l_seen s) -> zmem k (l_defd t) = zmem o (l_defd s);
  r_dle : forall k, In k (l_defd t) -> k <= l_next t }.

Record inv (s : lstate) : Prop := mkInv {
  i_rng : forall o k, In (o, k) (l_seen s) -> 0 < k <= l_next s;
  i_nd1 : NoDup (map fst (l_seen s));
  i_nd2 : NoDup (map snd (l_seen s));
  i_sub : forall o, In o (l_defd s) -> In o (map fst (l_seen s));
  i_pos : 0 <= l_next s }.

Lemma lfind_in l k seen : lfind l seen = Some k -> In (l, k) seen.
Proof.
  induction seen as [|[x kx] seen IH]; [discriminate|]. cbn [lfind].
  destruct (Z.eqb_spec x l) as [->|Hne]; [intros H; inversion H; now left | intros H; right; now apply IH].
Qed.

Lemma lfind_diag k seen : In k (map snd seen) -> lfind k (map (fun e : Z * Z => (snd e, snd e)) seen) = Some k.
Proof.
  induction seen as [|[x kx] seen IH]; [intros []|]. cbn [map snd lfind].
  destruct (Z.eqb_spec kx k) as [->|Hne]; [reflexivity|]. intros [E|Hin]; [contradiction | now apply IH].
Qed.

Lemma lfind_diag_none k seen : ~ In k (map snd seen) -> lfind k (map (fun e : Z * Z => (snd e, snd e)) seen) = None.
Proof.
  induction seen as [|[x kx] seen IH]; [reflexivity|]. cbn [map snd lfind]. intros H.
  destruct (Z.eqb_spec kx k) as [->|Hne]; [exfalso; apply H; now left | apply IH; intros Hin; apply H; now right].
Qed.

Lemma in_snd {A B} (a : A) (b : B) l : In (a, b) l -> In b (map snd l).
Proof. intros H. apply in_map_iff. exists (a, b). split; [reflexivity | assumption]. Qed.
Lemma in_fst {A B} (a : A) (b : B) l : In (a, b) l -> In a (map fst l).
Proof. intros H. apply in_map_iff. exists (a, b). split; [reflexivity | assumption]. Qed.

Lemma nodup_fst_inj (l : list (Z * Z)) a b1 b2 : NoDup (map fst l) -> In (a, b1) l -> In (a, b2) l -> b1 = b2.
Proof.
  induction l as [|[x y] l IH]; [intros _ []|]. cbn [map fst]. intros Hnd H1 H2. inversion Hnd as [|? ? Hnin Hnd']; subst.
  destruct H1 as [E1|H1], H2 as [E2|H2].
  - congruence.
  - inversion E1; subst. exfalso. apply Hnin. now apply (in_fst a b2).
  - inversion E2; subst. exfalso. apply Hnin. now apply (in_fst a b1).
  - now apply IH.
Qed.

Lemma nodup_snd_inj (l : list (Z * Z)) a1 a2 b : NoDup (map snd l) -> In (a1, b) l -> In (a2, b) l -> a1 = a2.
Proof.
  induction l as [|[x y] l IH]; [intros _ []|]. cbn [map snd]. intros Hnd H1 H2. inversion Hnd as [|? ? Hnin Hnd']; subst.
  destruct H1 as [E1|H1], H2 as [E2|H2].
  - congruence.
  - inversion E1; subst. exfalso. apply Hnin. now apply (in_snd a2 b).
  - inversion E2; subst. exfalso. apply Hnin. now apply (in_snd a1 b).
  - now apply IH.
Qed.

Lemma s64_b_small k : 0 <= k < 2 ^ 63 -> s64_b k = true.
Proof. intros H. unfold s64_b. apply andb_true_iff. split; [apply Z.leb_le | apply Z.ltb_lt]; lia. Qed.

(* what one occurrence of a label does to the two runs; [d] tells whether it is a definition *)
Lemma occ_step (d : bool) s t o k s' :
  rel s t -> inv s ->
  (if d then l_def s o else l_ref s o) = Some (k, s') -> l_next s' < 2 ^ 63 ->
  exists t', (if d then l_def t k else l_ref t k) = Some (k, t') /\ rel s' t' /\ inv s' /\ l_next s <= l_next s'.
Proof.
  intros [R1 R2 R3 R4] [I1 I2 I3 I4 I5] H Hb.
  assert (Hcore : s64_b o = true /\ (d = true -> zmem o (l_defd s) = false)
                  /\ s' = (let '(k0, seen', next') := seen_after (l_seen s) (l_next s) o in
                           mkL seen' (if d then o :: l_defd s else l_defd s) next')
                  /\ k = fst (fst (seen_after (l_seen s) (l_next s) o))).
  { destruct d; [unfold l_def in H | unfold l_ref in H]; destruct (s64_b o); cbn [negb orb] in H; try discriminate.
    - destruct (zmem o (l_defd s)) eqn:E; [discriminate|].
      destruct (seen_after (l_seen s) (l_next s) o) as [[k0 seen'] next'] eqn:Ea. inversion H; subst. repeat split; reflexivity.
    - destruct (seen_after (l_seen s) (l_next s) o) as [[k0 seen'] next'] eqn:Ea. inversion H; subst.
      repeat split; try reflexivity. discriminate. }
  destruct Hcore as (_ & Hnd & Es' & Ek). clear H.
  unfold seen_after in *. destruct (lfind o (l_seen s)) as [k0|] eqn:Ef; cbn [fst snd] in *; subst k.
  - (* known label *)
    pose proof (lfind_in o k0 _ Ef) as Hin. pose proof (I1 o k0 Hin) as Hk.
    assert (Es : l_next s' = l_next s /\ l_seen s' = l_seen s) by (subst s'; split; reflexivity).
    destruct Es as [En Ese]. rewrite En in Hb.
    assert (Ht : lfind k0 (l_seen t) = Some k0) by (rewrite R2; apply lfind_diag; now apply (in_snd o)).
    exists (mkL (l_seen t) (if d then k0 :: l_defd t else l_defd t) (l_next t)).
    split; [|split; [|split; [|lia]]].
    + destruct d; [unfold l_def | unfold l_ref]; rewrite s64_b_small by lia; cbn [negb orb]; unfold seen_after; rewrite Ht.
      * rewrite (R3 o k0 Hin), (Hnd eq_refl). reflexivity.
      * destruct t; reflexivity.
    + subst s'. constructor; cbn [l_next l_seen l_defd]; try assumption.
      * intros o2 k2 H2. destruct d; [|now apply R3].
        unfold zmem in *. cbn [existsb]. rewrite (R3 o2 k2 H2). f_equal.
        destruct (Z.eqb_spec k2 k0) as [->|Hne], (Z.eqb_spec o2 o) as [->|Hne2]; try reflexivity; exfalso.
        -- apply Hne2. now apply (nodup_snd_inj (l_seen s) o2 o k0).
        -- apply Hne. now apply (nodup_fst_inj (l_seen s) o k2 k0).
      * intros k2 H2. destruct d; [|now apply R4]. destruct H2 as [<-|H2]; [lia | now apply R4].
    + subst s'. constructor; cbn [l_next l_seen l_defd]; try assumption.
      intros o2 H2. destruct d; [|now apply I4]. destruct H2 as [<-|H2]; [now apply (in_fst o k0) | now apply I4].
  - (* new label *)
    pose proof (lfind_none_notin o _ Ef) as Hnin.
    assert (Es : l_next s' = l_next s + 1 /\ l_seen s' = (o, l_next s + 1) :: l_seen s) by (subst s'; split; reflexivity).
    destruct Es as [En Ese]. rewrite En in Hb.
    assert (Hknew : ~ In (l_next s + 1) (map snd (l_seen s))).
    { intros Hin. apply in_map_iff in Hin. destruct Hin as [[o2 k2] [E Hin]]. cbn in E. subst k2. pose proof (I1 o2 _ Hin). lia. }
    assert (Ht : lfind (l_next s + 1) (l_seen t) = None) by (rewrite R2; now apply lfind_diag_none).
    exists (mkL ((l_next s + 1, l_next s + 1) :: l_seen t) (if d then (l_next s + 1) :: l_defd t else l_defd t) (l_next s + 1)).
    assert (Hkd : zmem (l_next s + 1) (l_defd t) = false).
    { destruct (zmem (l_next s + 1) (l_defd t)) eqn:E; [|reflexivity]. apply zmem_In in E. apply R4 in E. lia. }
    assert (Hod : zmem o (l_defd s) = false).
    { destruct (zmem o (l_defd s)) eqn:E; [|reflexivity]. apply zmem_In in E. apply I4 in E. contradiction. }
    split; [|split; [|split; [|lia]]].
    + destruct d; [unfold l_def | unfold l_ref]; rewrite s64_b_small by lia; cbn [negb orb]; unfold seen_after; rewrite Ht, R1;
        [rewrite Hkd|]; reflexivity.
    + subst s'. constructor; cbn [l_next l_seen l_defd map fst snd]; try reflexivity.
      * now rewrite R2.
      * intros o2 k2 [E|H2].
        -- inversion E; subst o2 k2. destruct d; [now rewrite !zmem_cons_same | now rewrite Hkd, Hod].
        -- pose proof (I1 o2 k2 H2) as Hk2. assert (Hne1 : k2 <> l_next s + 1) by lia.
           assert (Hne2 : o2 <> o) by (intros ->; apply Hnin; now apply (in_fst o k2)).
           destruct d; [rewrite (zmem_cons_other k2 _ _ Hne1), (zmem_cons_other o2 _ _ Hne2)|]; now apply R3.
      * intros k2 H2. destruct d; [destruct H2 as [<-|H2]; [lia|]|]; apply R4 in H2; lia.
    + subst s'. constructor; cbn [l_next l_seen l_defd map fst snd].
      * intros o2 k2 [E|H2]; [inversion E; lia | pose proof (I1 o2 k2 H2); lia].
      * constructor; assumption.
      * constructor; assumption.
      * intros o2 H2. destruct d; [destruct H2 as [<-|H2]; [now left | right; now apply I4] | right; now apply I4].
      * lia.
Qed.

Lemma l_ref_idem s t o k s' : rel s t -> inv s -> l_ref s o = Some (k, s') -> l_next s' < 2 ^ 63 ->
  exists t', l_ref t k = Some (k, t') /\ rel s' t' /\ inv s' /\ l_next s <= l_next s'.
Proof. exact (occ_step false s t o k s'). Qed.
Lemma l_def_idem s t o k s' : rel s t -> inv s -> l_def s o = Some (k, s') -> l_next s' < 2 ^ 63 ->
  exists t', l_def t k = Some (k, t') /\ rel s' t' /\ inv s' /\ l_next s <= l_next s'.
Proof. exact (occ_step true s t o k s'). Qed.

(* ---------------------------------------------------------------- the counter only grows *)

Lemma seen_after_mono seen next l : next <= snd (seen_after seen next l).
Proof. unfold seen_after. destruct (lfind l seen); cbn; lia. Qed.

Lemma l_ref_mono s l k s' : l_ref s l = Some (k, s') -> l_next s <= l_next s'.
Proof.
  unfold l_ref. destruct (negb (s64_b l)); [discriminate|]. pose proof (seen_after_mono (l_seen s) (l_next s) l).
  destruct (seen_after (l_seen s) (l_next s) l) as [[k0 se] ne]. intros H'. inversion H'; subst. exact H.
Qed.
Lemma l_def_mono s l k s' : l_def s l = Some (k, s') -> l_next s <= l_next s'.
Proof.
  unfold l_def. destruct (negb (s64_b l) || zmem l (l_defd s))%bool; [discriminate|]. pose proof (seen_after_mono (l_seen s) (l_next s) l).
  destruct (seen_after (l_seen s) (l_next s) l) as [[k0 se] ne]. intros H'. inversion H'; subst. exact H.
Qed.
Lemma l_op_mono s o o' s' : l_op s o = Some (o', s') -> l_next s <= l_next s'.
Proof.
  destruct o; cbn [l_op]; intros H; try (inversion H; subst; lia).
  destruct (l_ref s l) as [[k s1]|] eqn:E; [|discriminate]. inversion H; subst. eapply l_ref_mono; eassumption.
Qed.
Lemma l_ops_mono ops : forall s ops' s', l_ops s ops = Some (ops', s') -> l_next s <= l_next s'.
Proof.
  induction ops as [|o ops IH]; intros s ops' s' H; cbn [l_ops] in H; [inversion H; subst; lia|].
  destruct (l_op s o) as [[o1 s1]|] eqn:E; [|discriminate]. destruct (l_ops s1 ops) as [[r1 s2]|] eqn:E2; [|discriminate].
  inversion H; subst. pose proof (l_op_mono _ _ _ _ E). pose proof (IH _ _ _ E2). lia.
Qed.
Lemma l_insns_mono insns : forall s insns' s', l_insns s insns = Some (insns', s') -> l_next s <= l_next s'.
Proof.
  induction insns as [|i insns IH]; intros s insns' s' H; cbn [l_insns] in H; [inversion H; subst; lia|]. destruct i as [l|c ops].
  - destruct (l_def s l) as [[k s1]|] eqn:E; [|discriminate]. destruct (l_insns s1 insns) as [[r1 s2]|] eqn:E2; [|discriminate].
    inversion H; subst. pose proof (l_def_mono _ _ _ _ E). pose proof (IH _ _ _ E2). lia.
  - destruct (l_ops s ops) as [[o1 s1]|] eqn:E; [|discriminate]. destruct (l_insns s1 insns) as [[r1 s2]|] eqn:E2; [|discriminate].
    inversion H; subst. pose proof (l_ops_mono _ _ _ _ E). pose proof (IH _ _ _ E2). lia.
Qed.
Lemma l_item_mono s it it' s' : l_item s it = Some (it', s') -> l_next s <= l_next s'.
Proof.
  destruct it as [x|x|x|x len|x t els|x r d|x l l2 d|x f|x va res args|f]; cbn [l_item]; intros H; try (inversion H; subst; lia).
  - unfold l_item_lref in H. destruct (l_ref s l) as [[k s1]|] eqn:E; [|discriminate]. pose proof (l_ref_mono _ _ _ _ E).
    destruct l2 as [y|].
    + destruct (l_ref s1 y) as [[k2 s2]|] eqn:E2; [|discriminate]. pose proof (l_ref_mono _ _ _ _ E2). inversion H; subst. lia.
    + inversion H; subst. lia.
  - destruct (l_insns s (f_insns f)) as [[i1 s1]|] eqn:E; [|discriminate]. inversion H; subst. eapply l_insns_mono; eassumption.
Qed.
Lemma l_items_mono its : forall s its' s', l_items s its = Some (its', s') -> l_next s <= l_next s'.
Proof.
  induction its as [|it its IH]; intros s its' s' H; cbn [l_items] in H; [inversion H; subst; lia|].
  destruct (l_item s it) as [[i1 s1]|] eqn:E; [|discriminate]. destruct (l_items s1 its) as [[r1 s2]|] eqn:E2; [|discriminate].
  inversion H; subst. pose proof (l_item_mono _ _ _ _ E). pose proof (IH _ _ _ E2). lia.
Qed.
Lemma l_module_mono s m m' s' : l_module s m = Some (m', s') -> l_next s <= l_next s'.
Proof.
  unfold l_module. destruct (l_items (mkL [] [] (l_next s)) (mod_items m)) as [[i1 s1]|] eqn:E; [|discriminate].
  intros H. inversion H; subst. exact (l_items_mono _ _ _ _ E).
Qed.
Lemma l_ctx_mono ms : forall s ms' s', l_ctx s ms = Some (ms', s') -> l_next s <= l_next s'.
Proof.
  induction ms as [|m ms IH]; intros s ms' s' H; cbn [l_ctx] in H; [inversion H; subst; lia|].
  destruct (l_module s m) as [[m1 s1]|] eqn:E; [|discriminate]. destruct (l_ctx s1 ms) as [[r1 s2]|] eqn:E2; [|discriminate].
  inversion H; subst. pose proof (l_module_mono _ _ _ _ E). pose proof (IH _ _ _ E2). lia.
Qed.

(* ---------------------------------------------------------------- lifting through the traversal *)

Lemma l_op_idem s t o o' s' : rel s t -> inv s -> l_op s o = Some (o', s') -> l_next s' < 2 ^ 63 ->
  exists t', l_op t o' = Some (o', t') /\ rel s' t' /\ inv s'.
Proof.
  intros HR HI H Hb. destruct o; cbn [l_op] in H; try (inversion H; subst; exists t; cbn [l_op]; split; [reflexivity | split; assumption]).
  destruct (l_ref s l) as [[k s1]|] eqn:E; [|discriminate]. inversion H; subst.
  destruct (l_ref_idem s t l k s' HR HI E Hb) as (t' & E' & HR' & HI' & _).
  exists t'. cbn [l_op]. rewrite E'. auto.
Qed.

Lemma l_ops_idem ops : forall s t ops' s', rel s t -> inv s -> l_ops s ops = Some (ops', s') -> l_next s' < 2 ^ 63 ->
  exists t', l_ops t ops' = Some (ops', t') /\ rel s' t' /\ inv s'.
Proof.
  induction ops as [|o ops IH]; intros s t ops' s' HR HI H Hb; cbn [l_ops] in H.
  - inversion H; subst. exists t. auto.
  - destruct (l_op s o) as [[o1 s1]|] eqn:E; [|discriminate]. destruct (l_ops s1 ops) as [[r1 s2]|] eqn:E2; [|discriminate].
    inversion H; subst. pose proof (l_ops_mono _ _ _ _ E2) as Hm.
    destruct (l_op_idem s t o o1 s1 HR HI E ltac:(lia)) as (t1 & A1 & HR1 & HI1).
    destruct (IH s1 t1 r1 s' HR1 HI1 E2 Hb) as (t2 & A2 & HR2 & HI2).
    exists t2. cbn [l_ops]. rewrite A1, A2. auto.
Qed.

Lemma l_insns_idem insns : forall s t insns' s', rel s t -> inv s -> l_insns s insns = Some (insns', s') -> l_next s' < 2 ^ 63 ->
  exists t', l_insns t insns' = Some (insns', t') /\ rel s' t' /\ inv s'.
Proof.
  induction insns as [|i insns IH]; intros s t insns' s' HR HI H Hb; cbn [l_insns] in H.
  - inversion H; subst. exists t. auto.
  - destruct i as [l|c ops].
    + destruct (l_def s l) as [[k s1]|] eqn:E; [|discriminate]. destruct (l_insns s1 insns) as [[r1 s2]|] eqn:E2; [|discriminate].
      inversion H; subst. pose proof (l_insns_mono _ _ _ _ E2) as Hm.
      destruct (l_def_idem s t l k s1 HR HI E ltac:(lia)) as (t1 & A1 & HR1 & HI1 & _).
      destruct (IH s1 t1 r1 s' HR1 HI1 E2 Hb) as (t2 & A2 & HR2 & HI2).
      exists t2. cbn [l_insns]. rewrite A1, A2. auto.
    + destruct (l_ops s ops) as [[o1 s1]|] eqn:E; [|discriminate]. destruct (l_insns s1 insns) as [[r1 s2]|] eqn:E2; [|discriminate].
      inversion H; subst. pose proof (l_insns_mono _ _ _ _ E2) as Hm.
      destruct (l_ops_idem ops s t o1 s1 HR HI E ltac:(lia)) as (t1 & A1 & HR1 & HI1).
      destruct (IH s1 t1 r1 s' HR1 HI1 E2 Hb) as (t2 & A2 & HR2 & HI2).
      exists t2. cbn [l_insns]. rewrite A1, A2. auto.
Qed.

Lemma l_item_idem s t it it' s' : rel s t -> inv s -> l_item s it = Some (it', s') -> l_next s' < 2 ^ 63 ->
  exists t', l_item t it' = Some (it', t') /\ rel s' t' /\ inv s'.
Proof.
  intros HR HI H Hb.
  destruct it as [x|x|x|x len|x ty els|x r d|x l l2 d|x f|x va res args|f]; cbn [l_item] in H;
    try (inversion H; subst; exists t; cbn [l_item]; split; [reflexivity | split; assumption]).
  - destruct (l_item_lref s l l2) as [[[k k2] s1]|] eqn:E; [|discriminate]. inversion H; subst. clear H.
    unfold l_item_lref in E. destruct (l_ref s l) as [[k0 s0]|] eqn:E1; [|discriminate].
    destruct l2 as [y|].
    + destruct (l_ref s0 y) as [[k3 s3]|] eqn:E2; [|discriminate]. inversion E; subst. pose proof (l_ref_mono _ _ _ _ E2).
      destruct (l_ref_idem s t l k s0 HR HI E1 ltac:(lia)) as (t1 & A1 & HR1 & HI1 & _).
      destruct (l_ref_idem s0 t1 y k3 s' HR1 HI1 E2 Hb) as (t2 & A2 & HR2 & HI2 & _).
      exists t2. cbn [l_item]. unfold l_item_lref. rewrite A1, A2. auto.
    + inversion E; subst.
      destruct (l_ref_idem s t l k s' HR HI E1 Hb) as (t1 & A1 & HR1 & HI1 & _).
      exists t1. cbn [l_item]. unfold l_item_lref. rewrite A1. auto.
  - destruct (l_insns s (f_insns f)) as [[i1 s1]|] eqn:E; [|discriminate]. inversion H; subst.
    destruct (l_insns_idem (f_insns f) s t i1 s' HR HI E Hb) as (t1 & A1 & HR1 & HI1).
    exists t1. cbn [l_item func_with_insns f_insns]. rewrite A1. unfold func_with_insns. cbn. auto.
Qed.

Lemma l_items_idem its : forall s t its' s', rel s t -> inv s -> l_items s its = Some (its', s') -> l_next s' < 2 ^ 63 ->
  exists t', l_items t its' = Some (its', t') /\ rel s' t' /\ inv s'.
Proof.
  induction its as [|it its IH]; intros s t its' s' HR HI H Hb; cbn [l_items] in H.
  - inversion H; subst. exists t. auto.
  - destruct (l_item s it) as [[i1 s1]|] eqn:E; [|discriminate]. destruct (l_items s1 its) as [[r1 s2]|] eqn:E2; [|discriminate].
    inversion H; subst. pose proof (l_items_mono _ _ _ _ E2) as Hm.
    destruct (l_item_idem s t it i1 s1 HR HI E ltac:(lia)) as (t1 & A1 & HR1 & HI1).
    destruct (IH s1 t1 r1 s' HR1 HI1 E2 Hb) as (t2 & A2 & HR2 & HI2).
    exists t2. cbn [l_items]. rewrite A1, A2. auto.
Qed.

Lemma fresh_rel n : 0 <= n -> rel (mkL [] [] n) (mkL [] [] n) /\ inv (mkL [] [] n).
Proof.
  intros Hn. split; constructor; cbn; try reflexivity; try (intros; contradiction); try constructor; try assumption.
Qed.

Lemma l_module_idem s t m m' s' : l_next t = l_next s -> 0 <= l_next s -> l_module s m = Some (m', s') -> l_next s' < 2 ^ 63 ->
  exists t', l_module t m' = Some (m', t') /\ l_next t' = l_next s' /\ 0 <= l_next s'.
Proof.
  intros En Hp H Hb. unfold l_module in *.
  destruct (l_items (mkL [] [] (l_next s)) (mod_items m)) as [[i1 s1]|] eqn:E; [|discriminate]. inversion H; subst.
  destruct (fresh_rel (l_next s) Hp) as [HR HI].
  destruct (l_items_idem (mod_items m) _ _ i1 s' HR HI E Hb) as (t1 & A1 & HR1 & HI1).
  exists t1. cbn [mod_items mod_name]. rewrite En, A1. split; [reflexivity|]. split; [apply HR1 | apply HI1].
Qed.

Lemma l_ctx_idem ms : forall s t ms' s', l_next t = l_next s -> 0 <= l_next s -> l_ctx s ms = Some (ms', s') -> l_next s' < 2 ^ 63 ->
  exists t', l_ctx t ms' = Some (ms', t').
Proof.
  induction ms as [|m ms IH]; intros s t ms' s' En Hp H Hb; cbn [l_ctx] in H.
  - inversion H; subst. exists t. reflexivity.
  - destruct (l_module s m) as [[m1 s1]|] eqn:E; [|discriminate]. destruct (l_ctx s1 ms) as [[r1 s2]|] eqn:E2; [|discriminate].
    inversion H; subst. pose proof (l_ctx_mono _ _ _ _ E2) as Hm.
    destruct (l_module_idem s t m m1 s1 En Hp E ltac:(lia)) as (t1 & A1 & En1 & Hp1).
    destruct (IH s1 t1 r1 s' En1 Hp1 E2 Hb) as (t2 & A2).
    exists t2. cbn [l_ctx]. rewrite A1, A2. reflexivity.
Qed.

(* the context's label counter after the scan *)
Definition label_count (ms : list module) : Z :=
  match l_ctx (mkL [] [] 0) ms with Some (_, s) => l_next s | None => 0 end.

(* the renamed context is numbered the scanner's way: renaming it again changes nothing *)
Lemma relabel_ctx_idem ms ms' : relabel_ctx ms = Some ms' -> label_count ms < 2 ^ 63 -> canon_labels ms'.
Proof.
  unfold relabel_ctx, label_count, canon_labels. destruct (l_ctx (mkL [] [] 0) ms) as [[ms1 s']|] eqn:E; [|discriminate].
  intros H Hb. inversion H; subst ms1.
  destruct (l_ctx_idem ms (mkL [] [] 0) (mkL [] [] 0) ms' s' eq_refl ltac:(cbn; lia) E Hb) as (t' & A).
  unfold relabel_ctx. now rewrite A.
Qed.

(* The second round: the context a scan produces (renamed labels) is a strict fixpoint of print + scan
   whenever it passes the checker - its labels need no assumption any more. *)
Section Second.
  Variables pF pD pLD : bytes -> Z.
  Variables fF fD fLD : Z -> bytes.

  Lemma text_second_round_lemma ms ms' :
    relabel_ctx ms = Some ms' -> label_count ms < 2 ^ 63 -> wf_text_b pF pD pLD fF fD fLD ms' = true ->
    scan_ctx pF pD pLD (p_ctx fF fD fLD ms') = Ok (map tnorm_module ms')
    /\ p_ctx fF fD fLD (map tnorm_module ms') = p_ctx fF fD fLD ms'.
  Proof.
    intros Hr Hb Hw. apply text_module_fixpoint_lemma. apply wf_text_b_spec; [exact Hw|].
    exact (relabel_ctx_idem ms ms' Hr Hb).
  Qed.
End Second.

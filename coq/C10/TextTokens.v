(* The token sequence MIR_output's text lexes to (specification level): one function per printer
   function of TextOut.v.  Used to split the text round trip into lexing and parsing. *)
From Coq Require Import List ZArith NArith Bool String.
From MirV Require Import Base.W64 Mir.Opcode C11.Tables C11.Ast C11.BinIO C10.TextOut C10.TextScan.
Import ListNotations.
Local Open Scope Z_scope.
Local Notation length := List.length.

Definition lname (l : Z) : name := str "L" ++ p_int l.

Fixpoint sep_toks {A} (f : A -> list ttok) (l : list A) : list ttok :=
  match l with
  | [] => []
  | [x] => f x
  | x :: r => f x ++ TComma :: sep_toks f r
  end.

Definition tk_mem (m : mem) : list ttok :=
  [TName (type_str (m_type m)); TCol]
  ++ (if negb (m_disp m =? 0) || (negb (is_some (m_base m)) && negb (is_some (m_index m)))
      then [TInt (m_disp m)] else [])
  ++ (if is_some (m_base m) || is_some (m_index m) then
        [TLpar] ++ (match m_base m with Some b => [TName b] | None => [] end)
        ++ (match m_index m with
            | Some i => [TComma; TName i] ++ (if N.eqb (m_scale m) 1 then [] else [TComma; TInt (Z.of_N (m_scale m))])
            | None => []
            end)
        ++ [TRpar]
      else [])
  ++ (if is_some (m_alias m) || is_some (m_nonalias m) then
        [TCol] ++ (match m_alias m with Some a => [TName a] | None => [] end)
        ++ (match m_nonalias m with Some a => [TCol; TName a] | None => [] end)
      else []).

Definition tk_op (o : operand) : list ttok :=
  match o with
  | OReg r => [TName r]
  | OInt i => [TInt i]
  | OUint u => [TInt (s64 u)]
  | OFloat b => [TFloat b]
  | ODouble b => [TDouble b]
  | OLdouble b => [TLdouble b]
  | OMem m => tk_mem m
  | ORef n => [TName n]
  | OStr s => [TStr (nul_terminate s)]
  | OLabel l => [TName (lname l)]
  end.

Definition tk_insn (i : insn) : list ttok :=
  match i with
  | ILabel l => [TName (lname l); TCol; TNL]
  | IInsn c ops => TName (insn_name c) :: sep_toks tk_op ops ++ [TNL]
  end.

Definition tk_arg (v : var) : list ttok :=
  if all_blk_type_p (v_type v)
  then [TName (type_str (v_type v)); TCol; TInt (v_size v); TLpar; TName (v_name v); TRpar]
  else [TName (type_str (v_type v)); TCol; TName (v_name v)].

Inductive sigel : Set := SigRes (t : mtype) | SigArg (v : var).
Definition tk_sigel (e : sigel) : list ttok :=
  match e with SigRes t => [TName (type_str t)] | SigArg v => tk_arg v end.

Definition tk_proto_tail (vararg : bool) (res : list mtype) (args : list var) : list ttok :=
  sep_toks tk_sigel (map SigRes res ++ map SigArg args)
  ++ (if vararg then (match res, args with [], [] => [TName (str "...")] | _, _ => [TComma; TName (str "...")] end) else [])
  ++ [TNL].

(* one "local"/"global" line per eight variables *)
Fixpoint chunks8 {A} (fuel : nat) (l : list A) : list (list A) :=
  match fuel, l with
  | _, [] => []
  | O, _ => [l]
  | S f, _ => firstn 8 l :: chunks8 f (skipn 8 l)
  end.

Definition tk_local (v : mtype * name) : list ttok := [TName (type_str (fst v)); TCol; TName (snd v)].
Definition tk_global (v : mtype * name * name) : list ttok :=
  [TName (type_str (fst (fst v))); TCol; TName (snd (fst v)); TCol; TName (snd v)].

Definition tk_vars {A} (kw : string) (f : A -> list ttok) (vs : list A) : list ttok :=
  flat_map (fun line => TName (str kw) :: sep_toks f line ++ [TNL]) (chunks8 (length vs) vs).

Definition tk_func (f : func) : list ttok :=
  [TName (f_name f); TCol; TName (str "func")] ++ tk_proto_tail (f_vararg f) (f_res f) (f_args f)
  ++ tk_vars "local" tk_local (f_locals f) ++ tk_vars "global" tk_global (f_globals f)
  ++ [TNL; TNL]                                   (* empty line, then the "# n args ..." comment line *)
  ++ flat_map tk_insn (f_insns f)
  ++ [TName (str "endfunc"); TNL].

Definition tk_optname (n : option name) : list ttok :=
  match n with Some x => [TName x; TCol] | None => [] end.

Definition tk_el (t : mtype) (z : Z) : list ttok :=
  match t with
  | TI8 | TI16 | TI32 | TI64 => [TInt z]
  | TU8 | TU16 | TU32 | TU64 | TP => [TInt (s64 z)]
  | TF => [TFloat z] | TD => [TDouble z] | TLD => [TLdouble z]
  | TBLK _ | TRBLK | TUNDEF => []
  end.

Definition tk_item (it : item) : list ttok :=
  match it with
  | ItExport n => [TName (str "export"); TName n; TNL]
  | ItImport n => [TName (str "import"); TName n; TNL]
  | ItForward n => [TName (str "forward"); TName n; TNL]
  | ItBss n len => tk_optname n ++ [TName (str "bss"); TInt (s64 len); TNL]
  | ItRef n r d => tk_optname n ++ [TName (str "ref"); TName r; TComma; TInt d; TNL]
  | ItLref n l l2 d =>
      tk_optname n ++ [TName (str "lref"); TName (lname l)]
      ++ (match l2 with Some x => [TComma; TName (lname x)] | None => [] end)
      ++ (if d =? 0 then [] else [TComma; TInt d]) ++ [TNL]
  | ItExpr n f => tk_optname n ++ [TName (str "expr"); TName f; TNL]
  | ItData n t els => tk_optname n ++ [TName (type_str t)] ++ sep_toks (tk_el t) els ++ [TNL]
  | ItProto n va res args => [TName n; TCol; TName (str "proto")] ++ tk_proto_tail va res args
  | ItFunc f => tk_func f
  end.

Definition tk_module (m : module) : list ttok :=
  [TName (mod_name m); TCol; TName (str "module"); TNL] ++ flat_map tk_item (mod_items m)
  ++ [TName (str "endmodule"); TNL].

Definition tk_ctx (ms : list module) : list ttok := flat_map tk_module ms.

(* ------------------------------------------------------------------ what a scan changes without
   changing the text: unsigned immediates become INT with the same bits, an index-less memory
   operand gets scale 1, a non-block argument size 0, a non-empty string operand a final NUL *)
Definition tnorm_mem (m : mem) : mem :=
  mkMem (m_type m) (m_disp m) (m_base m) (m_index m)
        (match m_index m with Some _ => m_scale m | None => 1%N end) (m_alias m) (m_nonalias m).
Definition tnorm_op (o : operand) : operand :=
  match o with
  | OUint u => OInt (s64 u)
  | OMem m => OMem (tnorm_mem m)
  | OStr s => OStr (nul_terminate s)
  | _ => o
  end.
Definition tnorm_insn (i : insn) : insn :=
  match i with ILabel l => ILabel l | IInsn c ops => IInsn c (map tnorm_op ops) end.
Definition tnorm_func (f : func) : func :=
  mkFunc (f_name f) (f_vararg f) (f_res f) (map norm_var (f_args f)) (f_locals f) (f_globals f)
         (map tnorm_insn (f_insns f)).
Definition tnorm_item (it : item) : item :=
  match it with
  | ItProto n va res args => ItProto n va res (map norm_var args)
  | ItFunc f => ItFunc (tnorm_func f)
  | _ => it
  end.
Definition tnorm_module (m : module) : module := mkModule (mod_name m) (map tnorm_item (mod_items m)).

(* text_module_fixpoint: MIR_scan_string (MIR_output ms) = ms up to tnorm, which prints identically. *)
From Coq Require Import List ZArith NArith Bool String Lia.
From MirV Require Import Base.W64 Mir.Opcode C11.Tables C11.Ast C11.BinIO C11.BinIOProofs C10.TextOut C10.TextScan C10.TextProofs
  C10.LexProofs C10.TextTokens C10.ParseProofs C10.PrintNormProofs C10.LexAllProofs.
Import ListNotations.
Local Open Scope Z_scope.
Local Notation length := List.length.

Section TextFix.
  Variables pF pD pLD : bytes -> Z.      (* strtof / strtod / strtold *)
  Variables fF fD fLD : Z -> bytes.      (* printf "%.*e" with the f / L suffixes *)

  (* hypotheses on a context:
     - characters: names are identifiers, strings are bytes, immediates are in range, every float
       immediate satisfies the libc law (its lexeme has the printf shape and strtoX returns its bits)
     - tokens: names resolve as meant, labels are numbered in order of first occurrence
     - stability: UINT < 2^63, STR operands empty or NUL-terminated *)
  Definition wf_text (ms : list module) : Prop :=
    cctx_ok pF pD pLD fF fD fLD ms /\ wf_text_tokens ms /\ text_stable ms.

  Lemma text_module_fixpoint_lemma ms : wf_text ms ->
    scan_ctx pF pD pLD (p_ctx fF fD fLD ms) = Ok (map tnorm_module ms)
    /\ p_ctx fF fD fLD (map tnorm_module ms) = p_ctx fF fD fLD ms.
  Proof.
    intros (Hc & Ht & Hs). split; [|now apply p_ctx_tnorm].
    unfold scan_ctx. rewrite (lex_ctx pF pD pLD fF fD fLD ms Hc). now apply scan_loop_tk_ctx.
  Qed.

  (* The general statement, for ANY numbering of the labels: scanning the text MIR_output writes yields the
     modules with their labels renamed the way MIR_scan_string renames them ([relabel_ctx], ParseProofs.v:
     each text label of a module gets the next number of the context's label counter at its first
     occurrence), up to tnorm.  [relabel_ctx ms = Some ms'] only requires label numbers that print as
     L<n> names (int64) and at most one definition of a label per module. *)
  Lemma text_module_scan_relabel_lemma ms ms' :
    cctx_ok pF pD pLD fF fD fLD ms -> Forall tmodule_ok ms -> relabel_ctx ms = Some ms' ->
    scan_ctx pF pD pLD (p_ctx fF fD fLD ms) = Ok (map tnorm_module ms').
  Proof.
    intros Hc Ht Hr. unfold scan_ctx. rewrite (lex_ctx pF pD pLD fF fD fLD ms Hc). now apply scan_loop_tk_ctx_gen.
  Qed.

  (* the writer model is total: MIR_output's model is a structurally recursive function, so every
     item kind (expr, lref, ref, hard-register globals, block arguments included) has an output *)
  Lemma text_writer_total_lemma ms : exists txt, p_ctx fF fD fLD ms = txt.
  Proof. eexists. reflexivity. Qed.
End TextFix.

(* Lexer-level lemmas: scan_token reads back each kind of lexeme MIR_output writes, given that the
   lexeme is followed by a separator character (or the end of input). *)
From Coq Require Import List ZArith NArith Bool String Lia.
From MirV Require Import Base.W64 Mir.Opcode C11.Tables C11.Ast C11.BinIO C11.BinIOProofs C10.TextOut C10.TextScan C10.TextProofs.
Import ListNotations.
Local Open Scope Z_scope.
Local Notation length := List.length.

(* characters that end a name or a number: comma newline colon parens tab blank dquote hash semicolon *)
Definition sep_char (c : N) : bool :=
  (N.eqb c 44 || N.eqb c 10 || N.eqb c 58 || N.eqb c 40 || N.eqb c 41 || N.eqb c 9 || N.eqb c 32 || N.eqb c 34
   || N.eqb c 35 || N.eqb c 59)%bool.

Definition good_rest (rest : bytes) : Prop :=
  match rest with [] => True | c :: _ => sep_char c = true end.

Lemma sep_char_cases c : sep_char c = true ->
  c = 44%N \/ c = 10%N \/ c = 58%N \/ c = 40%N \/ c = 41%N \/ c = 9%N \/ c = 32%N \/ c = 34%N \/ c = 35%N \/ c = 59%N.
Proof.
  unfold sep_char. rewrite !orb_true_iff, !N.eqb_eq. tauto.
Qed.

Lemma sep_not_name c first : sep_char c = true -> name_char c first = false.
Proof. intros H. apply sep_char_cases in H. repeat (destruct H as [H|H]); subst c; destruct first; reflexivity. Qed.

Lemma sep_not_digit c : sep_char c = true -> c_isdigit c = false.
Proof. intros H. apply sep_char_cases in H. repeat (destruct H as [H|H]); subst c; reflexivity. Qed.

(* ---------------------------------------------------------------- names *)

Definition is_ident (n : name) : Prop :=
  match n with
  | [] => False
  | c :: r => name_char c true = true /\ Forall (fun x => name_char x false = true) r
  end.

Lemma name_run_ident r acc rest :
  Forall (fun x => name_char x false = true) r -> good_rest rest ->
  name_run (r ++ rest) acc = (rev acc ++ r, rest).
Proof.
  revert acc; induction r as [|c r IH]; intros acc Hr Hrest.
  - cbn [app]. destruct rest as [|d rest]; cbn [name_run]; [now rewrite app_nil_r|].
    cbn in Hrest. rewrite (sep_not_name d false Hrest). now rewrite app_nil_r.
  - inversion Hr as [|? ? Hc Hr']; subst. cbn [app name_run]. rewrite Hc, IH by assumption.
    cbn [rev]. now rewrite <- app_assoc.
Qed.

Lemma name_first_not_special c : name_char c true = true ->
  (N.eqb c 32 || N.eqb c 9)%bool = false /\ N.eqb c 35 = false /\ N.eqb c 10 = false /\ N.eqb c 40 = false
  /\ N.eqb c 41 = false /\ N.eqb c 44 = false /\ N.eqb c 59 = false /\ N.eqb c 58 = false /\ N.eqb c 34 = false.
Proof.
  intros H.
  assert (Hn : forall k, sep_char k = true -> c <> k).
  { intros k Hk E. subst k. rewrite (sep_not_name c true Hk) in H. discriminate. }
  repeat split; try (apply orb_false_iff; split); apply N.eqb_neq; apply Hn; reflexivity.
Qed.

Lemma scan_token_name pF pD pLD n rest f :
  is_ident n -> good_rest rest -> scan_token pF pD pLD (S f) (n ++ rest) = Some (TName n, rest).
Proof.
  intros Hn Hrest. destruct n as [|c r]; [contradiction|]. destruct Hn as [Hc Hr].
  cbn [app scan_token].
  destruct (name_first_not_special c Hc) as (H1 & H2 & H3 & H4 & H5 & H6 & H7 & H8 & H9).
  rewrite H1, H2, H3, H4, H5, H6, H7, H8, H9, Hc.
  rewrite (name_run_ident r [c] rest Hr Hrest). reflexivity.
Qed.

(* ---------------------------------------------------------------- integers *)

Definition all_digits (ds : bytes) : Prop := Forall (fun c => c_isdigit c = true) ds.

Lemma digit_char_isdigit d : 0 <= d < 10 -> c_isdigit (digit_char d) = true.
Proof.
  intros H. assert (E : d = 0 \/ d = 1 \/ d = 2 \/ d = 3 \/ d = 4 \/ d = 5 \/ d = 6 \/ d = 7 \/ d = 8 \/ d = 9) by lia.
  repeat (destruct E as [E|E]); subst d; reflexivity.
Qed.

Ltac Zify.zify_post_hook ::= Z.div_mod_to_equations.

Lemma dec_digits_all fuel : forall z acc, 0 <= z -> all_digits acc -> all_digits (dec_digits fuel z acc).
Proof.
  induction fuel as [|f IH]; intros z acc Hz Hacc; cbn [dec_digits]; [assumption|].
  destruct (Z.ltb_spec z 10).
  - constructor; [apply digit_char_isdigit; lia | assumption].
  - apply IH; [lia|]. constructor; [apply digit_char_isdigit; lia | assumption].
Qed.

Lemma p_nat_digits z : 0 <= z -> all_digits (p_nat z).
Proof. intros H. apply dec_digits_all; [assumption | constructor]. Qed.

Lemma p_nat_nonempty z : 0 <= z -> exists d ds, p_nat z = d :: ds.
Proof.
  intros H. destruct (dec_digits_head (S (Z.to_nat (Z.log2 z))) z [] H ltac:(lia)) as [d [r [E _]]]. now exists d, r.
Qed.

Lemma p_nat_zero : p_nat 0 = [48%N].
Proof. reflexivity. Qed.

Lemma dec_digits_nolead0 fuel : forall z acc, 0 < z -> z < 10 ^ Z.of_nat fuel ->
  exists d r, dec_digits fuel z acc = d :: r /\ d <> 48%N.
Proof.
  induction fuel as [|f IH]; intros z acc Hz Hb.
  - cbn in Hb. lia.
  - cbn [dec_digits]. destruct (Z.ltb_spec z 10).
    + exists (digit_char z), acc. split; [reflexivity|]. unfold digit_char.
      assert (E : z = 1 \/ z = 2 \/ z = 3 \/ z = 4 \/ z = 5 \/ z = 6 \/ z = 7 \/ z = 8 \/ z = 9) by lia.
      repeat (destruct E as [E|E]); subst z; cbn; lia.
    + rewrite Nat2Z.inj_succ, Z.pow_succ_r in Hb by lia. apply IH; lia.
Qed.

Lemma p_nat_nolead0 z : 0 < z -> exists d r, p_nat z = d :: r /\ d <> 48%N.
Proof. intros H. apply dec_digits_nolead0; [assumption | apply pow10_log2; lia]. Qed.

Lemma num_digits_run d ds rest acc :
  all_digits ds -> good_rest rest ->
  num_digits false d (ds ++ rest) acc
  = (rev ds ++ (if N.eqb d 95 then acc else d :: acc), hd_error rest, tl rest).
Proof.
  revert d acc; induction ds as [|e ds IH]; intros d acc Hds Hrest.
  - cbn [app rev]. destruct rest as [|c rest]; cbn [num_digits hd_error tl]; [reflexivity|].
    cbn in Hrest. apply sep_char_cases in Hrest.
    repeat (destruct Hrest as [Hrest|Hrest]); subst c; reflexivity.
  - inversion Hds as [|? ? He Hds']; subst. cbn [app num_digits]. rewrite He.
    assert (E95 : N.eqb e 95 = false).
    { unfold c_isdigit in He. apply andb_true_iff in He. destruct He as [_ H2]. apply N.leb_le in H2. apply N.eqb_neq. lia. }
    rewrite E95. cbn [negb andb]. rewrite IH by assumption. rewrite E95. cbn [rev]. now rewrite <- app_assoc.
Qed.

Lemma good_rest_hd rest : good_rest rest ->
  opt_is (hd_error rest) 46 = false /\ opt_is (hd_error rest) 101 = false /\ opt_is (hd_error rest) 69 = false.
Proof.
  destruct rest as [|c r]; cbn; [tauto|]. intros H. apply sep_char_cases in H.
  repeat (destruct H as [H|H]); subst c; repeat split; reflexivity.
Qed.

Lemma unget_hd rest : unget (hd_error rest) (tl rest) = rest.
Proof. destruct rest; reflexivity. Qed.

Lemma digit_facts c : c_isdigit c = true ->
  N.eqb c 95 = false /\ (N.eqb c 43 || N.eqb c 45)%bool = false /\ (N.eqb c 120 || N.eqb c 88)%bool = false.
Proof.
  intros H. unfold c_isdigit in H. apply andb_true_iff in H. destruct H as [H1 H2]. apply N.leb_le in H1, H2.
  repeat split; try (apply orb_false_iff; split); apply N.eqb_neq; lia.
Qed.

Lemma sn_sign_digit d cs : c_isdigit d = true -> sn_sign d cs = ([], d, cs).
Proof. intros H. unfold sn_sign. destruct (digit_facts d H) as (_ & -> & _). reflexivity. Qed.

Lemma sn_sign_minus d cs : sn_sign 45 (d :: cs) = ([45%N], d, cs).
Proof. reflexivity. Qed.

Lemma sn_base_nonzero d cs : d <> 48%N -> sn_base d cs = (10, d, cs).
Proof. intros H. unfold sn_base. apply N.eqb_neq in H. now rewrite H. Qed.

(* after a leading 0 that is not followed by x/X the digit loop restarts at that 0 in base 8 *)
Lemma sn_base_zero cs : match cs with c :: _ => (N.eqb c 120 || N.eqb c 88)%bool = false | [] => True end ->
  sn_base 48 cs = (8, 48%N, cs).
Proof. intros H. unfold sn_base. cbn [N.eqb Pos.eqb]. destruct cs as [|c r]; [reflexivity|]. now rewrite H. Qed.

Lemma sn_frac_none acc och cs : opt_is och 46 = false -> sn_frac acc och cs = (acc, och, cs, false).
Proof. intros H. unfold sn_frac. now rewrite H. Qed.

Lemma sn_exp_none acc och cs dbl : opt_is och 101 = false -> opt_is och 69 = false -> sn_exp acc och cs dbl = (acc, och, cs, dbl).
Proof. intros H1 H2. unfold sn_exp. now rewrite H1, H2. Qed.

(* scan_number on a decimal literal without leading zero *)
Lemma scan_number_dec d ds rest :
  c_isdigit d = true -> d <> 48%N -> all_digits ds -> good_rest rest ->
  scan_number d (ds ++ rest) = (d :: ds, NInt 10, rest).
Proof.
  intros Hd Hnz Hds Hrest. unfold scan_number.
  rewrite sn_sign_digit by assumption. unfold sn_rest. rewrite sn_base_nonzero by assumption. change (10 =? 16) with false.
  rewrite num_digits_run by assumption.
  destruct (digit_facts d Hd) as (E95 & _ & _). rewrite E95.
  destruct (good_rest_hd rest Hrest) as (H1 & H2 & H3).
  rewrite sn_frac_none, sn_exp_none by assumption.
  unfold sn_finish. rewrite rev_app_distr, rev_involutive. cbn [rev app]. now rewrite unget_hd.
Qed.

Lemma scan_number_neg d ds rest :
  c_isdigit d = true -> d <> 48%N -> all_digits ds -> good_rest rest ->
  scan_number 45 (d :: ds ++ rest) = (45%N :: d :: ds, NInt 10, rest).
Proof.
  intros Hd Hnz Hds Hrest. unfold scan_number.
  rewrite sn_sign_minus. unfold sn_rest. rewrite sn_base_nonzero by assumption. change (10 =? 16) with false.
  rewrite num_digits_run by assumption.
  destruct (digit_facts d Hd) as (E95 & _ & _). rewrite E95.
  destruct (good_rest_hd rest Hrest) as (H1 & H2 & H3).
  rewrite sn_frac_none, sn_exp_none by assumption.
  unfold sn_finish. rewrite rev_app_distr. cbn [rev app]. rewrite rev_involutive. now rewrite unget_hd.
Qed.

Lemma good_rest_not_x rest : good_rest rest ->
  match rest with c :: _ => (N.eqb c 120 || N.eqb c 88)%bool = false | [] => True end.
Proof.
  destruct rest as [|c r]; [tauto|]. cbn. intros H. apply sep_char_cases in H.
  repeat (destruct H as [H|H]); subst c; reflexivity.
Qed.

Lemma scan_number_zero rest : good_rest rest -> scan_number 48 rest = ([48%N], NInt 8, rest).
Proof.
  intros Hrest. unfold scan_number.
  rewrite sn_sign_digit by reflexivity. unfold sn_rest. rewrite sn_base_zero by now apply good_rest_not_x. change (8 =? 16) with false.
  pose proof (num_digits_run 48 [] rest [] ltac:(constructor) Hrest) as E. cbn [app rev N.eqb Pos.eqb] in E. rewrite E.
  destruct (good_rest_hd rest Hrest) as (H1 & H2 & H3).
  rewrite sn_frac_none, sn_exp_none by assumption.
  unfold sn_finish. cbn [rev app]. now rewrite unget_hd.
Qed.

Lemma digit_not_special c : c_isdigit c = true ->
  (N.eqb c 32 || N.eqb c 9)%bool = false /\ N.eqb c 35 = false /\ N.eqb c 10 = false /\ N.eqb c 40 = false
  /\ N.eqb c 41 = false /\ N.eqb c 44 = false /\ N.eqb c 59 = false /\ N.eqb c 58 = false /\ N.eqb c 34 = false
  /\ name_char c true = false /\ (N.eqb c 43 || N.eqb c 45)%bool = false.
Proof.
  intros H. unfold c_isdigit in H. apply andb_true_iff in H. destruct H as [H1 H2]. apply N.leb_le in H1, H2.
  assert (E : (c = 48 \/ c = 49 \/ c = 50 \/ c = 51 \/ c = 52 \/ c = 53 \/ c = 54 \/ c = 55 \/ c = 56 \/ c = 57)%N) by lia.
  repeat (destruct E as [E|E]); subst c; repeat split; reflexivity.
Qed.

Lemma scan_token_digits pF pD pLD d ds rest f :
  c_isdigit d = true -> d <> 48%N -> all_digits ds -> good_rest rest ->
  scan_token pF pD pLD (S f) (d :: ds ++ rest) = Some (TInt (s64 (strtoul 10 (d :: ds))), rest).
Proof.
  intros Hd Hnz Hds Hrest. cbn [scan_token].
  destruct (digit_not_special d Hd) as (H1 & H2 & H3 & H4 & H5 & H6 & H7 & H8 & H9 & H10 & H11).
  rewrite H1, H2, H3, H4, H5, H6, H7, H8, H9, H10, Hd, H11. rewrite orb_true_r. cbn [andb].
  rewrite scan_number_dec by assumption. reflexivity.
Qed.

Lemma scan_token_int pF pD pLD z rest f :
  in_s64 z -> good_rest rest -> scan_token pF pD pLD (S f) (p_int z ++ rest) = Some (TInt z, rest).
Proof.
  intros Hz Hrest. pose proof (strtoul_p_int z Hz) as Hv. unfold p_int in *.
  destruct (Z.ltb_spec z 0) as [Hneg|Hpos].
  - destruct (p_nat_nolead0 (- z) ltac:(lia)) as [d [ds [E Hnz]]].
    pose proof (p_nat_digits (- z) ltac:(lia)) as Hall. rewrite E in *. pose proof (Forall_inv Hall) as Hd. pose proof (Forall_inv_tail Hall) as Hds.
    cbn [app scan_token]. cbn [N.eqb orb Pos.eqb andb name_char c_isalpha N.leb].
    change (name_char 45 true) with false. cbv iota.
    change ((45 =? 43)%N || (45 =? 45)%N || c_isdigit 45)%bool with true. cbv iota.
    rewrite Hd. cbn [negb andb]. rewrite scan_number_neg by assumption. now rewrite Hv.
  - destruct (Z.eq_dec z 0) as [->|Hnz0].
    + rewrite p_nat_zero. cbn [app scan_token]. cbn [N.eqb orb Pos.eqb andb].
      change (name_char 48 true) with false. cbv iota.
      change ((48 =? 43)%N || (48 =? 45)%N || c_isdigit 48)%bool with true. cbv iota.
      change ((48 =? 43)%N || (48 =? 45)%N)%bool with false. cbn [andb].
      rewrite scan_number_zero by assumption. reflexivity.
    + destruct (p_nat_nolead0 z ltac:(lia)) as [d [ds [E Hnz]]].
      pose proof (p_nat_digits z ltac:(lia)) as Hall. rewrite E in *. pose proof (Forall_inv Hall) as Hd. pose proof (Forall_inv_tail Hall) as Hds.
      cbn [app]. rewrite scan_token_digits by assumption. now rewrite Hv.
Qed.

(* an unsigned immediate (PRIu64) is read as the INT with the same bits *)
Lemma scan_token_uint pF pD pLD u rest f :
  in_u64 u -> good_rest rest -> scan_token pF pD pLD (S f) (p_nat u ++ rest) = Some (TInt (s64 u), rest).
Proof.
  intros Hu Hrest. pose proof (strtoul_p_nat u Hu) as Hv.
  destruct (Z.eq_dec u 0) as [->|Hnz0].
  - apply (scan_token_int pF pD pLD 0 rest f); [unfold in_s64; lia | assumption].
  - destruct Hu as [H0 H1]. destruct (p_nat_nolead0 u ltac:(lia)) as [d [ds [E Hnz]]].
    pose proof (p_nat_digits u ltac:(lia)) as Hall. rewrite E in *. pose proof (Forall_inv Hall) as Hd. pose proof (Forall_inv_tail Hall) as Hds.
    cbn [app]. rewrite scan_token_digits by assumption. now rewrite Hv.
Qed.

(* ---------------------------------------------------------------- strings, punctuation, blanks, comments *)

Lemma scan_str_fuel s : is_bytes s -> forall f tail, (length s < f)%nat ->
  scan_str f (tl (output_str s) ++ tail) [] = Some (s, tail).
Proof.
  intros Hb f tail Hf. unfold output_str. cbn [app tl]. rewrite <- app_assoc. cbn [app].
  now rewrite scan_str_out by assumption.
Qed.

Lemma scan_token_str pF pD pLD s rest f :
  is_bytes s -> (length s < f)%nat ->
  scan_token pF pD pLD (S f) (output_str s ++ rest) = Some (TStr (nul_terminate s), rest).
Proof.
  intros Hb Hf. unfold output_str. cbn [app scan_token]. cbn [N.eqb orb Pos.eqb].
  rewrite <- app_assoc. cbn [app]. rewrite scan_str_out by assumption. reflexivity.
Qed.

Lemma scan_token_blank pF pD pLD cs f : scan_token pF pD pLD (S f) (32%N :: cs) = scan_token pF pD pLD f cs.
Proof. reflexivity. Qed.
Lemma scan_token_tab pF pD pLD cs f : scan_token pF pD pLD (S f) (9%N :: cs) = scan_token pF pD pLD f cs.
Proof. reflexivity. Qed.
Lemma scan_token_nl pF pD pLD cs f : scan_token pF pD pLD (S f) (10%N :: cs) = Some (TNL, cs).
Proof. reflexivity. Qed.
Lemma scan_token_comma pF pD pLD cs f : scan_token pF pD pLD (S f) (44%N :: cs) = Some (TComma, cs).
Proof. reflexivity. Qed.
Lemma scan_token_colon pF pD pLD cs f : scan_token pF pD pLD (S f) (58%N :: cs) = Some (TCol, cs).
Proof. reflexivity. Qed.
Lemma scan_token_lpar pF pD pLD cs f : scan_token pF pD pLD (S f) (40%N :: cs) = Some (TLpar, cs).
Proof. reflexivity. Qed.
Lemma scan_token_rpar pF pD pLD cs f : scan_token pF pD pLD (S f) (41%N :: cs) = Some (TRpar, cs).
Proof. reflexivity. Qed.
Lemma scan_token_hash pF pD pLD cs f : scan_token pF pD pLD (S f) (35%N :: cs) = Some (TNL, skip_comment cs).
Proof. reflexivity. Qed.

Definition no_newline (cs : bytes) : Prop := Forall (fun c => c <> 10%N) cs.

Lemma skip_comment_line cs rest : no_newline cs -> skip_comment (cs ++ 10%N :: rest) = rest.
Proof.
  induction cs as [|c cs IH]; intros H; [reflexivity|].
  pose proof (Forall_inv H) as Hc. pose proof (Forall_inv_tail H) as Hcs.
  cbn [app skip_comment]. destruct (N.eqb_spec c 10); [contradiction | now apply IH].
Qed.

Lemma out_char_no_newline c : (c < 256)%N -> no_newline (out_char c).
Proof.
  intros Hc. destruct c as [|p]; [repeat constructor; discriminate|].
  do 8 (try destruct p as [p|p|]); try (exfalso; lia); repeat constructor; discriminate.
Qed.

Lemma output_str_no_newline s : is_bytes s -> no_newline (output_str s).
Proof.
  intros Hb. unfold output_str, no_newline. apply Forall_app. split; [repeat constructor; discriminate|].
  apply Forall_app. split; [|repeat constructor; discriminate].
  induction s as [|c s IH]; [constructor|].
  cbn [flat_map]. apply Forall_app. split.
  - apply out_char_no_newline. exact (Forall_inv Hb).
  - apply IH. exact (Forall_inv_tail Hb).
Qed.

(* ---------------------------------------------------------------- floating point literals
   shape of printf "%.<p>e" output for a finite value: [-]d.ddd...e(+|-)dd... *)

Definition float_body (neg : bool) (d0 : N) (frac : bytes) (es : N) (ex : bytes) : bytes :=
  (if neg then [45%N] else []) ++ d0 :: 46%N :: frac ++ 101%N :: es :: ex.

Definition float_lexeme (body : bytes) : Prop :=
  exists neg d0 frac es ex,
    body = float_body neg d0 frac es ex
    /\ c_isdigit d0 = true /\ all_digits frac /\ (es = 43%N \/ es = 45%N) /\ all_digits ex /\ ex <> [].

Lemma dec_run_digits ch ds c rest acc :
  all_digits ds -> c_isdigit c = false -> c <> 95%N -> N.eqb ch 95 = false ->
  dec_run ch (ds ++ c :: rest) acc = (rev ds ++ ch :: acc, Some c, rest).
Proof.
  revert ch acc; induction ds as [|e ds IH]; intros ch acc Hds Hc Hc95 Hch.
  - cbn [app dec_run rev]. rewrite Hch, Hc. apply N.eqb_neq in Hc95. now rewrite Hc95.
  - pose proof (Forall_inv Hds) as He. pose proof (Forall_inv_tail Hds) as Hds'.
    cbn [app dec_run]. rewrite Hch, He. cbn [orb].
    destruct (digit_facts e He) as (E95 & _ & _).
    rewrite IH by assumption. cbn [rev]. now rewrite <- app_assoc.
Qed.

Lemma dec_run_digits_end ch ds acc :
  all_digits ds -> N.eqb ch 95 = false -> dec_run ch ds acc = (rev ds ++ ch :: acc, None, []).
Proof.
  revert ch acc; induction ds as [|e ds IH]; intros ch acc Hds Hch.
  - cbn [dec_run rev app]. now rewrite Hch.
  - pose proof (Forall_inv Hds) as He. pose proof (Forall_inv_tail Hds) as Hds'.
    cbn [dec_run]. rewrite Hch, He. cbn [orb].
    destruct (digit_facts e He) as (E95 & _ & _).
    rewrite IH by assumption. cbn [rev]. now rewrite <- app_assoc.
Qed.

Definition stop_ok (stop : option N) : Prop :=
  match stop with Some c => c_isdigit c = false /\ c <> 95%N | None => True end.

Lemma sn_finish_dbl8 acc och cs : sn_finish 8 acc och cs true = sn_finish 10 acc och cs true.
Proof. reflexivity. Qed.

(* everything after the optional sign, on d0 . frac e es ex <after> *)
Lemma sn_rest_float acc0 d0 frac es ex after :
  c_isdigit d0 = true -> all_digits frac -> (es = 43%N \/ es = 45%N) -> all_digits ex -> ex <> [] ->
  stop_ok (hd_error after) ->
  sn_rest acc0 d0 (46%N :: frac ++ 101%N :: es :: ex ++ after)
  = sn_finish 10 (rev ex ++ es :: 101%N :: rev frac ++ 46%N :: d0 :: acc0) (hd_error after) (tl after) true.
Proof.
  intros Hd0 Hfrac Hes Hex Hexne Hstop.
  destruct ex as [|x0 ex']; [congruence|].
  pose proof (Forall_inv Hex) as Hx0. pose proof (Forall_inv_tail Hex) as Hex'.
  destruct (digit_facts x0 Hx0) as (Hx95 & _ & _).
  destruct (digit_facts d0 Hd0) as (Hd95 & _ & _).
  assert (Frac : forall acc1, dec_run 46 (frac ++ 101%N :: es :: (x0 :: ex') ++ after) acc1
                              = (rev frac ++ 46%N :: acc1, Some 101%N, es :: (x0 :: ex') ++ after)).
  { intros acc1. apply dec_run_digits; [assumption | reflexivity | discriminate | reflexivity]. }
  assert (Ex : forall acc2, dec_run x0 (ex' ++ after) acc2 = (rev ex' ++ x0 :: acc2, hd_error after, tl after)).
  { intros acc2. destruct after as [|c after'].
    - rewrite app_nil_r. now apply dec_run_digits_end.
    - cbn in Hstop. destruct Hstop. now apply dec_run_digits. }
  assert (Rest : forall base,
            (let '(acc, och, cs, dbl) := sn_frac (d0 :: acc0) (Some 46%N) (frac ++ 101%N :: es :: (x0 :: ex') ++ after) in
             let '(acc, och, cs, dbl) := sn_exp acc och cs dbl in sn_finish base acc och cs dbl)
            = sn_finish base (rev ex' ++ x0 :: es :: 101%N :: rev frac ++ 46%N :: d0 :: acc0) (hd_error after) (tl after) true).
  { intros base. unfold sn_frac. cbn [opt_is N.eqb Pos.eqb]. rewrite Frac.
    unfold sn_exp. cbn [opt_is N.eqb Pos.eqb orb next_char].
    destruct Hes as [-> | ->]; cbn [opt_is N.eqb Pos.eqb orb next_char app]; rewrite Hx0, Ex; reflexivity. }
  cbn [rev]. rewrite <- app_assoc. cbn [app].
  unfold sn_rest. destruct (N.eqb_spec d0 48) as [->|Hn].
  - cbn [sn_base N.eqb Pos.eqb orb]. change (8 =? 16) with false. cbn [num_digits N.eqb Pos.eqb c_isdigit N.leb andb negb].
    change (num_digits false 48 (46%N :: frac ++ 101%N :: es :: (x0 :: ex') ++ after) acc0)
      with (48%N :: acc0, Some 46%N, frac ++ 101%N :: es :: (x0 :: ex') ++ after).
    exact (Rest 8).
  - rewrite sn_base_nonzero by assumption. change (10 =? 16) with false.
    cbn [num_digits]. rewrite Hd95. exact (Rest 10).
Qed.

Lemma float_repr acc0 d0 frac es ex :
  rev (rev ex ++ es :: 101%N :: rev frac ++ 46%N :: d0 :: acc0) = rev acc0 ++ d0 :: 46%N :: frac ++ 101%N :: es :: ex.
Proof.
  rewrite rev_app_distr, rev_involutive. cbn [rev].
  rewrite !rev_app_distr, ?rev_involutive. cbn [rev app].
  repeat rewrite <- app_assoc. cbn [app]. reflexivity.
Qed.

(* scan_number on a float lexeme followed by [after] *)
Lemma scan_number_float body after :
  float_lexeme body -> stop_ok (hd_error after) ->
  scan_number (hd 0%N body) (tl body ++ after) = sn_finish 10 (rev body) (hd_error after) (tl after) true.
Proof.
  intros (neg & d0 & frac & es & ex & -> & Hd0 & Hfrac & Hes & Hex & Hne) Hstop.
  unfold float_body, scan_number. destruct neg; cbn [app hd tl].
  - rewrite sn_sign_minus. repeat rewrite <- app_assoc. cbn [app].
    rewrite sn_rest_float by assumption. f_equal.
    rewrite <- (rev_involutive (rev ex ++ es :: 101%N :: rev frac ++ [46%N; d0; 45%N])). f_equal.
    rewrite (float_repr [45%N]). reflexivity.
  - rewrite sn_sign_digit by assumption. repeat rewrite <- app_assoc. cbn [app].
    rewrite sn_rest_float by assumption. f_equal.
    rewrite <- (rev_involutive (rev ex ++ es :: 101%N :: rev frac ++ [46%N; d0])). f_equal.
    rewrite (float_repr []). reflexivity.
Qed.

Lemma float_lexeme_head body : float_lexeme body ->
  exists c r, body = c :: r /\ (c = 45%N \/ c_isdigit c = true) /\ (c = 45%N -> exists d r', r = d :: r' /\ c_isdigit d = true).
Proof.
  intros (neg & d0 & frac & es & ex & -> & Hd0 & _). unfold float_body. destruct neg; cbn [app].
  - eexists _, _. split; [reflexivity|]. split; [now left|]. intros _. eexists _, _. split; [reflexivity | assumption].
  - eexists _, _. split; [reflexivity|]. split; [now right|]. intros E. subst. discriminate.
Qed.

Lemma minus_or_digit_number pF pD pLD c r f :
  (c = 45%N \/ c_isdigit c = true) -> (c = 45%N -> exists d r', r = d :: r' /\ c_isdigit d = true) ->
  scan_token pF pD pLD (S f) (c :: r)
  = let '(repr, kind, r') := scan_number c r in
    Some (match kind with
          | NInt base => TInt (s64 (strtoul base repr))
          | NFloat => TFloat (pF repr)
          | NDouble => TDouble (pD repr)
          | NLdouble => TLdouble (pLD repr)
          end, r').
Proof.
  intros Hc Hm. destruct Hc as [->|Hd].
  - destruct (Hm eq_refl) as (d & r' & -> & Hd). cbn [scan_token N.eqb Pos.eqb orb].
    change (name_char 45 true) with false. cbv iota.
    change ((45 =? 43)%N || (45 =? 45)%N || c_isdigit 45)%bool with true. cbv iota.
    rewrite Hd. reflexivity.
  - cbn [scan_token].
    destruct (digit_not_special c Hd) as (H1 & H2 & H3 & H4 & H5 & H6 & H7 & H8 & H9 & H10 & H11).
    rewrite H1, H2, H3, H4, H5, H6, H7, H8, H9, H10, Hd, H11. rewrite orb_true_r. reflexivity.
Qed.

Section FloatTokens.
  Variables pF pD pLD : bytes -> Z.

  Lemma sep_stop_ok rest : good_rest rest -> stop_ok (hd_error rest).
  Proof.
    destruct rest as [|c r]; cbn; [tauto|]. intros H. split; [now apply sep_not_digit|].
    apply sep_char_cases in H. repeat (destruct H as [H|H]); subst c; discriminate.
  Qed.

  Lemma sep_not_suffix rest : good_rest rest ->
    (opt_is (hd_error rest) 102 || opt_is (hd_error rest) 70)%bool = false
    /\ (opt_is (hd_error rest) 108 || opt_is (hd_error rest) 76)%bool = false.
  Proof.
    destruct rest as [|c r]; cbn; [tauto|]. intros H. apply sep_char_cases in H.
    repeat (destruct H as [H|H]); subst c; split; reflexivity.
  Qed.

  Lemma scan_token_double body rest f :
    float_lexeme body -> good_rest rest ->
    scan_token pF pD pLD (S f) (body ++ rest) = Some (TDouble (pD body), rest).
  Proof.
    intros Hb Hrest. destruct (float_lexeme_head body Hb) as (c & r & E & Hc & Hm).
    pose proof (scan_number_float body rest Hb (sep_stop_ok rest Hrest)) as Hs.
    subst body. cbn [app hd tl] in *.
    assert (Hm' : forall tail, c = 45%N -> exists d r', r ++ tail = d :: r' /\ c_isdigit d = true).
    { intros tail Ec. destruct (Hm Ec) as (d & r' & -> & Hd). exists d, (r' ++ tail). split; [reflexivity | assumption]. }
    rewrite (minus_or_digit_number pF pD pLD c _ f Hc (Hm' _)). rewrite Hs.
    unfold sn_finish. change (10 =? 16) with false. cbv iota.
    destruct (sep_not_suffix rest Hrest) as [-> ->]. rewrite rev_involutive, unget_hd. reflexivity.
  Qed.

  Lemma scan_token_float body rest f :
    float_lexeme body ->
    scan_token pF pD pLD (S f) (body ++ 102%N :: rest) = Some (TFloat (pF body), rest).
  Proof.
    intros Hb. destruct (float_lexeme_head body Hb) as (c & r & E & Hc & Hm).
    pose proof (scan_number_float body (102%N :: rest) Hb ltac:(cbn; split; [reflexivity | discriminate])) as Hs.
    subst body. cbn [app hd tl] in *.
    assert (Hm' : forall tail, c = 45%N -> exists d r', r ++ tail = d :: r' /\ c_isdigit d = true).
    { intros tail Ec. destruct (Hm Ec) as (d & r' & -> & Hd). exists d, (r' ++ tail). split; [reflexivity | assumption]. }
    rewrite (minus_or_digit_number pF pD pLD c _ f Hc (Hm' _)). rewrite Hs.
    unfold sn_finish. cbn [hd_error tl]. rewrite rev_involutive. reflexivity.
  Qed.

  Lemma scan_token_ldouble body rest f :
    float_lexeme body ->
    scan_token pF pD pLD (S f) (body ++ 76%N :: rest) = Some (TLdouble (pLD body), rest).
  Proof.
    intros Hb. destruct (float_lexeme_head body Hb) as (c & r & E & Hc & Hm).
    pose proof (scan_number_float body (76%N :: rest) Hb ltac:(cbn; split; [reflexivity | discriminate])) as Hs.
    subst body. cbn [app hd tl] in *.
    assert (Hm' : forall tail, c = 45%N -> exists d r', r ++ tail = d :: r' /\ c_isdigit d = true).
    { intros tail Ec. destruct (Hm Ec) as (d & r' & -> & Hd). exists d, (r' ++ tail). split; [reflexivity | assumption]. }
    rewrite (minus_or_digit_number pF pD pLD c _ f Hc (Hm' _)). rewrite Hs.
    unfold sn_finish. cbn [hd_error tl]. rewrite rev_involutive. reflexivity.
  Qed.
End FloatTokens.

(* ---------------------------------------------------------------- collected for Properties_C10 *)

Lemma text_token_roundtrip_lemma pF pD pLD rest f :
  good_rest rest ->
  (forall n, is_ident n -> scan_token pF pD pLD (S f) (n ++ rest) = Some (TName n, rest))
  /\ (forall z, in_s64 z -> scan_token pF pD pLD (S f) (p_int z ++ rest) = Some (TInt z, rest))
  /\ (forall u, in_u64 u -> scan_token pF pD pLD (S f) (p_nat u ++ rest) = Some (TInt (s64 u), rest))
  /\ (forall body, float_lexeme body ->
        scan_token pF pD pLD (S f) (body ++ rest) = Some (TDouble (pD body), rest)
        /\ scan_token pF pD pLD (S f) (body ++ 102%N :: rest) = Some (TFloat (pF body), rest)
        /\ scan_token pF pD pLD (S f) (body ++ 76%N :: rest) = Some (TLdouble (pLD body), rest))
  /\ (forall s, is_bytes s -> (length s < f)%nat ->
        scan_token pF pD pLD (S f) (output_str s ++ rest) = Some (TStr (nul_terminate s), rest)).
Proof.
  intros Hrest. split; [intros; now apply scan_token_name|]. split; [intros; now apply scan_token_int|].
  split; [intros; now apply scan_token_uint|]. split.
  - intros body Hb. split; [now apply scan_token_double|]. split; [now apply scan_token_float | now apply scan_token_ldouble].
  - intros s Hs Hf. now apply scan_token_str.
Qed.

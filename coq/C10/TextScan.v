(* Model of the textual MIR reader: scan_number / scan_string / scan_token and the statement
   parser of MIR_scan_string (mir.c "Reading MIR text file").  Definitions only.
   Any scan_error makes the whole scan fail (the C code collects the messages and calls the
   error function at the end); error *recovery* is not modelled.
   strtof/strtod/strtold are supplied from outside (lexeme -> bit pattern). *)
From Coq Require Import List ZArith NArith Bool String Ascii.
From MirV Require Import Base.W64 Mir.Opcode C11.Tables C11.Ast C11.BinIO C10.TextOut.
Import ListNotations.
Local Open Scope Z_scope.
Local Notation length := List.length.

(* ------------------------------------------------------------------ characters *)

Definition c_isdigit (c : N) : bool := (N.leb 48 c && N.leb c 57)%bool.
Definition c_isalpha (c : N) : bool :=
  ((N.leb 65 c && N.leb c 90) || (N.leb 97 c && N.leb c 122))%bool.
Definition c_hexchar (c : N) : bool :=       (* 'a'..'f' or 'A'..'F' *)
  ((N.leb 97 c && N.leb c 102) || (N.leb 65 c && N.leb c 70))%bool.
Definition c_isxdigit (c : N) : bool := (c_isdigit c || c_hexchar c)%bool.

(* _MIR_name_char_p *)
Definition name_char (c : N) (first : bool) : bool :=
  (c_isalpha c || N.eqb c 95 || N.eqb c 36 || N.eqb c 37 || N.eqb c 46 || (negb first && c_isdigit c))%bool.

Inductive ttok : Set :=
| TInt (i : Z)                 (* (int64_t) strtoul (...) *)
| TFloat (b : Z) | TDouble (b : Z) | TLdouble (b : Z)
| TName (s : name) | TStr (s : bytes)
| TNL | TEOF | TLpar | TRpar | TComma | TSemi | TCol.

(* ------------------------------------------------------------------ strtoul (glibc), base 8/10/16,
   on the representation scan_number built (sign, then digits; stops at the first non-digit) *)

Definition digit_val (c : N) : option Z :=
  if c_isdigit c then Some (Z.of_N c - 48)
  else if (N.leb 97 c && N.leb c 122)%bool then Some (Z.of_N c - 87)
  else if (N.leb 65 c && N.leb c 90)%bool then Some (Z.of_N c - 55)
  else None.

Fixpoint strtoul_digits (base : Z) (cs : bytes) (acc : Z) : Z :=
  match cs with
  | [] => acc
  | c :: r => match digit_val c with
              | Some d => if d <? base then strtoul_digits base r (acc * base + d) else acc
              | None => acc
              end
  end.

Definition strtoul (base : Z) (cs : bytes) : Z :=
  let '(neg, ds) := match cs with
                    | 45%N :: r => (true, r)
                    | 43%N :: r => (false, r)
                    | _ => (false, cs)
                    end in
  let mag := strtoul_digits base ds 0 in
  if 2 ^ 64 <=? mag then 2 ^ 64 - 1                (* ERANGE: ULONG_MAX *)
  else if neg then u64 (- mag) else mag.

(* ------------------------------------------------------------------ scan_number *)

Inductive numkind : Set := NInt (base : Z) | NFloat | NDouble | NLdouble.

(* the digit loop: push ch (unless '_'), get next, stop on a char that is no digit of the base *)
Fixpoint num_digits (base16 : bool) (ch : N) (cs : bytes) (acc : bytes) : bytes * option N * bytes :=
  (* returns (acc', current char (None = EOF), rest) *)
  let acc := if N.eqb ch 95 then acc else ch :: acc in
  match cs with
  | [] => (acc, None, [])
  | c :: r =>
      if (negb (N.eqb c 95) && negb (c_isdigit c) && negb (base16 && c_hexchar c))%bool
      then (acc, Some c, r)
      else num_digits base16 c r acc
  end.

(* do { push; next } while (isdigit (ch) || ch == '_') *)
Fixpoint dec_run (ch : N) (cs : bytes) (acc : bytes) : bytes * option N * bytes :=
  let acc := if N.eqb ch 95 then acc else ch :: acc in
  match cs with
  | [] => (acc, None, [])
  | c :: r => if (c_isdigit c || N.eqb c 95)%bool then dec_run c r acc else (acc, Some c, r)
  end.

Definition next_char (cs : bytes) : option N * bytes :=
  match cs with [] => (None, []) | c :: r => (Some c, r) end.

Definition unget (ch : option N) (cs : bytes) : bytes :=
  match ch with Some c => c :: cs | None => cs end.

Definition opt_is (ch : option N) (c : N) : bool := match ch with Some x => N.eqb x c | None => false end.
Definition opt_digit (ch : option N) : bool := match ch with Some x => c_isdigit x | None => false end.

(* ch is the first character ('+', '-' or a digit), cs the rest of the input.
   Result: the NUL-less representation, its kind, and the remaining input.  The stages follow the
   C function top to bottom. *)
Definition sn_sign (ch : N) (cs : bytes) : bytes * N * bytes :=
  if (N.eqb ch 43 || N.eqb ch 45)%bool
  then match cs with c :: r => ([ch], c, r) | [] => ([ch], 0%N, []) end
  else ([], ch, cs).

Definition sn_base (ch : N) (cs : bytes) : Z * N * bytes :=
  if N.eqb ch 48 then
    match cs with
    | c :: r => if (N.eqb c 120 || N.eqb c 88)%bool
                then match r with c2 :: r2 => (16, c2, r2) | [] => (16, 0%N, []) end
                else (8, 48%N, cs)
    | [] => (8, 48%N, [])
    end
  else (10, ch, cs).

Definition sn_frac (acc : bytes) (och : option N) (cs : bytes) : bytes * option N * bytes * bool :=
  if opt_is och 46 then let '(a, o, c) := dec_run 46 cs acc in (a, o, c, true) else (acc, och, cs, false).

Definition sn_exp (acc : bytes) (och : option N) (cs : bytes) (dbl : bool) : bytes * option N * bytes * bool :=
  if (opt_is och 101 || opt_is och 69)%bool then
    let '(o1, c1) := next_char cs in
    if (opt_is o1 43 || opt_is o1 45)%bool then
      let sgn := match o1 with Some s => s | None => 0%N end in
      let '(o2, c2) := next_char c1 in
      match o2 with
      | Some d => if c_isdigit d then let '(a, o, c) := dec_run d c2 (sgn :: 101%N :: acc) in (a, o, c, true)
                  else (sgn :: 101%N :: acc, o2, c2, true)          (* ABSENT_EXPONENT *)
      | None => (sgn :: 101%N :: acc, None, c2, true)
      end
    else match o1 with
         | Some d => if c_isdigit d then let '(a, o, c) := dec_run d c1 (101%N :: acc) in (a, o, c, true)
                     else (acc, o1, c1, true)                        (* ABSENT_EXPONENT *)
         | None => (acc, None, c1, true)
         end
  else (acc, och, cs, dbl).

Definition sn_finish (base : Z) (acc : bytes) (och : option N) (cs : bytes) (dbl : bool) : bytes * numkind * bytes :=
  let repr := rev acc in
  if dbl then
    if base =? 16 then (repr, NDouble, unget och cs)                  (* NON_DECIMAL_FLOAT, ignored *)
    else if (opt_is och 102 || opt_is och 70)%bool then (repr, NFloat, cs)
    else if (opt_is och 108 || opt_is och 76)%bool then (repr, NLdouble, cs)
    else (repr, NDouble, unget och cs)
  else (repr, NInt base, unget och cs).

Definition sn_rest (acc : bytes) (ch : N) (cs : bytes) : bytes * numkind * bytes :=
  let '(base, ch, cs) := sn_base ch cs in
  let '(acc, och, cs) := num_digits (base =? 16) ch cs acc in
  let '(acc, och, cs, dbl) := sn_frac acc och cs in
  let '(acc, och, cs, dbl) := sn_exp acc och cs dbl in
  sn_finish base acc och cs dbl.

Definition scan_number (ch : N) (cs : bytes) : bytes * numkind * bytes :=
  let '(acc, ch, cs) := sn_sign ch cs in sn_rest acc ch cs.

(* ------------------------------------------------------------------ scan_string (after the opening quote) *)

Definition oct_digit (c : N) : bool := (N.leb 48 c && N.leb c 55)%bool.
Definition hex_val (c : N) : N :=
  if c_isdigit c then (c - 48)%N else if (N.leb 97 c && N.leb c 102)%bool then (c - 87)%N else (c - 55)%N.

Fixpoint scan_str (fuel : nat) (cs : bytes) (acc : bytes) : option (bytes * bytes) :=
  match fuel with
  | O => None
  | S f =>
      match cs with
      | [] => None                                           (* unfinished string *)
      | c :: r =>
          if N.eqb c 10 then None
          else if N.eqb c 34 then Some (rev acc, r)
          else if N.eqb c 92 then
            match r with
            | [] => None
            | e :: r1 =>
                if N.eqb e 110 then scan_str f r1 (10%N :: acc)
                else if N.eqb e 116 then scan_str f r1 (9%N :: acc)
                else if N.eqb e 118 then scan_str f r1 (11%N :: acc)
                else if N.eqb e 97 then scan_str f r1 (7%N :: acc)
                else if N.eqb e 98 then scan_str f r1 (8%N :: acc)
                else if N.eqb e 114 then scan_str f r1 (13%N :: acc)
                else if N.eqb e 102 then scan_str f r1 (12%N :: acc)
                else if (N.eqb e 92 || N.eqb e 39 || N.eqb e 34)%bool then scan_str f r1 (e :: acc)
                else if N.eqb e 10 then scan_str f r1 acc            (* line continuation *)
                else if oct_digit e then
                  match r1 with
                  | d2 :: r2 =>
                      if oct_digit d2 then
                        match r2 with
                        | d3 :: r3 =>
                            if oct_digit d3
                            then scan_str f r3 ((((e - 48) * 8 + (d2 - 48)) * 8 + (d3 - 48)) mod 256 :: acc)%N
                            else scan_str f r2 (((e - 48) * 8 + (d2 - 48)) :: acc)%N
                        | [] => scan_str f r2 (((e - 48) * 8 + (d2 - 48)) :: acc)%N
                        end
                      else scan_str f r1 ((e - 48) :: acc)%N
                  | [] => scan_str f r1 ((e - 48) :: acc)%N
                  end
                else if N.eqb e 120 then
                  match r1 with
                  | h1 :: h2 :: r3 =>
                      if (c_isxdigit h1 && c_isxdigit h2)%bool
                      then scan_str f r3 ((hex_val h1 * 16 + hex_val h2) :: acc)%N
                      else None
                  | _ => None
                  end
                else scan_str f r1 (e :: acc)                        (* unknown escape: the char itself *)
            end
          else scan_str f r (c :: acc)
      end
  end.

(* append NUL if the string is non-empty and does not end with one *)
Definition nul_terminate (s : bytes) : bytes :=
  match s with
  | [] => []
  | _ => if N.eqb (last s 1%N) 0 then s else s ++ [0%N]
  end.

(* ------------------------------------------------------------------ scan_token *)

Section Lexer.
  Variables parseF parseD parseLD : bytes -> Z.

  Fixpoint name_run (cs : bytes) (acc : bytes) : bytes * bytes :=
    match cs with
    | c :: r => if name_char c false then name_run r (c :: acc) else (rev acc, cs)
    | [] => (rev acc, [])
    end.

  Fixpoint skip_comment (cs : bytes) : bytes :=
    match cs with
    | [] => []
    | c :: r => if N.eqb c 10 then r else skip_comment r
    end.

  (* one token; None = lexical error *)
  Fixpoint scan_token (fuel : nat) (cs : bytes) : option (ttok * bytes) :=
    match fuel with
    | O => None
    | S f =>
        match cs with
        | [] => Some (TEOF, [])
        | c :: r =>
            if (N.eqb c 32 || N.eqb c 9)%bool then scan_token f r
            else if N.eqb c 35 then Some (TNL, skip_comment r)
            else if N.eqb c 10 then Some (TNL, r)
            else if N.eqb c 40 then Some (TLpar, r)
            else if N.eqb c 41 then Some (TRpar, r)
            else if N.eqb c 44 then Some (TComma, r)
            else if N.eqb c 59 then Some (TSemi, r)
            else if N.eqb c 58 then Some (TCol, r)
            else if N.eqb c 34 then
              match scan_str f r [] with
              | Some (s, r') => Some (TStr (nul_terminate s), r')
              | None => None
              end
            else if name_char c true then
              let '(n, r') := name_run r [c] in Some (TName n, r')
            else if (N.eqb c 43 || N.eqb c 45 || c_isdigit c)%bool then
              if ((N.eqb c 43 || N.eqb c 45) && negb (match r with d :: _ => c_isdigit d | [] => false end))%bool
              then None                                             (* no number after a sign *)
              else
                let '(repr, kind, r') := scan_number c r in
                Some (match kind with
                      | NInt base => TInt (s64 (strtoul base repr))
                      | NFloat => TFloat (parseF repr)
                      | NDouble => TDouble (parseD repr)
                      | NLdouble => TLdouble (parseLD repr)
                      end, r')
            else None                                               (* wrong char *)
        end
    end.

  Fixpoint lex_all (fuel : nat) (cs : bytes) : option (list ttok) :=
    match fuel with
    | O => None
    | S f =>
        match scan_token f cs with
        | Some (TEOF, _) => Some [TEOF]
        | Some (t, r) => match lex_all f r with Some ts => Some (t :: ts) | None => None end
        | None => None
        end
    end.
End Lexer.

(* ------------------------------------------------------------------ str2type *)

Definition str2type (n : name) : option mtype :=
  if bytes_eqb n (str "i64") then Some TI64 else if bytes_eqb n (str "u64") then Some TU64
  else if bytes_eqb n (str "f") then Some TF else if bytes_eqb n (str "d") then Some TD
  else if bytes_eqb n (str "ld") then Some TLD else if bytes_eqb n (str "p") then Some TP
  else if bytes_eqb n (str "i32") then Some TI32 else if bytes_eqb n (str "u32") then Some TU32
  else if bytes_eqb n (str "i16") then Some TI16 else if bytes_eqb n (str "u16") then Some TU16
  else if bytes_eqb n (str "i8") then Some TI8 else if bytes_eqb n (str "u8") then Some TU8
  else if bytes_eqb n (str "blk0") then Some (TBLK 0) else if bytes_eqb n (str "blk1") then Some (TBLK 1)
  else if bytes_eqb n (str "blk2") then Some (TBLK 2) else if bytes_eqb n (str "blk3") then Some (TBLK 3)
  else if bytes_eqb n (str "blk4") then Some (TBLK 4)
  else if bytes_eqb n (str "rblk") then Some TRBLK
  else None.

(* ------------------------------------------------------------------ statement parser *)

(* what one comma-separated element of a statement was read as *)
Inductive sop : Set :=
| POp (o : operand)
| PType (t : mtype)                                   (* a type alone: func/proto result *)
| PArg (t : mtype) (n : name) (size : Z)              (* type:name, blk:size(name) *)
| PVar (t : mtype) (n : name) (hard : option name).   (* local/global: type:name[:hard] *)

Record sstate : Set := mkSstate {
  ss_mods : list module;                        (* reversed *)
  ss_mod : option (name * list item);           (* items reversed *)
  ss_func : option fstate;
  ss_labels : list (name * (Z * bool));         (* label_desc_tab of the module: name -> number, def_p *)
  ss_next : Z }.                                (* curr_label_num of the context *)

Definition sinit : sstate := mkSstate [] None None [] 0.

Fixpoint lab_find (n : name) (tab : list (name * (Z * bool))) : option (Z * bool) :=
  match tab with
  | [] => None
  | (x, v) :: r => if bytes_eqb x n then Some v else lab_find n r
  end.
Fixpoint lab_set_def (n : name) (tab : list (name * (Z * bool))) : list (name * (Z * bool)) :=
  match tab with
  | [] => []
  | (x, (k, d)) :: r => if bytes_eqb x n then (x, (k, true)) :: r else (x, (k, d)) :: lab_set_def n r
  end.

(* create_label_desc *)
Definition label_desc (st : sstate) (n : name) (def : bool) : option (Z * sstate) :=
  match lab_find n (ss_labels st) with
  | Some (k, d) =>
      if def then
        if d then None                                           (* redefinition of label *)
        else Some (k, mkSstate (ss_mods st) (ss_mod st) (ss_func st) (lab_set_def n (ss_labels st)) (ss_next st))
      else Some (k, st)
  | None =>
      let k := ss_next st + 1 in
      Some (k, mkSstate (ss_mods st) (ss_mod st) (ss_func st) ((n, (k, def)) :: ss_labels st) k)
  end.

Definition as_rstate (st : sstate) : rstate := mkRstate (ss_mods st) (ss_mod st) (ss_func st).

(* func_reg_p: arguments, locals and globals of the function under construction *)
Definition func_reg_p (fs : fstate) (n : name) : bool :=
  existsb (fun v => bytes_eqb (v_name v) n) (fs_args fs)
  || existsb (fun v => bytes_eqb (snd v) n) (fs_locals fs)
  || existsb (fun v => bytes_eqb (snd (fst v)) n) (fs_globals fs).

Inductive stkind : Set :=
| KModule | KEndmodule | KProto | KFunc | KEndfunc | KExport | KImport | KForward | KBss | KRef | KLref
| KExpr | KString | KLocal | KGlobal | KData (t : mtype) | KInsn (c : opcode).

Definition is_sig (k : stkind) : bool := match k with KProto | KFunc => true | _ => false end.
Definition is_var (k : stkind) : bool := match k with KLocal | KGlobal => true | _ => false end.

(* name of an insn -> code (insn_name_tab) *)
Definition find_insn (n : name) : option opcode :=
  find (fun c => bytes_eqb (insn_name c) n) all_opcodes.

Definition stmt_kind (n : name) : option stkind :=
  if is_kw "module" n then Some KModule else if is_kw "endmodule" n then Some KEndmodule
  else if is_kw "proto" n then Some KProto else if is_kw "func" n then Some KFunc
  else if is_kw "endfunc" n then Some KEndfunc else if is_kw "export" n then Some KExport
  else if is_kw "import" n then Some KImport else if is_kw "forward" n then Some KForward
  else if is_kw "bss" n then Some KBss else if is_kw "ref" n then Some KRef
  else if is_kw "lref" n then Some KLref else if is_kw "expr" n then Some KExpr
  else if is_kw "string" n then Some KString else if is_kw "local" n then Some KLocal
  else if is_kw "global" n then Some KGlobal
  else match str2type n with
       | Some t => Some (KData t)
       | None => match find_insn n with
                 | Some c => if portable_code c then Some (KInsn c) else None
                 | None => None
                 end
       end.

(* a NAME operand that is not followed by ':' in an insn / data / item statement *)
Definition label_position (k : stkind) (nops : nat) : bool :=
  match k with
  | KLref => true
  | KInsn c =>
      ((branch_code_p c || opcode_eqb c PRBEQ || opcode_eqb c PRBNE) && Nat.eqb nops 0)
      || (opcode_eqb c LADDR && Nat.eqb nops 1)
      || (opcode_eqb c SWITCH && negb (Nat.eqb nops 0))
  | _ => false
  end.

(* memory operand after "type :" : [disp] [ '(' [base] [',' index [',' scale]] ')' ] [aliases] *)
Definition parse_mem (regp : name -> bool) (t : mtype) (ts : list ttok) : option (operand * list ttok) :=
  let '(disp, disp_p, ts) :=
    match ts with
    | TInt d :: r => (d, true, r)
    | TName _ :: r => (0, true, r)          (* a name as displacement: the pointer value, not modelled *)
    | _ => (0, false, ts)
    end in
  match (match ts with
         | TLpar :: r =>
             let '(base, r) := match r with TName b :: r' => (Some b, r') | _ => (None, r) end in
             match r with
             | TComma :: TName i :: r1 =>
                 match r1 with
                 | TComma :: TInt sc :: TRpar :: r2 => Some (base, Some i, Z.to_N (sc mod 256), r2)
                 | TRpar :: r2 => Some (base, Some i, 1%N, r2)
                 | _ => None
                 end
             | TRpar :: r1 => Some (base, None, 1%N, r1)
             | _ => None
             end
         | _ => if disp_p then Some (None, None, 1%N, ts) else None
         end) with
  | None => None
  | Some (base, index, scale, ts) =>
      if negb ((match base with Some b => regp b | None => true end)
               && (match index with Some i => regp i | None => true end))%bool then None   (* MIR_reg: undeclared *)
      else
      match ts with
      | TCol :: TCol :: TName na :: r => Some (OMem (mkMem t disp base index scale None (Some na)), r)
      | TCol :: TCol :: _ => None
      | TCol :: TName a :: TCol :: TName na :: r => Some (OMem (mkMem t disp base index scale (Some a) (Some na)), r)
      | TCol :: TName a :: TCol :: _ => None
      | TCol :: TName a :: r => Some (OMem (mkMem t disp base index scale (Some a) None), r)
      | TCol :: _ => None
      | _ => Some (OMem (mkMem t disp base index scale None None), ts)
      end
  end.

Inductive op_res : Set :=
| OpPush (o : sop) (st : sstate) (rest : list ttok)     (* an element was read *)
| OpItem (st : sstate) (rest : list ttok)               (* export/import/forward name: item created *)
| OpDots (rest : list ttok)
| OpErr.

(* one operand of the statement; ts starts at the operand *)
Definition parse_op (k : stkind) (nops : nat) (st : sstate) (ts : list ttok) : op_res :=
  match ts with
  | TName n :: r =>
      if (is_sig k && bytes_eqb n (str "..."))%bool then OpDots r
      else
        let colon := match r with TCol :: _ => true | _ => false end in
        if (negb colon && negb (is_sig k) && negb (is_var k))%bool then
          match k with
          | KExport => match add_item (as_rstate st) (ItExport n) with
                       | Some rs => OpItem (mkSstate (rs_mods rs) (rs_mod rs) (rs_func rs) (ss_labels st) (ss_next st)) r
                       | None => OpErr end
          | KImport => match add_item (as_rstate st) (ItImport n) with
                       | Some rs => OpItem (mkSstate (rs_mods rs) (rs_mod rs) (rs_func rs) (ss_labels st) (ss_next st)) r
                       | None => OpErr end
          | KForward => match add_item (as_rstate st) (ItForward n) with
                        | Some rs => OpItem (mkSstate (rs_mods rs) (rs_mod rs) (rs_func rs) (ss_labels st) (ss_next st)) r
                        | None => OpErr end
          | _ =>
              if (label_position k nops && negb (match k with KModule | KEndmodule | KEndfunc => true | _ => false end))%bool then
                match label_desc st n false with
                | Some (l, st') => OpPush (POp (OLabel l)) st' r
                | None => OpErr
                end
              else if (negb (match k with KExpr | KRef => true | _ => false end)
                       && match ss_func st with Some fs => func_reg_p fs n | None => false end)%bool
              then OpPush (POp (OReg n)) st r
              else if declared (as_rstate st) n then OpPush (POp (ORef n)) st r
              else OpErr                                             (* undeclared name *)
          end
        else
          match (match str2type n with
                 | None => if (bytes_eqb n (str "undef") && negb (is_sig k) && negb (is_var k))%bool
                           then Some TUNDEF else None               (* va_list memory *)
                 | s => s
                 end) with
          | None => OpErr                                            (* Unknown type *)
          | Some t =>
              if (is_var k && negb (match t with TI64 | TF | TD | TLD => true | _ => false end))%bool then OpErr
              else if (is_sig k || is_var k)%bool then
                match r with
                | TCol :: TName a :: r1 =>
                    match k with
                    | KGlobal =>
                        match r1 with
                        | TCol :: TName h :: r2 => OpPush (PVar t a (Some h)) st r2
                        | _ => OpErr
                        end
                    | KLocal => OpPush (PVar t a None) st r1
                    | _ => OpPush (PArg t a 0) st r1
                    end
                | TCol :: TInt sz :: TLpar :: TName a :: TRpar :: r1 =>
                    if (is_var k || negb (all_blk_type_p t) || (sz <? 0))%bool then OpErr
                    else OpPush (PArg t a sz) st r1
                | TCol :: _ => OpErr
                | _ => OpPush (PType t) st r
                end
              else
                match r with
                | TCol :: r1 =>
                    match parse_mem (fun x => match ss_func st with Some fs => func_reg_p fs x | None => false end) t r1 with
                    | Some (o, r2) => OpPush (POp o) st r2
                    | None => OpErr
                    end
                | _ => OpErr
                end
          end
  | TInt i :: r => OpPush (POp (OInt i)) st r
  | TFloat b :: r => OpPush (POp (OFloat b)) st r
  | TDouble b :: r => OpPush (POp (ODouble b)) st r
  | TLdouble b :: r => OpPush (POp (OLdouble b)) st r
  | TStr s :: r => OpPush (POp (OStr s)) st r
  | _ => OpErr
  end.

(* the ops loop: elements separated by commas up to NL / ';' / EOF; returns the elements in order,
   whether "..." was seen, the state and the tokens after the statement terminator *)
Fixpoint parse_ops (fuel : nat) (k : stkind) (st : sstate) (acc : list sop) (ts : list ttok)
  : option (list sop * bool * sstate * list ttok) :=
  match fuel with
  | O => None
  | S f =>
      match ts with
      | TNL :: r | TSemi :: r => Some (rev acc, false, st, r)
      | _ =>
          let continue (acc : list sop) (st : sstate) (r : list ttok) :=
            match r with
            | TComma :: r' => parse_ops f k st acc r'
            | TNL :: r' | TSemi :: r' => Some (rev acc, false, st, r')
            | TEOF :: _ => Some (rev acc, false, st, r)
            | _ => None                                              (* wrong insn end *)
            end in
          match parse_op k (length acc) st ts with
          | OpPush o st' r => continue (o :: acc) st' r
          | OpItem st' r => continue acc st' r
          | OpDots r =>
              match r with
              | TNL :: r' | TSemi :: r' => Some (rev acc, true, st, r')
              | TEOF :: _ => Some (rev acc, true, st, r)
              | _ => None
              end
          | OpErr => None
          end
      end
  end.

Definition all_ops (l : list sop) : option (list operand) :=
  fold_right (fun s acc => match s, acc with POp o, Some r => Some (o :: r) | _, _ => None end) (Some []) l.

(* read_func_proto: result types first, then named args *)
Fixpoint split_sig (l : list sop) : option (list mtype * list var) :=
  match l with
  | PType t :: r => match split_sig r with Some (ts, vs) => Some (t :: ts, vs) | None => None end
  | _ => match fold_right (fun s acc => match s, acc with
                                        | PArg t n sz, Some vs => Some (mkVar t n sz :: vs)
                                        | _, _ => None end) (Some []) l with
         | Some vs => Some ([], vs)
         | None => None
         end
  end.

Definition data_el (t : mtype) (o : operand) : option Z :=
  match t, o with
  | TI8, OInt i => Some (swrap 8 i) | TU8, OInt i => Some (uwrap 8 i)
  | TI16, OInt i => Some (swrap 16 i) | TU16, OInt i => Some (uwrap 16 i)
  | TI32, OInt i => Some (swrap 32 i) | TU32, OInt i => Some (uwrap 32 i)
  | TI64, OInt i => Some (swrap 64 i) | TU64, OInt i => Some (uwrap 64 i)
  | TP, OInt i => Some (uwrap 64 i)
  | TF, OFloat b => Some b | TD, ODouble b => Some b | TLD, OLdouble b => Some b
  | _, _ => None
  end.

Fixpoint map_opt {A B} (f : A -> option B) (l : list A) : option (list B) :=
  match l with
  | [] => Some []
  | x :: r => match f x, map_opt f r with Some y, Some ys => Some (y :: ys) | _, _ => None end
  end.

Definition set_core (st : sstate) (rs : rstate) : sstate :=
  mkSstate (rs_mods rs) (rs_mod rs) (rs_func rs) (ss_labels st) (ss_next st).

Definition opt_label (labs : list name) : option (option name) :=
  match labs with [] => Some None | [n] => Some (Some n) | _ => None end.

(* define the labels in front of an insn (or of endfunc) and append them to the open function *)
Fixpoint def_labels (st : sstate) (labs : list name) : option sstate :=
  match labs with
  | [] => Some st
  | n :: r =>
      match label_desc st n true with
      | None => None
      | Some (l, st1) =>
          let st2 := match ss_func st1 with
                     | Some fs => mkSstate (ss_mods st1) (ss_mod st1)
                                    (Some (mkFstate (fs_name fs) (fs_vararg fs) (fs_res fs) (fs_args fs) (fs_locals fs)
                                             (fs_globals fs) (ILabel l :: fs_insns fs))) (ss_labels st1) (ss_next st1)
                     | None => st1
                     end in
          def_labels st2 r
      end
  end.

Fixpoint skip_nl (ts : list ttok) : list ttok :=
  match ts with TNL :: r => skip_nl r | _ => ts end.

(* labels, statement name and the position after it: {name ':' NL*}* name  (after a label any number of
   newline tokens - empty and comment-only lines - is skipped: while (t.code == TC_NL) scan_token) *)
Fixpoint parse_labels (fuel : nat) (ts : list ttok) (acc : list name) : option (list name * name * list ttok) :=
  match fuel with
  | O => None
  | S f =>
      match ts with
      | TName n :: TCol :: r => parse_labels f (skip_nl r) (n :: acc)
      | TName n :: r => Some (rev acc, n, r)
      | _ => None
      end
  end.

Inductive sstep : Set := SNext (st : sstate) (rest : list ttok) | SDone (st : sstate) | SFail (why : string).

Definition add_named (st : sstate) (labs : list name) (mk : option name -> option item) : option sstate :=
  match opt_label labs with
  | None => None
  | Some n => match mk n with
              | None => None
              | Some it => match add_item (as_rstate st) it with
                           | Some rs => Some (set_core st rs)
                           | None => None
                           end
              end
  end.

(* what a statement does once its labels, kind and operands are known *)
Definition stmt_exec (k : stkind) (labs : list name) (st1 : sstate) (sops : list sop) (dots : bool)
  (rest : list ttok) : sstep :=
  let fail := SFail "wrong statement" in
  let ok (o : option sstate) := match o with Some s => SNext s rest | None => fail end in
  match k with
  | KModule =>
      match ss_mod st1, sops, labs with
      | None, [], [n] =>
          SNext (mkSstate (ss_mods st1) (Some (n, [])) (ss_func st1) [] (ss_next st1)) rest
      | _, _, _ => fail
      end
  | KEndmodule =>
      match ss_mod st1, sops with
      | Some (n, items), [] =>
          SNext (mkSstate (mkModule n (rev items) :: ss_mods st1) None (ss_func st1)
                   (ss_labels st1) (ss_next st1)) rest
      | _, _ => fail
      end
  | KBss =>
      match sops with
      | [POp (OInt len)] =>
          if len <? 0 then fail else ok (add_named st1 labs (fun n => Some (ItBss n len)))
      | _ => fail
      end
  | KRef =>
      match sops with
      | [POp (ORef it); POp (OInt d)] => ok (add_named st1 labs (fun n => Some (ItRef n it d)))
      | _ => fail
      end
  | KLref =>
      match sops with
      | [POp (OLabel l)] => ok (add_named st1 labs (fun n => Some (ItLref n l None 0)))
      | [POp (OLabel l); POp (OLabel l2)] => ok (add_named st1 labs (fun n => Some (ItLref n l (Some l2) 0)))
      | [POp (OLabel l); POp (OInt d)] => ok (add_named st1 labs (fun n => Some (ItLref n l None d)))
      | [POp (OLabel l); POp (OLabel l2); POp (OInt d)] =>
          ok (add_named st1 labs (fun n => Some (ItLref n l (Some l2) d)))
      | _ => fail
      end
  | KExpr =>
      match sops with
      | [POp (ORef f)] =>
          if declared_func (as_rstate st1) f then ok (add_named st1 labs (fun n => Some (ItExpr n f)))
          else fail
      | _ => fail
      end
  | KString =>
      match sops with
      | [POp (OStr s)] => ok (add_named st1 labs (fun n => Some (ItData n TU8 (map Z.of_N s))))
      | _ => fail
      end
  | KProto =>
      match ss_mod st1, split_sig sops, labs with
      | Some _, Some (res, args), [n] =>
          ok (match add_item (as_rstate st1) (ItProto n dots res args) with
              | Some rs => Some (set_core st1 rs) | None => None end)
      | _, _, _ => fail
      end
  | KFunc =>
      match ss_mod st1, ss_func st1, split_sig sops, labs with
      | Some _, None, Some (res, args), [n] =>
          SNext (mkSstate (ss_mods st1) (ss_mod st1) (Some (mkFstate n dots res args [] [] []))
                   (ss_labels st1) (ss_next st1)) rest
      | _, _, _, _ => fail
      end
  | KEndfunc =>
      match ss_mod st1, ss_func st1, sops with
      | Some (n, items), Some fs, [] =>
          SNext (mkSstate (ss_mods st1) (Some (n, ItFunc (close_func fs) :: items)) None
                   (ss_labels st1) (ss_next st1)) rest
      | _, _, _ => fail
      end
  | KExport | KImport | KForward => match sops with [] => SNext st1 rest | _ => fail end
  | KLocal | KGlobal =>
      match ss_func st1 with
      | None => fail
      | Some fs =>
          match fold_left (fun acc s =>
                    match acc, s with
                    | Some (ls, gs), PVar t n None => Some ((t, n) :: ls, gs)
                    | Some (ls, gs), PVar t n (Some h) => Some (ls, (t, n, h) :: gs)
                    | _, _ => None
                    end) sops (Some (fs_locals fs, fs_globals fs)) with
          | Some (ls, gs) =>
              SNext (mkSstate (ss_mods st1) (ss_mod st1)
                       (Some (mkFstate (fs_name fs) (fs_vararg fs) (fs_res fs) (fs_args fs) ls gs
                                (fs_insns fs))) (ss_labels st1) (ss_next st1)) rest
          | None => fail
          end
      end
  | KData t =>
      match all_ops sops with
      | Some ops =>
          match map_opt (data_el t) ops with
          | Some els => ok (add_named st1 labs (fun n => Some (ItData n t els)))
          | None => fail
          end
      | None => fail
      end
  | KInsn c =>
      match all_ops sops with
      | Some ops =>
          if (negb (var_arity c) && negb (Nat.eqb (length ops) (insn_nops c)))%bool then fail
          else
            match ss_func st1 with
            | Some fs =>
                SNext (mkSstate (ss_mods st1) (ss_mod st1)
                         (Some (mkFstate (fs_name fs) (fs_vararg fs) (fs_res fs) (fs_args fs)
                                  (fs_locals fs) (fs_globals fs) (IInsn c ops :: fs_insns fs)))
                         (ss_labels st1) (ss_next st1)) rest
            | None => SNext st1 rest            (* insn outside a function is dropped *)
            end
      | None => fail
      end
  end.

(* the label count rules, checked before the operands *)
Definition label_count_bad (k : stkind) (nl : nat) : bool :=
  match k with
  | KModule | KProto | KFunc => negb (Nat.eqb nl 1)
  | KEndmodule | KExport | KImport | KForward | KLocal | KGlobal => negb (Nat.eqb nl 0)
  | KEndfunc | KInsn _ => false
  | _ => Nat.ltb 1 nl
  end.

Definition scan_body (fuel : nat) (st : sstate) (ts1 : list ttok) : sstep :=
  match parse_labels fuel ts1 [] with
  | None => SFail "insn should start with label or insn name"
  | Some (labs, nm, ts2) =>
      match stmt_kind nm with
      | None => SFail "unknown insn"
      | Some k =>
          if label_count_bad k (length labs) then SFail "wrong number of labels"
          else if (is_var k && negb (is_some (ss_func st)))%bool then SFail "local/global outside func"
          else
            match (match k with KInsn _ | KEndfunc => def_labels st labs | _ => Some st end) with
            | None => SFail "redefinition of label"
            | Some st0 =>
                if (match k, ss_func st with KEndfunc, None => negb (Nat.eqb (length labs) 0) | _, _ => false end)
                then SFail "endfunc should have no labels" else
                match parse_ops fuel k st0 [] ts2 with
                | None => SFail "wrong operand or insn end"
                | Some (sops, dots, st1, rest) => stmt_exec k labs st1 sops dots rest
                end
            end
      end
  end.

Definition scan_stmt (fuel : nat) (st : sstate) (ts : list ttok) : sstep :=
  match skip_nl ts with
  | TEOF :: _ => SDone st
  | ts1 => scan_body fuel st ts1
  end.

Fixpoint scan_loop (fuel : nat) (st : sstate) (ts : list ttok) : res (list module) :=
  match fuel with
  | O => Err "out of fuel"
  | S f =>
      match scan_stmt (S f) st ts with
      | SNext st' r => scan_loop f st' r
      | SDone st' =>
          match ss_mod st', ss_func st' with
          | None, None => Ok (rev (ss_mods st'))
          | _, _ => Err "absent endfunc or endmodule"
          end
      | SFail w => Err w
      end
  end.

Section Scanner.
  Variables parseF parseD parseLD : bytes -> Z.

  (* MIR_scan_string on a fresh context *)
  Definition scan_ctx (cs : bytes) : res (list module) :=
    match lex_all parseF parseD parseLD (S (S (S (length cs)))) cs with
    | None => Err "lexical error"
    | Some ts => scan_loop (S (S (length ts))) sinit ts
    end.
End Scanner.

(* Model of the textual MIR writer: MIR_output_str / _op / _insn / _item / _module / MIR_output
   (mir.c "output_*").  Output is a list of characters ([N] < 256).  Definitions only.
   Floating point immediates are printed by three functions supplied from outside (libc printf
   %.*e with FLT/DBL/LDBL_MANT_DIG digits, suffix f / none / L): bit pattern -> lexeme. *)
From Coq Require Import List ZArith NArith Bool String Ascii.
From MirV Require Import Mir.Opcode C11.Tables C11.Ast.
Import ListNotations.
Local Open Scope Z_scope.
Local Notation length := List.length.

(* ------------------------------------------------------------------ numbers *)

Definition digit_char (d : Z) : N := Z.to_N (48 + d).

(* decimal digits of a non-negative number, most significant first; fuel >= number of digits *)
Fixpoint dec_digits (fuel : nat) (z : Z) (acc : bytes) : bytes :=
  match fuel with
  | O => acc
  | S f => if z <? 10 then digit_char z :: acc else dec_digits f (z / 10) (digit_char (z mod 10) :: acc)
  end.

Definition p_nat (z : Z) : bytes := dec_digits (S (Z.to_nat (Z.log2 z))) z [].      (* %lu / PRIu64 *)
Definition p_int (z : Z) : bytes := if z <? 0 then 45%N :: p_nat (- z) else p_nat z.   (* PRId64 *)

Definition hex_char (d : Z) : N := Z.to_N (if d <? 10 then 48 + d else 87 + d).
Fixpoint hex_digits (fuel : nat) (z : Z) (acc : bytes) : bytes :=
  match fuel with
  | O => acc
  | S f => if z <? 16 then hex_char z :: acc else hex_digits f (z / 16) (hex_char (z mod 16) :: acc)
  end.
Definition p_hex (z : Z) : bytes := hex_digits (S (Z.to_nat (Z.log2 z))) z [].      (* %lx *)

(* ------------------------------------------------------------------ MIR_output_str *)

Definition isprint (c : N) : bool := (N.leb 32 c && N.leb c 126)%bool.      (* C locale *)

Definition oct3 (c : N) : bytes :=
  [(48 + c / 64)%N; (48 + (c / 8) mod 8)%N; (48 + c mod 8)%N].

Definition out_char (c : N) : bytes :=
  if N.eqb c 92 then [92; 92]%N                 (* two backslashes *)
  else if N.eqb c 34 then [92; 34]%N            (* backslash dquote *)
  else if isprint c then [c]
  else if N.eqb c 10 then [92; 110]%N           (* \n *)
  else if N.eqb c 9 then [92; 116]%N            (* \t *)
  else if N.eqb c 11 then [92; 118]%N           (* \v *)
  else if N.eqb c 7 then [92; 97]%N             (* \a *)
  else if N.eqb c 8 then [92; 98]%N             (* \b *)
  else if N.eqb c 12 then [92; 102]%N           (* \f *)
  else 92%N :: oct3 c.                          (* \%03o *)

Definition output_str (s : bytes) : bytes := [34%N] ++ flat_map out_char s ++ [34%N].

(* ------------------------------------------------------------------ types *)

Definition type_str (t : mtype) : bytes :=
  match t with
  | TI8 => str "i8" | TU8 => str "u8" | TI16 => str "i16" | TU16 => str "u16"
  | TI32 => str "i32" | TU32 => str "u32" | TI64 => str "i64" | TU64 => str "u64"
  | TF => str "f" | TD => str "d" | TLD => str "ld" | TP => str "p"
  | TBLK n => str "blk" ++ p_nat (Z.of_N n)
  | TRBLK => str "rblk"
  | TUNDEF => str "undef"
  end.

Definition comma : bytes := str ", ".
Definition tab : bytes := [9%N].
Definition nl : bytes := [10%N].

Definition sep_list {A} (sep : bytes) (f : A -> bytes) (l : list A) : bytes :=
  match l with
  | [] => []
  | x :: r => f x ++ flat_map (fun y => sep ++ f y) r
  end.

Definition opt_bytes (o : option bytes) : bytes := match o with Some b => b | None => [] end.

Section Printer.
  Variables fmtF fmtD fmtLD : Z -> bytes.

  (* MIR_output_op, MIR_OP_MEM *)
  Definition p_mem (m : mem) : bytes :=
    type_str (m_type m) ++ str ":"
    ++ (if negb (m_disp m =? 0) || (negb (is_some (m_base m)) && negb (is_some (m_index m)))
        then p_int (m_disp m) else [])
    ++ (if is_some (m_base m) || is_some (m_index m) then
          str "(" ++ opt_bytes (m_base m)
          ++ (match m_index m with
              | Some i => comma ++ i ++ (if N.eqb (m_scale m) 1 then [] else comma ++ p_nat (Z.of_N (m_scale m)))
              | None => []
              end)
          ++ str ")"
        else [])
    ++ (if is_some (m_alias m) || is_some (m_nonalias m) then
          str ":" ++ opt_bytes (m_alias m)
          ++ (match m_nonalias m with Some a => str ":" ++ a | None => [] end)
        else []).

  Definition p_label (l : Z) : bytes := str "L" ++ p_int l.

  Definition p_op (o : operand) : bytes :=
    match o with
    | OReg r => r
    | OInt i => p_int i
    | OUint u => p_nat u
    | OFloat b => fmtF b
    | ODouble b => fmtD b
    | OLdouble b => fmtLD b
    | OMem m => p_mem m
    | ORef n => n
    | OStr s => output_str s
    | OLabel l => p_label l
    end.

  Definition insn_name (c : opcode) : bytes := str (fst (insn_desc c)).

  (* MIR_output_insn with newline_p *)
  Definition p_insn (i : insn) : bytes :=
    match i with
    | ILabel l => p_label l ++ str ":" ++ nl
    | IInsn c ops =>
        tab ++ insn_name c
        ++ (match ops with [] => [] | _ => tab ++ sep_list comma p_op ops end)
        ++ nl
    end.

  Definition p_arg (v : var) : bytes :=
    if all_blk_type_p (v_type v)
    then type_str (v_type v) ++ str ":" ++ p_nat (v_size v) ++ str "(" ++ v_name v ++ str ")"
    else type_str (v_type v) ++ str ":" ++ v_name v.

  (* output_func_proto: result types, then args, all separated by comma-blank *)
  Definition p_proto_tail (vararg : bool) (res : list mtype) (args : list var) : bytes :=
    sep_list comma (fun x => x) (map type_str res ++ map p_arg args)
    ++ (if vararg then (match res, args with [], [] => str "..." | _, _ => str ", ..." end) else [])
    ++ nl.

  (* output_vars: eight per line *)
  Fixpoint p_vars_from {A} (prefix : bytes) (f : A -> bytes) (i : nat) (vs : list A) : bytes :=
    match vs with
    | [] => []
    | v :: r =>
        (if Nat.eqb (Nat.modulo i 8) 0
         then (if Nat.eqb i 0 then [] else nl) ++ tab ++ prefix ++ tab
         else comma)
        ++ f v ++ p_vars_from prefix f (S i) r
    end.
  Definition p_vars {A} (prefix : string) (f : A -> bytes) (vs : list A) : bytes :=
    match vs with [] => [] | _ => p_vars_from (str prefix) f 0 vs ++ nl end.

  Definition p_local (v : mtype * name) : bytes := type_str (fst v) ++ str ":" ++ snd v.
  Definition p_global (v : mtype * name * name) : bytes :=
    type_str (fst (fst v)) ++ str ":" ++ snd (fst v) ++ str ":" ++ snd v.

  Definition plural (n : nat) : bytes := if Nat.eqb n 1 then [] else str "s".

  Definition p_func (f : func) : bytes :=
    f_name f ++ str ":" ++ tab ++ str "func" ++ tab ++ p_proto_tail (f_vararg f) (f_res f) (f_args f)
    ++ p_vars "local" p_local (f_locals f) ++ p_vars "global" p_global (f_globals f)
    ++ nl ++ str "# " ++ p_nat (Z.of_nat (length (f_args f))) ++ str " arg" ++ plural (length (f_args f))
    ++ str ", " ++ p_nat (Z.of_nat (length (f_locals f))) ++ str " local" ++ plural (length (f_locals f))
    ++ str ", " ++ p_nat (Z.of_nat (length (f_globals f))) ++ str " global" ++ plural (length (f_globals f))
    ++ nl
    ++ flat_map p_insn (f_insns f)
    ++ tab ++ str "endfunc" ++ nl.

  (* _MIR_output_data_item_els *)
  Definition p_el (t : mtype) (z : Z) : bytes :=
    match t with
    | TI8 | TI16 | TI32 | TI64 => p_int z
    | TU8 | TU16 | TU32 | TU64 => p_nat z
    | TF => fmtF z | TD => fmtD z | TLD => fmtLD z
    | TP => str "0x" ++ p_hex z
    | TBLK _ | TRBLK | TUNDEF => []
    end.

  Definition p_optname (n : option name) : bytes :=
    match n with Some x => x ++ str ":" | None => [] end.

  Definition p_item (it : item) : bytes :=
    match it with
    | ItExport n => tab ++ str "export" ++ tab ++ n ++ nl
    | ItImport n => tab ++ str "import" ++ tab ++ n ++ nl
    | ItForward n => tab ++ str "forward" ++ tab ++ n ++ nl
    | ItBss n len => p_optname n ++ tab ++ str "bss" ++ tab ++ p_nat len ++ nl
    | ItRef n r d => p_optname n ++ tab ++ str "ref" ++ tab ++ r ++ comma ++ p_int d ++ nl
    | ItLref n l l2 d =>
        p_optname n ++ tab ++ str "lref" ++ tab ++ p_label l
        ++ (match l2 with Some x => comma ++ p_label x | None => [] end)
        ++ (if d =? 0 then [] else comma ++ p_int d) ++ nl
    | ItExpr n f => p_optname n ++ tab ++ str "expr" ++ tab ++ f ++ nl
    | ItData n t els =>
        p_optname n ++ tab ++ type_str t ++ tab ++ sep_list comma (p_el t) els
        ++ (match t, els with
            | TU8, _ :: _ => if last els 1 =? 0 then str " # " ++ output_str (map Z.to_N els) else []
            | _, _ => []
            end)
        ++ nl
    | ItProto n va res args => n ++ str ":" ++ tab ++ str "proto" ++ tab ++ p_proto_tail va res args
    | ItFunc f => p_func f
    end.

  Definition p_module (m : module) : bytes :=
    mod_name m ++ str ":" ++ tab ++ str "module" ++ nl
    ++ flat_map p_item (mod_items m) ++ tab ++ str "endmodule" ++ nl.

  Definition p_ctx (ms : list module) : bytes := flat_map p_module ms.
End Printer.

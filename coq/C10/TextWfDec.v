(* A boolean checker for the hypotheses of the text round trip theorems, sound w.r.t. [cctx_ok],
   [Forall tmodule_ok] and [text_stable]: run by the correspondence driver on every generated
   context, so the evidence shows which share of the generated cases the theorems speak about.
   Also: the scanner's renaming of labels preserves [text_stable], which gives the checked form of
   the whole statement (scan = renamed modules up to tnorm, and that normal form prints identically). *)
From Coq Require Import List ZArith NArith Bool String Lia.
From MirV Require Import Base.W64 Mir.Opcode C11.Tables C11.Ast C11.BinIO C11.BinIOProofs C11.BinGrammarProofs C11.BinRoundtrip
  C11.BinWfDec C11.TempNames
  C10.TextOut C10.TextScan C10.TextProofs C10.LexProofs C10.TextTokens C10.ParseProofs C10.PrintNormProofs
  C10.LexAllProofs C10.TextFixpoint.
Import ListNotations.
Local Open Scope Z_scope.
Local Notation length := List.length.

Lemma forallb_Forall {A} (f : A -> bool) (P : A -> Prop) l :
  (forall x, f x = true -> P x) -> forallb f l = true -> Forall P l.
Proof. intros H Hf. apply Forall_forall. intros x Hx. apply H. exact (proj1 (forallb_forall f l) Hf x Hx). Qed.

(* ---------------------------------------------------------------- float lexemes *)

Definition float_lexeme_b (body : bytes) : bool :=
  let '(neg, b1) := match body with
                    | c :: r => if N.eqb c 45 then (true, r) else (false, body)
                    | [] => (false, [])
                    end in
  match b1 with
  | d0 :: dot :: r =>
      let n := digit_run r in
      N.eqb dot 46 && c_isdigit d0
      && match skipn n r with
         | e :: es :: ex =>
             N.eqb e 101 && (N.eqb es 43 || N.eqb es 45) && forallb c_isdigit ex
             && negb (match ex with [] => true | _ => false end)
         | _ => false
         end
  | _ => false
  end.

Lemma firstn_digit_run r : all_digits (firstn (digit_run r) r).
Proof.
  induction r as [|c r IH]; [constructor|]. cbn [digit_run]. destruct (c_isdigit c) eqn:E; [|constructor].
  cbn [firstn]. constructor; assumption.
Qed.

Lemma float_lexeme_b_spec body : float_lexeme_b body = true -> float_lexeme body.
Proof.
  unfold float_lexeme_b.
  set (p := match body with c :: r => if N.eqb c 45 then (true, r) else (false, body) | [] => (false, []) end).
  assert (Hp : body = (if fst p then [45%N] else []) ++ snd p).
  { unfold p. destruct body as [|c r]; [reflexivity|]. destruct (N.eqb_spec c 45) as [->|]; reflexivity. }
  destruct p as [neg b1]. cbn [fst snd] in Hp.
  destruct b1 as [|d0 [|dot r]]; try discriminate.
  rewrite !andb_true_iff. intros [[Hdot Hd0] H].
  destruct (skipn (digit_run r) r) as [|e [|es ex]] eqn:Esk; try discriminate.
  rewrite !andb_true_iff in H. destruct H as [[[He Hes] Hex] Hne].
  apply N.eqb_eq in Hdot, He. subst dot e.
  exists neg, d0, (firstn (digit_run r) r), es, ex.
  split; [|split; [assumption|split; [apply firstn_digit_run|split; [|split]]]].
  - rewrite Hp. unfold float_body. f_equal. f_equal. f_equal.
    rewrite <- (firstn_skipn (digit_run r) r) at 1. now rewrite Esk.
  - apply orb_true_iff in Hes. destruct Hes as [H|H]; apply N.eqb_eq in H; [now left | now right].
  - eapply forallb_Forall; [|exact Hex]. tauto.
  - destruct ex; [discriminate | discriminate].
Qed.

Section Dec.
  Variables pF pD pLD : bytes -> Z.
  Variables fF fD fLD : Z -> bytes.

  (* last character is the suffix, the rest is a float lexeme that parses back to the bits *)
  Definition ok_suffixed (p : bytes -> Z) (f : Z -> bytes) (suffix : N) (b : Z) : bool :=
    match rev (f b) with
    | last :: rbody => N.eqb last suffix && float_lexeme_b (rev rbody) && (p (rev rbody) =? b)
    | [] => false
    end.

  Lemma ok_suffixed_spec p f suffix b : ok_suffixed p f suffix b = true ->
    exists body, f b = body ++ [suffix] /\ float_lexeme body /\ p body = b.
  Proof.
    unfold ok_suffixed. destruct (rev (f b)) as [|last rbody] eqn:E; [discriminate|].
    rewrite !andb_true_iff. intros [[H1 H2] H3]. apply N.eqb_eq in H1. subst last.
    exists (rev rbody). split; [|split; [now apply float_lexeme_b_spec | now apply Z.eqb_eq]].
    rewrite <- (rev_involutive (f b)), E. reflexivity.
  Qed.

  Definition okF_b (b : Z) : bool := ok_suffixed pF fF 102 b.
  Definition okD_b (b : Z) : bool := float_lexeme_b (fD b) && (pD (fD b) =? b).
  Definition okLD_b (b : Z) : bool := ok_suffixed pLD fLD 76 b.

  Lemma okF_b_spec b : okF_b b = true -> okF pF fF b.
  Proof. apply ok_suffixed_spec. Qed.
  Lemma okLD_b_spec b : okLD_b b = true -> okLD pLD fLD b.
  Proof. apply ok_suffixed_spec. Qed.
  Lemma okD_b_spec b : okD_b b = true -> okD pD fD b.
  Proof. unfold okD_b, okD. rewrite andb_true_iff. intros [H1 H2]. split; [now apply float_lexeme_b_spec | now apply Z.eqb_eq]. Qed.

  (* ---------------------------------------------------------------- characters: cctx_ok *)

  Definition ident_opt_b (o : option name) : bool := match o with Some n => is_ident_b n | None => true end.
  Lemma ident_opt_b_spec o : ident_opt_b o = true -> ident_opt o.
  Proof. destruct o; cbn; [apply is_ident_b_spec | tauto]. Qed.

  Definition s64_rng (z : Z) : bool := in_rng (- 2 ^ 63) (2 ^ 63) z.
  Definition u64_rng (z : Z) : bool := in_rng 0 (2 ^ 64) z.
  Definition u63_rng (z : Z) : bool := in_rng 0 (2 ^ 63) z.
  Lemma s64_rng_spec z : s64_rng z = true -> in_s64 z.
  Proof. intros H. apply in_rng_spec in H. exact H. Qed.
  Lemma u64_rng_spec z : u64_rng z = true -> in_u64 z.
  Proof. intros H. apply in_rng_spec in H. exact H. Qed.
  Lemma u63_rng_spec z : u63_rng z = true -> 0 <= z < 2 ^ 63.
  Proof. intros H. apply in_rng_spec in H. exact H. Qed.

  Definition is_bytes_b (s : bytes) : bool := forallb (fun c => N.ltb c 256) s.
  Lemma is_bytes_b_spec s : is_bytes_b s = true -> is_bytes s.
  Proof. apply forallb_Forall. intros c H. now apply N.ltb_lt. Qed.

  Definition cmem_ok_b (m : mem) : bool :=
    wf_mtype_b (m_type m) && s64_rng (m_disp m) && ident_opt_b (m_base m) && ident_opt_b (m_index m)
    && ident_opt_b (m_alias m) && ident_opt_b (m_nonalias m).
  Lemma cmem_ok_b_spec m : cmem_ok_b m = true -> cmem_ok m.
  Proof.
    unfold cmem_ok_b, cmem_ok. rewrite !andb_true_iff. intros [[[[[H1 H2] H3] H4] H5] H6].
    repeat split; try (now apply wf_mtype_b_spec); try (now apply ident_opt_b_spec); apply s64_rng_spec in H2; apply H2.
  Qed.

  Definition cop_ok_b (o : operand) : bool :=
    match o with
    | OReg r | ORef r => is_ident_b r
    | OInt i => s64_rng i
    | OUint u => u64_rng u
    | OFloat b => okF_b b
    | ODouble b => okD_b b
    | OLdouble b => okLD_b b
    | OMem m => cmem_ok_b m && N.ltb (m_scale m) 256
    | OStr s => is_bytes_b s
    | OLabel l => u63_rng l
    end.

  Lemma cop_ok_b_spec o : cop_ok_b o = true -> cop_ok' pF pD pLD fF fD fLD o.
  Proof.
    unfold cop_ok'. destruct o as [r|i|u|b|b|b|m|n|s|l]; cbn [cop_ok_b cop_ok]; intros H;
      try (split; [|exact I]).
    - now apply is_ident_b_spec.
    - now apply s64_rng_spec.
    - now apply u64_rng_spec.
    - now apply okF_b_spec.
    - now apply okD_b_spec.
    - now apply okLD_b_spec.
    - apply andb_true_iff in H. destruct H as [H1 H2]. split; [now apply cmem_ok_b_spec | now apply N.ltb_lt].
    - now apply is_ident_b_spec.
    - now apply is_bytes_b_spec.
    - now apply u63_rng_spec.
  Qed.

  Definition cinsn_ok_b (i : insn) : bool :=
    match i with
    | ILabel l => u63_rng l
    | IInsn c ops => readable_code c && forallb cop_ok_b ops
    end.
  Lemma cinsn_ok_b_spec i : cinsn_ok_b i = true -> cinsn_ok pF pD pLD fF fD fLD i.
  Proof.
    destruct i as [l|c ops]; cbn [cinsn_ok_b cinsn_ok]; intros H; [now apply u63_rng_spec|].
    apply andb_true_iff in H. destruct H as [H1 H2]. split; [assumption|].
    eapply forallb_Forall; [|exact H2]. apply cop_ok_b_spec.
  Qed.

  Definition csigel_ok_b (e : sigel) : bool :=
    match e with
    | SigRes t => wf_mtype_b t
    | SigArg v => wf_mtype_b (v_type v) && is_ident_b (v_name v) && u63_rng (v_size v)
    end.
  Lemma csigel_ok_b_spec e : csigel_ok_b e = true -> csigel_ok e.
  Proof.
    destruct e as [t|v]; cbn [csigel_ok_b csigel_ok]; intros H; [now apply wf_mtype_b_spec|].
    rewrite !andb_true_iff in H. destruct H as [[H1 H2] H3].
    split; [now apply wf_mtype_b_spec | split; [now apply is_ident_b_spec | now apply u63_rng_spec]].
  Qed.

  Definition cel_ok_b (t : mtype) (z : Z) : bool :=
    match t with
    | TI8 | TI16 | TI32 | TI64 => s64_rng z
    | TU8 | TU16 | TU32 | TU64 | TP => u64_rng z
    | TF => okF_b z | TD => okD_b z | TLD => okLD_b z
    | TBLK _ | TRBLK | TUNDEF => false
    end.
  Lemma cel_ok_b_spec t z : cel_ok_b t z = true -> cel_ok pF pD pLD fF fD fLD t z.
  Proof.
    destruct t; cbn [cel_ok_b cel_ok]; intros H; try discriminate;
      try (now apply s64_rng_spec); try (now apply u64_rng_spec);
      try (now apply okF_b_spec); try (now apply okD_b_spec); try (now apply okLD_b_spec).
  Qed.

  Definition is_tu8 (t : mtype) : bool := match t with TU8 => true | _ => false end.

  Definition citem_simple_b (it : item) : bool :=
    match it with
    | ItImport n | ItExport n | ItForward n => is_ident_b n
    | ItBss n len => ident_opt_b n && u64_rng len
    | ItRef n r d => ident_opt_b n && is_ident_b r && s64_rng d
    | ItLref n l l2 d => ident_opt_b n && u63_rng l && (match l2 with Some x => u63_rng x | None => true end) && s64_rng d
    | ItExpr n f => ident_opt_b n && is_ident_b f
    | ItData n t els => ident_opt_b n && wf_mtype_b t && forallb (cel_ok_b t) els
                        && (negb (is_tu8 t) || forallb (in_rng 0 256) els)
    | ItProto n va res args => is_ident_b n && forallb csigel_ok_b (map SigRes res ++ map SigArg args)
    | ItFunc _ => true
    end.

  Lemma citem_simple_b_spec it : citem_simple_b it = true -> citem_ok_simple pF pD pLD fF fD fLD it.
  Proof.
    destruct it as [x|x|x|x len|x t els|x r d|x l l2 d|x f|x va res args|f]; cbn [citem_simple_b citem_ok_simple]; intros H;
      try (now apply is_ident_b_spec); try exact I.
    - apply andb_true_iff in H. destruct H as [H1 H2]. split; [now apply ident_opt_b_spec | now apply u64_rng_spec].
    - rewrite !andb_true_iff in H. destruct H as [[[H1 H2] H3] H4].
      split; [now apply ident_opt_b_spec|]. split; [now apply wf_mtype_b_spec|]. split.
      + eapply forallb_Forall; [|exact H3]. apply cel_ok_b_spec.
      + intros ->. cbn in H4. eapply forallb_Forall; [|exact H4]. intros z Hz. now apply in_rng_spec in Hz.
    - rewrite !andb_true_iff in H. destruct H as [[H1 H2] H3].
      split; [now apply ident_opt_b_spec | split; [now apply is_ident_b_spec | now apply s64_rng_spec]].
    - rewrite !andb_true_iff in H. destruct H as [[[H1 H2] H3] H4].
      split; [now apply ident_opt_b_spec|]. split; [now apply u63_rng_spec|]. split; [|now apply s64_rng_spec].
      destruct l2; [now apply u63_rng_spec | exact I].
    - apply andb_true_iff in H. destruct H as [H1 H2]. split; [now apply ident_opt_b_spec | now apply is_ident_b_spec].
    - apply andb_true_iff in H. destruct H as [H1 H2]. split; [now apply is_ident_b_spec|].
      eapply forallb_Forall; [|exact H2]. apply csigel_ok_b_spec.
  Qed.

  Definition clocal_ok_b (v : mtype * name) : bool := wf_mtype_b (fst v) && is_ident_b (snd v).
  Definition cglobal_ok_b (v : mtype * name * name) : bool :=
    wf_mtype_b (fst (fst v)) && is_ident_b (snd (fst v)) && is_ident_b (snd v).

  Definition cfunc_ok_b (f : func) : bool :=
    is_ident_b (f_name f) && forallb csigel_ok_b (map SigRes (f_res f) ++ map SigArg (f_args f))
    && forallb clocal_ok_b (f_locals f) && forallb cglobal_ok_b (f_globals f) && forallb cinsn_ok_b (f_insns f).

  Lemma cfunc_ok_b_spec f : cfunc_ok_b f = true -> cfunc_ok pF pD pLD fF fD fLD f.
  Proof.
    unfold cfunc_ok_b, cfunc_ok. rewrite !andb_true_iff. intros [[[[H1 H2] H3] H4] H5].
    split; [now apply is_ident_b_spec|]. split; [eapply forallb_Forall; [|exact H2]; apply csigel_ok_b_spec|].
    split; [|split].
    - eapply forallb_Forall; [|exact H3]. intros v Hv. unfold clocal_ok_b in Hv. apply andb_true_iff in Hv.
      destruct Hv. split; [now apply wf_mtype_b_spec | now apply is_ident_b_spec].
    - eapply forallb_Forall; [|exact H4]. intros v Hv. unfold cglobal_ok_b in Hv. rewrite !andb_true_iff in Hv.
      destruct Hv as [[A B] C]. split; [now apply wf_mtype_b_spec | split; now apply is_ident_b_spec].
    - eapply forallb_Forall; [|exact H5]. apply cinsn_ok_b_spec.
  Qed.

  Definition citem_ok_b (it : item) : bool := match it with ItFunc f => cfunc_ok_b f | _ => citem_simple_b it end.
  Lemma citem_ok_b_spec it : citem_ok_b it = true -> citem_ok pF pD pLD fF fD fLD it.
  Proof.
    destruct it as [x|x|x|x len|x t els|x r d|x l l2 d|x f|x va res args|f]; cbn [citem_ok_b citem_ok];
      try apply citem_simple_b_spec. apply cfunc_ok_b_spec.
  Qed.

  Definition cctx_ok_b (ms : list module) : bool :=
    forallb (fun m => is_ident_b (mod_name m) && forallb citem_ok_b (mod_items m)) ms.
  Lemma cctx_ok_b_spec ms : cctx_ok_b ms = true -> cctx_ok pF pD pLD fF fD fLD ms.
  Proof.
    apply forallb_Forall. intros m H. apply andb_true_iff in H. destruct H as [H1 H2].
    split; [now apply is_ident_b_spec|]. eapply forallb_Forall; [|exact H2]. apply citem_ok_b_spec.
  Qed.
End Dec.

(* ---------------------------------------------------------------- tokens: Forall tmodule_ok *)

Definition sigel_ok_b (e : sigel) : bool :=
  match e with
  | SigRes t => wf_mtype_b t && negb (is_undef t)
  | SigArg v => wf_mtype_b (v_type v) && negb (is_undef (v_type v))
                && (negb (all_blk_type_p (v_type v)) || in_rng 0 (2 ^ 63) (v_size v))
  end.
Lemma sigel_ok_b_spec e : sigel_ok_b e = true -> sigel_ok e.
Proof.
  destruct e as [t|v]; cbn [sigel_ok_b sigel_ok]; rewrite !andb_true_iff.
  - intros [H1 H2]. split; [now apply wf_mtype_b_spec | now apply negb_true_iff].
  - intros [[H1 H2] H3]. split; [now apply wf_mtype_b_spec|]. split; [now apply negb_true_iff|].
    intros Hb. rewrite Hb in H3. cbn in H3. now apply in_rng_spec.
Qed.

Definition sig_ok_b (res : list mtype) (args : list var) : bool := forallb sigel_ok_b (sig_els res args).
Lemma sig_ok_b_spec res args : sig_ok_b res args = true -> sig_ok res args.
Proof. apply forallb_Forall. apply sigel_ok_b_spec. Qed.

Definition reg_type_b (t : mtype) : bool := match t with TI64 | TF | TD | TLD => true | _ => false end.
Lemma reg_type_b_spec t : reg_type_b t = true -> reg_type t.
Proof. unfold reg_type. destruct t; cbn; intros H; try discriminate; tauto. Qed.

Definition opt_reg_ok_b (regp : name -> bool) (o : option name) : bool := match o with Some r => regp r | None => true end.

Definition top_ok_b (ofs : option fstate) (decl : name -> bool) (lp : bool) (o : operand) : bool :=
  match o with
  | OReg r => negb lp && regp_of ofs r
  | ORef n => negb lp && negb (regp_of ofs n) && decl n
  | OLabel _ => lp
  | OMem m => wf_mtype_b (m_type m) && opt_reg_ok_b (regp_of ofs) (m_base m) && opt_reg_ok_b (regp_of ofs) (m_index m)
              && N.ltb (m_scale m) 256
  | _ => true
  end.
Lemma top_ok_b_spec ofs decl lp o : top_ok_b ofs decl lp o = true -> top_ok ofs decl lp o.
Proof.
  destruct o as [r|i|u|b|b|b|m|n|s|l]; cbn [top_ok_b top_ok]; intros H; try exact I.
  - apply andb_true_iff in H. destruct H as [H1 H2]. split; [now apply negb_true_iff | assumption].
  - rewrite !andb_true_iff in H. destruct H as [[[H1 H2] H3] H4].
    split; [now apply wf_mtype_b_spec|]. split; [destruct (m_base m); [exact H2 | exact I]|].
    split; [destruct (m_index m); [exact H3 | exact I] | now apply N.ltb_lt].
  - rewrite !andb_true_iff in H. destruct H as [[H1 H2] H3].
    split; [now apply negb_true_iff | split; [now apply negb_true_iff | assumption]].
  - exact H.
Qed.

Fixpoint tops_ok_b (fs : option fstate) (decl : name -> bool) (k : stkind) (pos : nat) (ops : list operand) : bool :=
  match ops with
  | [] => true
  | o :: r => top_ok_b fs decl (label_position k pos) o && tops_ok_b fs decl k (S pos) r
  end.
Lemma tops_ok_b_spec fs decl k ops : forall pos, tops_ok_b fs decl k pos ops = true -> tops_ok fs decl k pos ops.
Proof.
  induction ops as [|o ops IH]; intros pos H; [exact I|]. cbn [tops_ok_b] in H. apply andb_true_iff in H.
  destruct H as [H1 H2]. split; [now apply top_ok_b_spec | now apply IH].
Qed.

Definition insn_ok_b (fs : fstate) (d : name -> bool) (i : insn) : bool :=
  match i with
  | ILabel _ => true
  | IInsn c ops => readable_code c && tops_ok_b (Some fs) d (KInsn c) 0 ops && (var_arity c || Nat.eqb (length ops) (insn_nops c))
  end.
Lemma insn_ok_b_spec fs d i : insn_ok_b fs d i = true -> insn_ok fs d i.
Proof.
  destruct i as [l|c ops]; cbn [insn_ok_b insn_ok]; intros H; [exact I|].
  rewrite !andb_true_iff in H. destruct H as [[H1 H2] H3]. split; [assumption|]. split; [now apply tops_ok_b_spec|].
  intros Hv. rewrite Hv in H3. cbn in H3. now apply Nat.eqb_eq.
Qed.

Definition func_ok_b (items : list item) (f : func) : bool :=
  sig_ok_b (f_res f) (f_args f)
  && forallb (fun v : mtype * name => reg_type_b (fst v)) (f_locals f)
  && forallb (fun v : mtype * name * name => reg_type_b (fst (fst v))) (f_globals f)
  && forallb (insn_ok_b (fs_of_func f) (decl_of items (f_name f))) (f_insns f).
Lemma func_ok_b_spec items f : func_ok_b items f = true -> func_ok items f.
Proof.
  unfold func_ok_b, func_ok. rewrite !andb_true_iff. intros [[[H1 H2] H3] H4].
  split; [now apply sig_ok_b_spec|]. split; [|split].
  - eapply forallb_Forall; [|exact H2]. intros v. apply reg_type_b_spec.
  - eapply forallb_Forall; [|exact H3]. intros v. apply reg_type_b_spec.
  - eapply forallb_Forall; [|exact H4]. apply insn_ok_b_spec.
Qed.

Definition titem_ok_b (items : list item) (it : item) : bool :=
  match it with
  | ItBss _ len => in_rng 0 (2 ^ 63) len
  | ItRef _ r _ => dmod items r
  | ItExpr _ f => dmod items f && dfun items f
  | ItData _ t els => data_type t && forallb (el_ok_b t) els
  | ItProto _ _ res args => sig_ok_b res args
  | ItFunc f => func_ok_b items f
  | _ => true
  end.
Lemma titem_ok_b_spec items it : titem_ok_b items it = true -> titem_ok items it.
Proof.
  destruct it as [x|x|x|x len|x t els|x r d|x l l2 d|x f|x va res args|f]; cbn [titem_ok_b titem_ok]; intros H; try exact I.
  - now apply in_rng_spec.
  - apply andb_true_iff in H. destruct H as [H1 H2]. split; [assumption|]. eapply forallb_Forall; [|exact H2]. apply el_ok_b_spec.
  - exact H.
  - apply andb_true_iff in H. exact H.
  - now apply sig_ok_b_spec.
  - now apply func_ok_b_spec.
Qed.

Fixpoint titems_ok_b (acc : list item) (its : list item) : bool :=
  match its with
  | [] => true
  | it :: r => titem_ok_b acc it && titems_ok_b (tnorm_item it :: acc) r
  end.
Lemma titems_ok_b_spec its : forall acc, titems_ok_b acc its = true -> titems_ok acc its.
Proof.
  induction its as [|it its IH]; intros acc H; [exact I|]. cbn [titems_ok_b] in H. apply andb_true_iff in H.
  destruct H as [H1 H2]. split; [now apply titem_ok_b_spec | now apply IH].
Qed.

Definition tmodules_ok_b (ms : list module) : bool := forallb (fun m => titems_ok_b [] (mod_items m)) ms.
Lemma tmodules_ok_b_spec ms : tmodules_ok_b ms = true -> Forall tmodule_ok ms.
Proof. apply forallb_Forall. intros m. apply titems_ok_b_spec. Qed.

(* ---------------------------------------------------------------- stability of the text under tnorm *)

Definition op_text_stable_b (o : operand) : bool :=
  match o with
  | OUint u => in_rng 0 (2 ^ 63) u
  | OStr s => bytes_eqb (nul_terminate s) s
  | _ => true
  end.
Lemma op_text_stable_b_spec o : op_text_stable_b o = true -> op_text_stable o.
Proof.
  destruct o; cbn [op_text_stable_b op_text_stable]; intros H; try exact I.
  - now apply in_rng_spec.
  - now apply bytes_eqb_eq.
Qed.

Definition text_stable_b (ms : list module) : bool :=
  forallb (fun m => forallb (fun it => match it with
                                       | ItFunc f => forallb (fun i => match i with
                                                                       | ILabel _ => true
                                                                       | IInsn _ ops => forallb op_text_stable_b ops
                                                                       end) (f_insns f)
                                       | _ => true
                                       end) (mod_items m)) ms.
Lemma text_stable_b_spec ms : text_stable_b ms = true -> text_stable ms.
Proof.
  apply forallb_Forall. intros m. apply forallb_Forall. intros it H.
  destruct it; try exact I. cbn [item_text_stable]. eapply forallb_Forall; [|exact H].
  intros [l|c ops] Hi; [exact I|]. cbn [insn_text_stable]. eapply forallb_Forall; [|exact Hi]. apply op_text_stable_b_spec.
Qed.

(* ---------------------------------------------------------------- the scanner's renaming does not touch what text_stable looks at *)

Lemma l_op_stable s o o' s' : l_op s o = Some (o', s') -> op_text_stable o -> op_text_stable o'.
Proof.
  destruct o; cbn [l_op]; intros H Hs; try (inversion H; subst; exact Hs).
  destruct (l_ref s l) as [[k s1]|]; [|discriminate]. inversion H; subst. exact I.
Qed.

Lemma l_ops_stable ops : forall s ops' s', l_ops s ops = Some (ops', s') -> Forall op_text_stable ops -> Forall op_text_stable ops'.
Proof.
  induction ops as [|o ops IH]; intros s ops' s' H Hs; cbn [l_ops] in H.
  - inversion H; subst. constructor.
  - destruct (l_op s o) as [[o1 s1]|] eqn:Eo; [|discriminate]. destruct (l_ops s1 ops) as [[r1 s2]|] eqn:Er; [|discriminate].
    inversion H; subst. inversion Hs; subst. constructor; [eapply l_op_stable; eassumption | eapply IH; eassumption].
Qed.

Lemma l_insns_stable insns : forall s insns' s', l_insns s insns = Some (insns', s') ->
  Forall insn_text_stable insns -> Forall insn_text_stable insns'.
Proof.
  induction insns as [|i insns IH]; intros s insns' s' H Hs; cbn [l_insns] in H.
  - inversion H; subst. constructor.
  - inversion Hs as [|? ? Hi His]; subst. destruct i as [l|c ops].
    + destruct (l_def s l) as [[k s1]|]; [|discriminate]. destruct (l_insns s1 insns) as [[r1 s2]|] eqn:Er; [|discriminate].
      inversion H; subst. constructor; [exact I | eapply IH; eassumption].
    + destruct (l_ops s ops) as [[ops' s1]|] eqn:Eo; [|discriminate]. destruct (l_insns s1 insns) as [[r1 s2]|] eqn:Er; [|discriminate].
      inversion H; subst. constructor; [cbn [insn_text_stable] in *; eapply l_ops_stable; eassumption | eapply IH; eassumption].
Qed.

Lemma l_item_stable s it it' s' : l_item s it = Some (it', s') -> item_text_stable it -> item_text_stable it'.
Proof.
  destruct it as [x|x|x|x len|x t els|x r d|x l l2 d|x f|x va res args|f]; cbn [l_item]; intros H Hs;
    try (inversion H; subst; exact Hs).
  - destruct (l_item_lref s l l2) as [[[k k2] s1]|]; [|discriminate]. inversion H; subst. exact I.
  - destruct (l_insns s (f_insns f)) as [[insns' s1]|] eqn:Ei; [|discriminate]. inversion H; subst.
    cbn [item_text_stable func_with_insns f_insns] in *. eapply l_insns_stable; eassumption.
Qed.

Lemma l_items_stable its : forall s its' s', l_items s its = Some (its', s') ->
  Forall item_text_stable its -> Forall item_text_stable its'.
Proof.
  induction its as [|it its IH]; intros s its' s' H Hs; cbn [l_items] in H.
  - inversion H; subst. constructor.
  - destruct (l_item s it) as [[it1 s1]|] eqn:Ei; [|discriminate]. destruct (l_items s1 its) as [[r1 s2]|] eqn:Er; [|discriminate].
    inversion H; subst. inversion Hs; subst. constructor; [eapply l_item_stable; eassumption | eapply IH; eassumption].
Qed.

Lemma l_ctx_stable ms : forall s ms' s', l_ctx s ms = Some (ms', s') -> text_stable ms -> text_stable ms'.
Proof.
  unfold text_stable. induction ms as [|m ms IH]; intros s ms' s' H Hs; cbn [l_ctx] in H.
  - inversion H; subst. constructor.
  - destruct (l_module s m) as [[m1 s1]|] eqn:Em; [|discriminate]. destruct (l_ctx s1 ms) as [[r1 s2]|] eqn:Er; [|discriminate].
    inversion H; subst. inversion Hs as [|? ? Hm Hms]; subst. constructor; [|eapply IH; eassumption].
    unfold l_module in Em. destruct (l_items (mkL [] [] (l_next s)) (mod_items m)) as [[its' s3]|] eqn:Ei; [|discriminate].
    inversion Em; subst. cbn [mod_items]. eapply l_items_stable; eassumption.
Qed.

Lemma relabel_ctx_stable ms ms' : relabel_ctx ms = Some ms' -> text_stable ms -> text_stable ms'.
Proof.
  unfold relabel_ctx. destruct (l_ctx (mkL [] [] 0) ms) as [[ms1 s']|] eqn:E; [|discriminate].
  intros H Hs. inversion H; subst. eapply l_ctx_stable; eassumption.
Qed.

(* ---------------------------------------------------------------- the checked theorem *)

Section Checked.
  Variables pF pD pLD : bytes -> Z.
  Variables fF fD fLD : Z -> bytes.

  Definition wf_text_b (ms : list module) : bool :=
    cctx_ok_b pF pD pLD fF fD fLD ms && tmodules_ok_b ms && text_stable_b ms.

  (* for every context accepted by the checker, whatever the numbering of its labels: the scan yields the
     modules renamed as MIR_scan_string renames them, up to tnorm, and that normal form prints exactly
     the text of the renamed modules *)
  Lemma text_roundtrip_checked_lemma ms ms' : wf_text_b ms = true -> relabel_ctx ms = Some ms' ->
    scan_ctx pF pD pLD (p_ctx fF fD fLD ms) = Ok (map tnorm_module ms')
    /\ p_ctx fF fD fLD (map tnorm_module ms') = p_ctx fF fD fLD ms'.
  Proof.
    unfold wf_text_b. rewrite !andb_true_iff. intros [[H1 H2] H3] Hr.
    split.
    - apply text_module_scan_relabel_lemma; [now apply cctx_ok_b_spec | now apply tmodules_ok_b_spec | exact Hr].
    - apply p_ctx_tnorm. eapply relabel_ctx_stable; [exact Hr | now apply text_stable_b_spec].
  Qed.

  (* and when the labels are already numbered the scanner's way this is wf_text *)
  Lemma wf_text_b_spec ms : wf_text_b ms = true -> relabel_ctx ms = Some ms -> wf_text pF pD pLD fF fD fLD ms.
  Proof.
    unfold wf_text_b. rewrite !andb_true_iff. intros [[H1 H2] H3] Hr.
    split; [now apply cctx_ok_b_spec|]. split; [|now apply text_stable_b_spec].
    split; [now apply tmodules_ok_b_spec | exact Hr].
  Qed.
End Checked.

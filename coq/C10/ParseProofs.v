(* The statement parser of MIR_scan_string (TextScan.scan_loop) inverts the token sequence of the
   printer (TextTokens.tk_ctx): scan_loop (tk_ctx ms ++ [TEOF]) = Ok (map tnorm_module ms) for
   well-formed modules whose labels are numbered in order of first occurrence. *)
From Coq Require Import List ZArith NArith Bool String Lia.
From MirV Require Import Base.W64 Mir.Opcode C11.Tables C11.Ast C11.BinIO C11.BinIOProofs C11.BinGrammarProofs
  C10.TextOut C10.TextScan C10.TextProofs C10.TextTokens.
Import ListNotations.
Local Open Scope Z_scope.
Local Notation length := List.length.

(* ---------------------------------------------------------------- label names *)

Lemma p_int_inj a b : in_s64 a -> in_s64 b -> p_int a = p_int b -> a = b.
Proof. intros Ha Hb E. rewrite <- (strtoul_p_int a Ha), <- (strtoul_p_int b Hb), E. reflexivity. Qed.

Lemma lname_eqb a b : in_s64 a -> in_s64 b -> bytes_eqb (lname a) (lname b) = (a =? b).
Proof.
  intros Ha Hb. destruct (Z.eqb_spec a b) as [->|Hne]; [apply bytes_eqb_refl|].
  destruct (bytes_eqb (lname a) (lname b)) eqn:E; [|reflexivity].
  apply bytes_eqb_eq in E. unfold lname in E. apply app_inv_head in E. exfalso. apply Hne. now apply p_int_inj.
Qed.

(* ---------------------------------------------------------------- the label table: text label -> number given by the scanner *)

(* abstract view of label_desc_tab: the labels seen in the module (latest first), each with the number
   create_label_desc gave it (MIR_new_label: the context's counter), and those defined *)
Definition zmem (l : Z) (ls : list Z) : bool := existsb (Z.eqb l) ls.
Definition lab_entry (defd : list Z) (e : Z * Z) : name * (Z * bool) := (lname (fst e), (snd e, zmem (fst e) defd)).

Fixpoint lfind (l : Z) (seen : list (Z * Z)) : option Z :=
  match seen with
  | [] => None
  | (o, k) :: r => if o =? l then Some k else lfind l r
  end.

Record lab_inv (st : sstate) (seen : list (Z * Z)) (defd : list Z) : Prop := mkLabInv {
  li_tab : ss_labels st = map (lab_entry defd) seen;
  li_rng : Forall (fun e => in_s64 (fst e)) seen;
  li_nodup : NoDup (map fst seen);
  li_sub : forall l, In l defd -> In l (map fst seen) }.

Lemma lab_find_entry defd seen l : in_s64 l -> Forall (fun e => in_s64 (fst e)) seen ->
  lab_find (lname l) (map (lab_entry defd) seen) = match lfind l seen with Some k => Some (k, zmem l defd) | None => None end.
Proof.
  intros Hl. induction seen as [|[x k] seen IH]; intros Hs; [reflexivity|].
  pose proof (Forall_inv Hs) as Hx. pose proof (Forall_inv_tail Hs) as Hs'. cbn [fst] in Hx.
  cbn [map lab_find lab_entry lfind fst snd]. rewrite (lname_eqb x l Hx Hl).
  destruct (Z.eqb_spec x l) as [->|Hne]; [reflexivity|]. now apply IH.
Qed.

Lemma zmem_cons_same l ls : zmem l (l :: ls) = true.
Proof. unfold zmem. cbn [existsb]. now rewrite Z.eqb_refl. Qed.
Lemma zmem_cons_other x l ls : x <> l -> zmem x (l :: ls) = zmem x ls.
Proof. intros H. unfold zmem. cbn [existsb]. destruct (Z.eqb_spec x l); [contradiction | reflexivity]. Qed.

Lemma lab_set_def_entry defd seen l : in_s64 l -> Forall (fun e => in_s64 (fst e)) seen -> NoDup (map fst seen) ->
  lab_set_def (lname l) (map (lab_entry defd) seen) = map (lab_entry (l :: defd)) seen.
Proof.
  intros Hl. induction seen as [|[x k] seen IH]; intros Hs Hnd; [reflexivity|].
  pose proof (Forall_inv Hs) as Hx. pose proof (Forall_inv_tail Hs) as Hs'. cbn [fst] in Hx.
  cbn [map fst] in Hnd. inversion Hnd as [|? ? Hnin Hnd']; subst.
  cbn [map lab_set_def]. unfold lab_entry in *. cbn [fst snd]. rewrite (lname_eqb x l Hx Hl).
  destruct (Z.eqb_spec x l) as [->|Hne].
  - rewrite zmem_cons_same. f_equal.
    apply map_ext_in. intros [y ky] Hy. cbn [fst snd].
    rewrite zmem_cons_other; [reflexivity|]. intros ->. apply Hnin. apply in_map_iff. exists (l, ky). split; [reflexivity | assumption].
  - rewrite (zmem_cons_other x l defd Hne). f_equal. now apply IH.
Qed.

Lemma zmem_In l ls : zmem l ls = true <-> In l ls.
Proof.
  unfold zmem. rewrite existsb_exists. split.
  - intros [x [Hx E]]. apply Z.eqb_eq in E. now subst.
  - intros H. exists l. split; [assumption | apply Z.eqb_refl].
Qed.

Definition set_labels (st : sstate) (tab : list (name * (Z * bool))) (next : Z) : sstate :=
  mkSstate (ss_mods st) (ss_mod st) (ss_func st) tab next.

Lemma zmem_false_notin l ls : zmem l ls = false -> ~ In l ls.
Proof. intros H Hin. apply zmem_In in Hin. congruence. Qed.

Lemma lfind_none_notin l seen : lfind l seen = None -> ~ In l (map fst seen).
Proof.
  induction seen as [|[x k] seen IH]; [intros _ []|]. cbn [lfind map fst].
  destruct (Z.eqb_spec x l) as [->|Hne]; [discriminate|]. intros H [E|Hin]; [contradiction | now apply IH].
Qed.

Lemma lfind_some_in l k seen : lfind l seen = Some k -> In l (map fst seen).
Proof.
  induction seen as [|[x kx] seen IH]; [discriminate|]. cbn [lfind map fst].
  destruct (Z.eqb_spec x l) as [->|Hne]; [now left | right; now apply IH].
Qed.

(* what create_label_desc answers for the text label l, and the table afterwards *)
Definition seen_after (seen : list (Z * Z)) (next l : Z) : Z * list (Z * Z) * Z :=
  match lfind l seen with
  | Some k => (k, seen, next)
  | None => (next + 1, (l, next + 1) :: seen, next + 1)
  end.

(* a reference to label l (create_label_desc (name, FALSE)) *)
Lemma label_desc_ref st seen defd l :
  lab_inv st seen defd -> in_s64 l ->
  exists st', label_desc st (lname l) false = Some (fst (fst (seen_after seen (ss_next st) l)), st')
    /\ ss_mods st' = ss_mods st /\ ss_mod st' = ss_mod st /\ ss_func st' = ss_func st
    /\ lab_inv st' (snd (fst (seen_after seen (ss_next st) l))) defd
    /\ ss_next st' = snd (seen_after seen (ss_next st) l).
Proof.
  intros [Htab Hrng Hnd Hsub] Hl. unfold label_desc, seen_after. rewrite Htab, lab_find_entry by assumption.
  destruct (lfind l seen) as [k|] eqn:Es; cbn [fst snd].
  - exists st. repeat split; try reflexivity; assumption.
  - eexists. split; [reflexivity|]. cbn [ss_mods ss_mod ss_func ss_labels ss_next].
    split; [reflexivity|]. split; [reflexivity|]. split; [reflexivity|]. split; [|reflexivity].
    pose proof (lfind_none_notin l seen Es) as Hnin.
    constructor; cbn [ss_labels].
    + cbn [map]. f_equal. unfold lab_entry. cbn [fst snd]. f_equal. f_equal.
      destruct (zmem l defd) eqn:Ed; [|reflexivity].
      apply zmem_In in Ed. apply Hsub in Ed. contradiction.
    + constructor; assumption.
    + cbn [map fst]. constructor; assumption.
    + intros x Hx. right. now apply Hsub.
Qed.

(* a definition of label l (create_label_desc (name, TRUE)) *)
Lemma label_desc_def st seen defd l :
  lab_inv st seen defd -> in_s64 l -> zmem l defd = false ->
  exists st', label_desc st (lname l) true = Some (fst (fst (seen_after seen (ss_next st) l)), st')
    /\ ss_mods st' = ss_mods st /\ ss_mod st' = ss_mod st /\ ss_func st' = ss_func st
    /\ lab_inv st' (snd (fst (seen_after seen (ss_next st) l))) (l :: defd)
    /\ ss_next st' = snd (seen_after seen (ss_next st) l).
Proof.
  intros [Htab Hrng Hnd Hsub] Hl Hnd'. unfold label_desc, seen_after. rewrite Htab, lab_find_entry by assumption.
  destruct (lfind l seen) as [k|] eqn:Es; cbn [fst snd].
  - rewrite Hnd'. eexists. split; [reflexivity|]. cbn [ss_mods ss_mod ss_func ss_labels ss_next].
    split; [reflexivity|]. split; [reflexivity|]. split; [reflexivity|]. split; [|reflexivity].
    constructor; cbn [ss_labels].
    + now apply lab_set_def_entry.
    + assumption.
    + assumption.
    + intros x [<-|Hx]; [now apply (lfind_some_in l k) | now apply Hsub].
  - eexists. split; [reflexivity|]. cbn [ss_mods ss_mod ss_func ss_labels ss_next].
    split; [reflexivity|]. split; [reflexivity|]. split; [reflexivity|]. split; [|reflexivity].
    pose proof (lfind_none_notin l seen Es) as Hnin.
    constructor; cbn [ss_labels].
    + cbn [map]. f_equal.
      * unfold lab_entry. cbn [fst snd]. now rewrite zmem_cons_same.
      * apply map_ext_in. intros [y ky] Hy. unfold lab_entry. cbn [fst snd].
        rewrite zmem_cons_other; [reflexivity|]. intros ->. apply Hnin. apply in_map_iff. exists (l, ky). split; [reflexivity | assumption].
    + constructor; assumption.
    + cbn [map fst]. constructor; assumption.
    + intros x [<-|Hx]; [now left | right; now apply Hsub].
Qed.

(* ---------------------------------------------------------------- operands *)

(* what may follow an operand inside a statement *)
Definition op_follow (rest : list ttok) : Prop :=
  match rest with TComma :: _ => True | TNL :: _ => True | _ => False end.

Definition mem_tail (m : mem) : list ttok := skipn 2 (tk_mem m).

Definition opt_reg_ok (regp : name -> bool) (o : option name) : Prop :=
  match o with Some r => regp r = true | None => True end.

Lemma parse_mem_tk regp m rest :
  opt_reg_ok regp (m_base m) -> opt_reg_ok regp (m_index m) -> (m_scale m < 256)%N -> op_follow rest ->
  parse_mem regp (m_type m) (mem_tail m ++ rest) = Some (OMem (tnorm_mem m), rest).
Proof.
  destruct m as [t d b i sc a na]. unfold mem_tail, tk_mem, tnorm_mem, opt_reg_ok.
  cbn [m_type m_disp m_base m_index m_scale m_alias m_nonalias].
  intros Hb Hi Hsc Hf.
  pose proof (scale_roundtrip sc Hsc) as Esc.
  destruct rest as [|[ | | | | | | | | | | | | ] rest]; cbn in Hf; try contradiction;
  (destruct (d =? 0) eqn:Ed; [apply Z.eqb_eq in Ed; subst d|];
   destruct b as [b|], i as [i|], a as [a|], na as [na|]; try (destruct (N.eqb sc 1) eqn:E1; [apply N.eqb_eq in E1; subst sc|]);
   cbn -[Z.of_N Z.to_N Z.modulo]; rewrite ?Hb, ?Hi, ?Esc; reflexivity).
Qed.

Lemma str2type_type_str t : wf_mtype t -> is_undef t = false -> str2type (type_str t) = Some t.
Proof.
  destruct t as [| | | | | | | | | | | |n| |]; try reflexivity; try discriminate.
  cbn [wf_mtype]. intros H _.
  assert (E : (n = 0 \/ n = 1 \/ n = 2 \/ n = 3 \/ n = 4)%N) by lia.
  repeat (destruct E as [E|E]); subst n; reflexivity.
Qed.

Lemma str2type_undef : str2type (type_str TUNDEF) = None.
Proof. reflexivity. Qed.

(* the kinds of statement whose operands are plain operands *)
Definition plain_kind (k : stkind) : Prop :=
  is_sig k = false /\ is_var k = false
  /\ match k with KExport | KImport | KForward | KModule | KEndmodule | KEndfunc => False | _ => True end.

Definition follow_not_col (rest : list ttok) : Prop := match rest with TCol :: _ => False | _ => True end.

Lemma op_follow_not_col rest : op_follow rest -> follow_not_col rest.
Proof. destruct rest as [|[ | | | | | | | | | | | | ] r]; cbn; tauto. Qed.

(* memory operand *)
Lemma parse_op_mem k nops st m rest :
  plain_kind k -> wf_mtype (m_type m) ->
  opt_reg_ok (fun x => match ss_func st with Some fs => func_reg_p fs x | None => false end) (m_base m) ->
  opt_reg_ok (fun x => match ss_func st with Some fs => func_reg_p fs x | None => false end) (m_index m) ->
  (m_scale m < 256)%N -> op_follow rest ->
  parse_op k nops st (tk_mem m ++ rest) = OpPush (POp (OMem (tnorm_mem m))) st rest.
Proof.
  intros (Hs & Hv & Hk) Ht Hb Hi Hsc Hf.
  assert (E : tk_mem m ++ rest = TName (type_str (m_type m)) :: TCol :: mem_tail m ++ rest) by reflexivity.
  rewrite E. clear E.
  assert (Hty : (match str2type (type_str (m_type m)) with
                 | None => if (bytes_eqb (type_str (m_type m)) (str "undef") && negb (is_sig k) && negb (is_var k))%bool
                           then Some TUNDEF else None
                 | s => s
                 end) = Some (m_type m)).
  { rewrite Hs, Hv. destruct (is_undef (m_type m)) eqn:Eu.
    - destruct (m_type m); try discriminate; reflexivity.
    - now rewrite str2type_type_str by assumption. }
  unfold parse_op. rewrite Hs, Hv in *. cbn [andb negb orb] in *. rewrite Hty.
  rewrite parse_mem_tk by assumption. reflexivity.
Qed.

(* ---------------------------------------------------------------- abstract label state *)

Record lstate : Set := mkL { l_seen : list (Z * Z); l_defd : list Z; l_next : Z }.

Definition s64_b (z : Z) : bool := (- 2 ^ 63 <=? z) && (z <? 2 ^ 63).
Lemma s64_b_spec z : s64_b z = true -> in_s64 z.
Proof. unfold s64_b, in_s64. rewrite andb_true_iff, Z.leb_le, Z.ltb_lt. tauto. Qed.

(* the scanner's numbering: a text label is either known in the module (and keeps its number) or gets
   the next number of the context; the result is that number *)
Definition l_ref (s : lstate) (l : Z) : option (Z * lstate) :=
  if negb (s64_b l) then None
  else let '(k, seen', next') := seen_after (l_seen s) (l_next s) l in Some (k, mkL seen' (l_defd s) next').

Definition l_def (s : lstate) (l : Z) : option (Z * lstate) :=
  if negb (s64_b l) || zmem l (l_defd s) then None
  else let '(k, seen', next') := seen_after (l_seen s) (l_next s) l in Some (k, mkL seen' (l :: l_defd s) next').

Definition lrel (st : sstate) (s : lstate) : Prop :=
  lab_inv st (l_seen s) (l_defd s) /\ ss_next st = l_next s.

Definition same_core (st st' : sstate) : Prop :=
  ss_mods st' = ss_mods st /\ ss_mod st' = ss_mod st /\ ss_func st' = ss_func st.

Lemma same_core_refl st : same_core st st. Proof. repeat split. Qed.
Lemma same_core_trans a b c : same_core a b -> same_core b c -> same_core a c.
Proof. intros (A1 & A2 & A3) (B1 & B2 & B3). repeat split; congruence. Qed.

Lemma l_ref_sim st s l k s' :
  lrel st s -> l_ref s l = Some (k, s') ->
  exists st', label_desc st (lname l) false = Some (k, st') /\ same_core st st' /\ lrel st' s'.
Proof.
  intros [Hinv Hn] H. unfold l_ref in H.
  destruct (s64_b l) eqn:Eb; [|discriminate]. cbn [negb] in H. apply s64_b_spec in Eb.
  destruct (label_desc_ref st (l_seen s) (l_defd s) l Hinv Eb) as (st' & E & C1 & C2 & C3 & Hinv' & Hn').
  rewrite Hn in *. destruct (seen_after (l_seen s) (l_next s) l) as [[k0 seen'] next'] eqn:Ea. cbn [fst snd] in *.
  inversion H; subst k s'. clear H.
  exists st'. split; [assumption|]. split; [repeat split; assumption|]. split; assumption.
Qed.

Lemma l_def_sim st s l k s' :
  lrel st s -> l_def s l = Some (k, s') ->
  exists st', label_desc st (lname l) true = Some (k, st') /\ same_core st st' /\ lrel st' s'.
Proof.
  intros [Hinv Hn] H. unfold l_def in H.
  destruct (s64_b l) eqn:Eb; [|discriminate]. cbn [negb orb] in H. apply s64_b_spec in Eb.
  destruct (zmem l (l_defd s)) eqn:Ed; [discriminate|].
  destruct (label_desc_def st (l_seen s) (l_defd s) l Hinv Eb Ed) as (st' & E & C1 & C2 & C3 & Hinv' & Hn').
  rewrite Hn in *. destruct (seen_after (l_seen s) (l_next s) l) as [[k0 seen'] next'] eqn:Ea. cbn [fst snd] in *.
  inversion H; subst k s'. clear H.
  exists st'. split; [assumption|]. split; [repeat split; assumption|]. split; assumption.
Qed.

(* a NAME operand that is not followed by ':' in a plain statement *)
Lemma parse_op_name k nops st n rest :
  plain_kind k -> follow_not_col rest ->
  parse_op k nops st (TName n :: rest)
  = if label_position k nops then
      match label_desc st n false with Some (l, st') => OpPush (POp (OLabel l)) st' rest | None => OpErr end
    else if (negb (match k with KExpr | KRef => true | _ => false end)
             && match ss_func st with Some fs => func_reg_p fs n | None => false end)%bool
    then OpPush (POp (OReg n)) st rest
    else if declared (as_rstate st) n then OpPush (POp (ORef n)) st rest else OpErr.
Proof.
  intros (Hs & Hv & Hk) Hf. unfold parse_op. rewrite Hs, Hv. cbn [andb negb].
  assert (Hc : match rest with TCol :: _ => true | _ => false end = false).
  { destruct rest as [|[ | | | | | | | | | | | | ] r]; cbn in Hf; try reflexivity. contradiction. }
  rewrite Hc. cbn [negb andb].
  destruct k; try contradiction; try discriminate; cbn [andb negb]; try rewrite andb_true_r; reflexivity.
Qed.

Definition l_op (s : lstate) (o : operand) : option (operand * lstate) :=
  match o with
  | OLabel l => match l_ref s l with Some (k, s') => Some (OLabel k, s') | None => None end
  | _ => Some (o, s)
  end.

(* text-level well-formedness of an operand at a position that is / is not a label position *)
Definition regp_of (ofs : option fstate) (x : name) : bool :=
  match ofs with Some fs => func_reg_p fs x | None => false end.

Definition top_ok (ofs : option fstate) (decl : name -> bool) (lp : bool) (o : operand) : Prop :=
  match o with
  | OReg r => lp = false /\ regp_of ofs r = true
  | ORef n => lp = false /\ regp_of ofs n = false /\ decl n = true
  | OLabel _ => lp = true
  | OMem m => wf_mtype (m_type m) /\ opt_reg_ok (regp_of ofs) (m_base m) /\ opt_reg_ok (regp_of ofs) (m_index m)
              /\ (m_scale m < 256)%N
  | _ => True
  end.

Lemma parse_op_insn k nops st fs s o o' s' rest :
  plain_kind k -> match k with KExpr | KRef => False | _ => True end ->
  ss_func st = fs -> lrel st s ->
  top_ok fs (declared (as_rstate st)) (label_position k nops) o -> l_op s o = Some (o', s') -> op_follow rest ->
  exists st', parse_op k nops st (tk_op o ++ rest) = OpPush (POp (tnorm_op o')) st' rest /\ same_core st st' /\ lrel st' s'.
Proof.
  intros Hk Hk2 Hfs Hrel Hok Hl Hf.
  assert (Hkk : match k with KExpr | KRef => true | _ => false end = false) by (destruct k; try contradiction; reflexivity).
  destruct o as [r|i|u|b|b|b|m|n|str0|l]; cbn [tk_op tnorm_op top_ok l_op app] in *; unfold regp_of in *.
  - destruct Hok as [Hlp Hr]. inversion Hl; subst o' s'.
    rewrite parse_op_name by (try assumption; now apply op_follow_not_col).
    rewrite Hlp, Hkk, Hfs, Hr. cbn [negb andb]. exists st. split; [reflexivity | split; [apply same_core_refl | exact Hrel]].
  - inversion Hl; subst o' s'. exists st. split; [reflexivity | split; [apply same_core_refl | exact Hrel]].
  - inversion Hl; subst o' s'. exists st. split; [reflexivity | split; [apply same_core_refl | exact Hrel]].
  - inversion Hl; subst o' s'. exists st. split; [reflexivity | split; [apply same_core_refl | exact Hrel]].
  - inversion Hl; subst o' s'. exists st. split; [reflexivity | split; [apply same_core_refl | exact Hrel]].
  - inversion Hl; subst o' s'. exists st. split; [reflexivity | split; [apply same_core_refl | exact Hrel]].
  - destruct Hok as (Ht & Hb & Hi & Hsc). inversion Hl; subst o' s'.
    rewrite parse_op_mem; try assumption; try (rewrite Hfs; assumption).
    exists st. split; [reflexivity | split; [apply same_core_refl | exact Hrel]].
  - destruct Hok as (Hlp & Hr & Hd). inversion Hl; subst o' s'.
    rewrite parse_op_name by (try assumption; now apply op_follow_not_col).
    rewrite Hlp, Hkk, Hfs, Hr, Hd. cbn [negb andb]. exists st. split; [reflexivity | split; [apply same_core_refl | exact Hrel]].
  - inversion Hl; subst o' s'. exists st. split; [reflexivity | split; [apply same_core_refl | exact Hrel]].
  - rewrite parse_op_name by (try assumption; now apply op_follow_not_col). rewrite Hok.
    destruct (l_ref s l) as [[kk s1]|] eqn:Er; [|discriminate]. inversion Hl; subst o' s'.
    destruct (l_ref_sim st s l kk s1 Hrel Er) as (st' & E & Hc & Hr'). rewrite E.
    exists st'. split; [reflexivity | split; assumption].
Qed.

(* ---------------------------------------------------------------- operand lists *)

Fixpoint tops_ok (fs : option fstate) (decl : name -> bool) (k : stkind) (pos : nat) (ops : list operand) : Prop :=
  match ops with
  | [] => True
  | o :: r => top_ok fs decl (label_position k pos) o /\ tops_ok fs decl k (S pos) r
  end.

Fixpoint l_ops (s : lstate) (ops : list operand) : option (list operand * lstate) :=
  match ops with
  | [] => Some ([], s)
  | o :: r => match l_op s o with
              | Some (o', s1) => match l_ops s1 r with Some (r', s2) => Some (o' :: r', s2) | None => None end
              | None => None
              end
  end.

Lemma l_ops_length ops : forall s ops' s', l_ops s ops = Some (ops', s') -> length ops' = length ops.
Proof.
  induction ops as [|o ops IH]; intros s ops' s' H; cbn [l_ops] in H.
  - inversion H; reflexivity.
  - destruct (l_op s o) as [[o1 s1]|]; [|discriminate]. destruct (l_ops s1 ops) as [[r' s2]|] eqn:E; [|discriminate].
    inversion H; subst. cbn [length]. f_equal. eapply IH; eassumption.
Qed.

Definition pops (ops : list operand) : list sop := map (fun o => POp (tnorm_op o)) ops.

Lemma tk_op_head o : exists t r, tk_op o = t :: r /\ t <> TNL /\ t <> TSemi.
Proof.
  destruct o; cbn [tk_op]; unfold tk_mem; cbn [app]; eexists _, _; (split; [reflexivity | split; discriminate]).
Qed.

Lemma sep_toks_cons2 {A} (f : A -> list ttok) x y r : sep_toks f (x :: y :: r) = f x ++ TComma :: sep_toks f (y :: r).
Proof. reflexivity. Qed.
Lemma sep_toks_one {A} (f : A -> list ttok) x : sep_toks f [x] = f x.
Proof. reflexivity. Qed.

Lemma parse_ops_unfold f k st acc t ts :
  t <> TNL -> t <> TSemi ->
  parse_ops (S f) k st acc (t :: ts)
  = let continue (acc : list sop) (st : sstate) (r : list ttok) :=
        match r with
        | TComma :: r' => parse_ops f k st acc r'
        | TNL :: r' | TSemi :: r' => Some (rev acc, false, st, r')
        | TEOF :: _ => Some (rev acc, false, st, r)
        | _ => None
        end in
    match parse_op k (length acc) st (t :: ts) with
    | OpPush o st' r => continue (o :: acc) st' r
    | OpItem st' r => continue acc st' r
    | OpDots r =>
        match r with
        | TNL :: r' | TSemi :: r' => Some (rev acc, true, st, r')
        | TEOF :: _ => Some (rev acc, true, st, r)
        | _ => None
        end
    | OpErr => None
    end.
Proof. intros H1 H2. destruct t; try reflexivity; contradiction. Qed.

Lemma same_core_decl st st' : same_core st st' -> declared (as_rstate st') = declared (as_rstate st).
Proof. intros (H1 & H2 & H3). unfold declared, as_rstate. cbn. now rewrite H2, H3. Qed.

Lemma parse_ops_list k fs rest : plain_kind k -> match k with KExpr | KRef => False | _ => True end ->
  forall ops ops' acc st s s',
    ss_func st = fs -> lrel st s ->
    tops_ok fs (declared (as_rstate st)) k (length acc) ops -> l_ops s ops = Some (ops', s') ->
    exists st', same_core st st' /\ lrel st' s'
      /\ forall fuel, (length ops < fuel)%nat ->
            parse_ops fuel k st acc (sep_toks tk_op ops ++ TNL :: rest) = Some (rev acc ++ pops ops', false, st', rest).
Proof.
  intros Hk Hk2. induction ops as [|o ops IH]; intros ops' acc st s s' Hfs Hrel Hok Hl.
  - cbn [l_ops] in Hl. inversion Hl; subst ops' s'. exists st. split; [apply same_core_refl|]. split; [exact Hrel|].
    intros fuel Hfuel. destruct fuel; [cbn in Hfuel; lia|]. cbn [sep_toks app parse_ops pops map]. now rewrite app_nil_r.
  - cbn [tops_ok l_ops] in Hok, Hl. destruct Hok as [Ho Hops].
    destruct (l_op s o) as [[o1 s1]|] eqn:El; [|discriminate].
    destruct (l_ops s1 ops) as [[r1 s2]|] eqn:Els; [|discriminate]. inversion Hl; subst ops' s'. clear Hl.
    destruct (tk_op_head o) as (t & r & Et & Hn1 & Hn2).
    destruct ops as [|o2 ops'].
    + (* last operand *)
      destruct (parse_op_insn k (length acc) st fs s o o1 s1 (TNL :: rest) Hk Hk2 Hfs Hrel Ho El I) as (st1 & Ep & Hc1 & Hr1).
      cbn [l_ops] in Els. inversion Els; subst r1 s2.
      exists st1. split; [assumption|]. split; [assumption|].
      intros fuel Hfuel. destruct fuel; [cbn in Hfuel; lia|].
      rewrite sep_toks_one. rewrite Et in *. cbn [app] in *. rewrite parse_ops_unfold by assumption. cbv zeta. rewrite Ep.
      cbn [rev pops map]. reflexivity.
    + destruct (parse_op_insn k (length acc) st fs s o o1 s1 (TComma :: sep_toks tk_op (o2 :: ops') ++ TNL :: rest) Hk Hk2 Hfs Hrel Ho El I)
        as (st1 & Ep & Hc1 & Hr1).
      destruct (IH r1 (POp (tnorm_op o1) :: acc) st1 s1 s2) as (st2 & Hc2 & Hr2 & E2).
      * destruct Hc1 as (_ & _ & ->). exact Hfs.
      * exact Hr1.
      * rewrite (same_core_decl st st1 Hc1). exact Hops.
      * exact Els.
      * exists st2. split; [eapply same_core_trans; eassumption|]. split; [assumption|].
        intros fuel Hfuel. destruct fuel; [cbn in Hfuel; lia|].
        rewrite sep_toks_cons2. rewrite <- app_assoc. cbn [app].
        rewrite Et in *. cbn [app] in *. rewrite parse_ops_unfold by assumption. cbv zeta. rewrite Ep.
        rewrite E2 by (cbn [length] in Hfuel |- *; lia). cbn [rev pops map]. now rewrite <- app_assoc.
Qed.

(* ---------------------------------------------------------------- statements inside a function *)

Definition label_lines (labs : list Z) : list ttok := flat_map (fun l => [TName (lname l); TCol; TNL]) labs.

Lemma parse_labels_lines labs : forall acc nm r fuel,
  follow_not_col r -> (length labs < fuel)%nat ->
  parse_labels fuel (label_lines labs ++ TName nm :: r) acc = Some (rev acc ++ map lname labs, nm, r).
Proof.
  induction labs as [|l labs IH]; intros acc nm r fuel Hr Hf.
  - destruct fuel; [cbn in Hf; lia|]. cbn [label_lines flat_map app parse_labels map].
    rewrite app_nil_r. destruct r as [|[ | | | | | | | | | | | | ] r']; cbn in Hr; try reflexivity. contradiction.
  - destruct fuel; [cbn in Hf; lia|]. cbn [label_lines flat_map app parse_labels skip_nl].
    fold (label_lines labs).
    assert (Hs : skip_nl (label_lines labs ++ TName nm :: r) = label_lines labs ++ TName nm :: r) by (destruct labs; reflexivity).
    rewrite Hs. rewrite IH by (try assumption; cbn in Hf; lia).
    cbn [rev map]. now rewrite <- app_assoc.
Qed.

Lemma stmt_kind_insn c : readable_code c = true -> stmt_kind (insn_name c) = Some (KInsn c).
Proof. destruct c; intros H; try discriminate; reflexivity. Qed.

Fixpoint l_defs (s : lstate) (labs : list Z) : option (list Z * lstate) :=
  match labs with
  | [] => Some ([], s)
  | l :: r => match l_def s l with
              | Some (k, s1) => match l_defs s1 r with Some (r', s2) => Some (k :: r', s2) | None => None end
              | None => None
              end
  end.

Definition set_func (st : sstate) (fs : fstate) : sstate :=
  mkSstate (ss_mods st) (ss_mod st) (Some fs) (ss_labels st) (ss_next st).

Lemma lrel_set_func st s fs : lrel st s -> lrel (set_func st fs) s.
Proof. intros [[H1 H2 H3 H4] Hn]. split; [constructor; assumption | assumption]. Qed.

Lemma def_labels_sim labs : forall labs' st s s' fs,
  ss_func st = Some fs -> lrel st s -> l_defs s labs = Some (labs', s') ->
  exists st', def_labels st (map lname labs) = Some st'
    /\ ss_mods st' = ss_mods st /\ ss_mod st' = ss_mod st
    /\ ss_func st' = Some (fs_set_insns fs (rev (map ILabel labs') ++ fs_insns fs))
    /\ lrel st' s'.
Proof.
  induction labs as [|l labs IH]; intros labs' st s s' fs Hfs Hrel Hl.
  - cbn in Hl. inversion Hl; subst labs' s'. exists st. cbn [map def_labels rev app].
    split; [reflexivity|]. split; [reflexivity|]. split; [reflexivity|]. split; [|assumption].
    rewrite Hfs. destruct fs; reflexivity.
  - cbn [l_defs] in Hl. destruct (l_def s l) as [[k s1]|] eqn:Ed; [|discriminate].
    destruct (l_defs s1 labs) as [[r1 s2]|] eqn:Eds; [|discriminate]. inversion Hl; subst labs' s'. clear Hl.
    destruct (l_def_sim st s l k s1 Hrel Ed) as (st1 & E1 & (C1 & C2 & C3) & Hr1).
    cbn [map def_labels]. rewrite E1. rewrite C3, Hfs.
    set (st2 := mkSstate (ss_mods st1) (ss_mod st1)
                  (Some (mkFstate (fs_name fs) (fs_vararg fs) (fs_res fs) (fs_args fs) (fs_locals fs) (fs_globals fs)
                           (ILabel k :: fs_insns fs))) (ss_labels st1) (ss_next st1)).
    destruct (IH r1 st2 s1 s2 (fs_set_insns fs (ILabel k :: fs_insns fs))) as (st3 & E3 & D1 & D2 & D3 & Hr3).
    + reflexivity.
    + exact (lrel_set_func st1 s1 _ Hr1).
    + exact Eds.
    + exists st3. split; [exact E3|]. split; [cbn in D1; congruence|]. split; [cbn in D2; congruence|]. split; [|exact Hr3].
      rewrite D3. unfold fs_set_insns. cbn [fs_name fs_vararg fs_res fs_args fs_locals fs_globals fs_insns map rev].
      now rewrite <- app_assoc.
Qed.

Lemma all_ops_pops ops : all_ops (pops ops) = Some (map tnorm_op ops).
Proof.
  induction ops as [|o ops IH]; [reflexivity|]. unfold all_ops, pops in *. cbn [map fold_right]. now rewrite IH.
Qed.

Lemma top_ok_change fs fs' d d' lp o :
  (forall x, regp_of fs' x = regp_of fs x) -> (forall x, d' x = d x) ->
  top_ok fs d lp o -> top_ok fs' d' lp o.
Proof.
  intros Hf Hd. destruct o as [r|i|u|b|b|b|m|n|str0|l]; cbn [top_ok]; try tauto.
  - now rewrite Hf.
  - unfold opt_reg_ok. destruct (m_base m), (m_index m); rewrite ?Hf; tauto.
  - now rewrite Hf, Hd.
Qed.

Lemma tops_ok_change fs fs' d d' k ops : forall pos,
  (forall x, regp_of fs' x = regp_of fs x) -> (forall x, d' x = d x) ->
  tops_ok fs d k pos ops -> tops_ok fs' d' k pos ops.
Proof.
  induction ops as [|o ops IH]; intros pos Hf Hd H; [exact I|].
  destruct H as [Ho Hops]. split; [eapply top_ok_change; eassumption | now apply IH].
Qed.

Lemma scan_stmt_name F st x r : scan_stmt F st (TName x :: r) = scan_body F st (TName x :: r).
Proof. reflexivity. Qed.

Lemma label_lines_head labs nm r : exists x r', label_lines labs ++ TName nm :: r = TName x :: r'.
Proof. destruct labs as [|l labs]; cbn [label_lines flat_map app]; eexists _, _; reflexivity. Qed.

Lemma plain_kind_insn c : plain_kind (KInsn c).
Proof. repeat split. Qed.

(* an instruction line with the label lines in front of it *)
Lemma stmt_insn st fs s labs labs' c ops ops' s1 s2 rest :
  ss_func st = Some fs -> lrel st s -> readable_code c = true ->
  l_defs s labs = Some (labs', s1) -> l_ops s1 ops = Some (ops', s2) ->
  tops_ok (Some fs) (declared (as_rstate st)) (KInsn c) 0 ops ->
  (var_arity c = false -> length ops = insn_nops c) ->
  exists st', ss_mods st' = ss_mods st /\ ss_mod st' = ss_mod st
    /\ ss_func st' = Some (fs_set_insns fs (IInsn c (map tnorm_op ops') :: rev (map ILabel labs') ++ fs_insns fs))
    /\ lrel st' s2
    /\ forall F, (length labs < F)%nat -> (length ops < F)%nat ->
          scan_stmt F st (label_lines labs ++ tk_insn (IInsn c ops) ++ rest) = SNext st' rest.
Proof.
  intros Hfs Hrel Hrd Hdef Hops Hok Har.
  destruct (def_labels_sim labs labs' st s s1 fs Hfs Hrel Hdef) as (st1 & E1 & M1 & M2 & F1 & Hr1).
  set (fs1 := fs_set_insns fs (rev (map ILabel labs') ++ fs_insns fs)) in *.
  assert (Hok1 : tops_ok (Some fs1) (declared (as_rstate st1)) (KInsn c) (length (@nil sop)) ops).
  { eapply tops_ok_change; [ | | exact Hok].
    - intros y. reflexivity.
    - intros y. unfold declared, as_rstate. cbn. rewrite M2, F1, Hfs. destruct (ss_mod st); reflexivity. }
  destruct (parse_ops_list (KInsn c) (Some fs1) rest (plain_kind_insn c) I ops ops' [] st1 s1 s2 F1 Hr1 Hok1 Hops)
    as (st2 & (C1 & C2 & C3) & Hr2 & E2).
  eexists. split; [|split; [|split; [|split]]]; cycle 4.
  - intros F HF1 HF2.
    cbn [tk_insn app]. rewrite <- app_assoc. cbn [app].
    destruct (label_lines_head labs (insn_name c) (sep_toks tk_op ops ++ TNL :: rest)) as (x & r' & Eh).
    rewrite Eh, scan_stmt_name, <- Eh. clear Eh x r'.
    unfold scan_body.
    rewrite parse_labels_lines; [ | | assumption].
    2:{ destruct (sep_toks tk_op ops) as [|t ts] eqn:E; [exact I|].
        destruct ops as [|o ops0]; [discriminate|].
        destruct (tk_op_head o) as (t0 & r0 & Et & _).
        destruct ops0; [rewrite sep_toks_one in E | rewrite sep_toks_cons2 in E]; rewrite Et in E; inversion E; subst;
          destruct o; cbn [tk_op] in Et; try (inversion Et; subst; exact I); unfold tk_mem in Et; inversion Et; subst; exact I. }
    cbn [rev app]. rewrite stmt_kind_insn by assumption.
    cbn [label_count_bad is_var andb]. rewrite E1.
    rewrite E2 by assumption. cbn [rev app]. unfold stmt_exec. rewrite all_ops_pops.
    assert (Harity : (negb (var_arity c) && negb (Nat.eqb (length (map tnorm_op ops')) (insn_nops c)))%bool = false).
    { rewrite map_length, (l_ops_length ops s1 ops' s2 Hops). destruct (var_arity c); [reflexivity|]. rewrite (Har eq_refl), Nat.eqb_refl. reflexivity. }
    rewrite Harity, C3, F1. reflexivity.
  - cbn [ss_mods]. congruence.
  - cbn [ss_mod]. congruence.
  - reflexivity.
  - destruct Hr2 as [[T1 T2 T3 T4] Hn]. split; [constructor; assumption | assumption].
Qed.

Lemma stmt_endfunc st mn items fs s labs labs' s1 rest :
  ss_mod st = Some (mn, items) -> ss_func st = Some fs -> lrel st s -> l_defs s labs = Some (labs', s1) ->
  exists st', ss_mods st' = ss_mods st
    /\ ss_mod st' = Some (mn, ItFunc (close_func (fs_set_insns fs (rev (map ILabel labs') ++ fs_insns fs))) :: items)
    /\ ss_func st' = None /\ lrel st' s1
    /\ forall F, (length labs < F)%nat ->
          scan_stmt F st (label_lines labs ++ TName (str "endfunc") :: TNL :: rest) = SNext st' rest.
Proof.
  intros Hmod Hfs Hrel Hdef.
  destruct (def_labels_sim labs labs' st s s1 fs Hfs Hrel Hdef) as (st1 & E1 & M1 & M2 & F1 & Hr1).
  eexists. split; [|split; [|split; [|split]]]; cycle 4.
  - intros F HF.
    destruct (label_lines_head labs (str "endfunc") (TNL :: rest)) as (x & r' & Eh).
    rewrite Eh, scan_stmt_name, <- Eh. clear Eh x r'.
    unfold scan_body. rewrite parse_labels_lines by (try assumption; exact I).
    cbn [rev app]. change (stmt_kind (str "endfunc")) with (Some KEndfunc).
    cbn [label_count_bad is_var andb].
    rewrite E1, Hfs. destruct F as [|F']; [lia|]. cbn [parse_ops rev].
    unfold stmt_exec. rewrite M2, Hmod, F1. reflexivity.
  - cbn [ss_mods]. assumption.
  - reflexivity.
  - reflexivity.
  - destruct Hr1 as [[T1 T2 T3 T4] Hn]. split; [constructor; assumption | assumption].
Qed.

(* ---------------------------------------------------------------- the scan loop as a simulation *)

Definition sreaches (st : sstate) (ts : list ttok) (st' : sstate) (r : list ttok) : Prop :=
  forall fuel, (length ts < fuel)%nat ->
    exists fuel', (length r < fuel')%nat /\ scan_loop fuel st ts = scan_loop fuel' st' r.

Lemma sreaches_refl st ts : sreaches st ts st ts.
Proof. intros fuel H. exists fuel. split; [assumption | reflexivity]. Qed.

Lemma sreaches_trans st1 ts1 st2 ts2 st3 ts3 :
  sreaches st1 ts1 st2 ts2 -> sreaches st2 ts2 st3 ts3 -> sreaches st1 ts1 st3 ts3.
Proof.
  intros H1 H2 fuel Hf. destruct (H1 fuel Hf) as [f1 [Hf1 E1]]. destruct (H2 f1 Hf1) as [f2 [Hf2 E2]].
  exists f2. split; [assumption | congruence].
Qed.

Lemma sreaches_step st toks rest st' :
  (0 < length toks)%nat ->
  (forall F, (length (toks ++ rest) < F)%nat -> scan_stmt F st (toks ++ rest) = SNext st' rest) ->
  sreaches st (toks ++ rest) st' rest.
Proof.
  intros Hne Hs fuel Hf. destruct fuel as [|fuel]; [lia|].
  exists fuel. split; [rewrite app_length in Hf; lia|]. cbn [scan_loop]. now rewrite Hs.
Qed.

Lemma sreaches_nl st ts st' r : sreaches st ts st' r -> sreaches st (TNL :: ts) st' r.
Proof.
  intros H fuel Hf. destruct (H fuel ltac:(cbn [length] in Hf; lia)) as [f' [Hf' E]].
  exists f'. split; [assumption|]. rewrite <- E.
  destruct fuel as [|fuel]; [reflexivity|]. cbn [scan_loop]. reflexivity.
Qed.

(* ---------------------------------------------------------------- function bodies *)

Fixpoint l_insns (s : lstate) (insns : list insn) : option (list insn * lstate) :=
  match insns with
  | [] => Some ([], s)
  | ILabel l :: r =>
      match l_def s l with
      | Some (k, s1) => match l_insns s1 r with Some (r', s2) => Some (ILabel k :: r', s2) | None => None end
      | None => None
      end
  | IInsn c ops :: r =>
      match l_ops s ops with
      | Some (ops', s1) => match l_insns s1 r with Some (r', s2) => Some (IInsn c ops' :: r', s2) | None => None end
      | None => None
      end
  end.

Lemma l_defs_app s a b :
  l_defs s (a ++ b) = match l_defs s a with
                      | Some (a', s1) => match l_defs s1 b with Some (b', s2) => Some (a' ++ b', s2) | None => None end
                      | None => None
                      end.
Proof.
  revert s; induction a as [|l a IH]; intros s.
  - cbn [app l_defs]. destruct (l_defs s b) as [[b' s2]|]; reflexivity.
  - cbn [app l_defs]. destruct (l_def s l) as [[k s1]|]; [|reflexivity]. rewrite IH.
    destruct (l_defs s1 a) as [[a' s2]|]; [|reflexivity]. destruct (l_defs s2 b) as [[b' s3]|]; reflexivity.
Qed.

Definition insn_ok (fs : fstate) (d : name -> bool) (i : insn) : Prop :=
  match i with
  | ILabel _ => True
  | IInsn c ops => readable_code c = true /\ tops_ok (Some fs) d (KInsn c) 0 ops /\ (var_arity c = false -> length ops = insn_nops c)
  end.

Lemma label_lines_app a b : label_lines (a ++ b) = label_lines a ++ label_lines b.
Proof. unfold label_lines. now rewrite flat_map_app. Qed.

Lemma tk_op_nonempty o : (1 <= length (tk_op o))%nat.
Proof. destruct (tk_op_head o) as (t & r & E & _). rewrite E. cbn. lia. Qed.

Lemma sep_toks_length ops : (length ops <= length (sep_toks tk_op ops))%nat.
Proof.
  induction ops as [|o ops IH]; [cbn; lia|]. destruct ops as [|o2 ops'].
  - rewrite sep_toks_one. pose proof (tk_op_nonempty o). cbn [length]. lia.
  - rewrite sep_toks_cons2, app_length. cbn [length] in *. pose proof (tk_op_nonempty o). lia.
Qed.

Lemma label_lines_length labs : length (label_lines labs) = (3 * length labs)%nat.
Proof. induction labs as [|l labs IH]; [reflexivity|]. cbn [label_lines flat_map app length] in *. fold (label_lines labs). rewrite IH. lia. Qed.


Lemma tbody_loop mn items d rest : forall insns insns' labs labs' st fs s s1 s',
  ss_mod st = Some (mn, items) -> ss_func st = Some fs -> lrel st s ->
  (forall x, declared (as_rstate st) x = d x) ->
  l_defs s labs = Some (labs', s1) -> l_insns s1 insns = Some (insns', s') -> Forall (insn_ok fs d) insns ->
  exists st', sreaches st (label_lines labs ++ flat_map tk_insn insns ++ TName (str "endfunc") :: TNL :: rest) st' rest
    /\ ss_mods st' = ss_mods st
    /\ ss_mod st' = Some (mn, ItFunc (close_func (fs_set_insns fs
                         (rev (map tnorm_insn insns') ++ rev (map ILabel labs') ++ fs_insns fs))) :: items)
    /\ ss_func st' = None /\ lrel st' s'.
Proof.
  induction insns as [|i insns IH]; intros insns' labs labs' st fs s s1 s' Hmod Hfs Hrel Hd Hdefs Hins Hok.
  - cbn [l_insns] in Hins. inversion Hins; subst insns' s'. cbn [flat_map app map rev].
    destruct (stmt_endfunc st mn items fs s labs labs' s1 rest Hmod Hfs Hrel Hdefs) as (st' & H1 & H2 & H3 & H4 & Hstep).
    exists st'. split; [|split; [assumption | split; [exact H2 | split; assumption]]].
    replace (label_lines labs ++ TName (str "endfunc") :: TNL :: rest)
      with ((label_lines labs ++ [TName (str "endfunc"); TNL]) ++ rest) by (rewrite <- app_assoc; reflexivity).
    apply sreaches_step; [rewrite app_length; cbn; lia|].
    intros F HF. rewrite <- app_assoc. cbn [app]. apply Hstep.
    rewrite !app_length, label_lines_length in HF. cbn [length] in HF. lia.
  - pose proof (Forall_inv Hok) as Hi. pose proof (Forall_inv_tail Hok) as Hoks.
    destruct i as [l|c ops].
    + (* a label line joins the pending ones *)
      cbn [l_insns] in Hins. destruct (l_def s1 l) as [[k s2]|] eqn:Ed; [|discriminate].
      destruct (l_insns s2 insns) as [[r1 s3]|] eqn:Ei; [|discriminate]. inversion Hins; subst insns' s'. clear Hins.
      destruct (IH r1 (labs ++ [l]) (labs' ++ [k]) st fs s s2 s3 Hmod Hfs Hrel Hd) as (st' & Hre & H1 & H2 & H3 & H4); try assumption.
      { rewrite l_defs_app, Hdefs. cbn [l_defs]. now rewrite Ed. }
      exists st'. split; [|split; [assumption|split; [|split; assumption]]].
      * cbn [flat_map tk_insn app]. rewrite label_lines_app in Hre. rewrite <- app_assoc in Hre. exact Hre.
      * rewrite H2. do 5 f_equal. cbn [map tnorm_insn rev]. rewrite map_app, rev_app_distr. cbn [map rev app].
        rewrite <- !app_assoc. reflexivity.
    + cbn [l_insns] in Hins. destruct (l_ops s1 ops) as [[ops' s2]|] eqn:Eo; [|discriminate].
      destruct (l_insns s2 insns) as [[r1 s3]|] eqn:Ei; [|discriminate]. inversion Hins; subst insns' s'. clear Hins.
      destruct Hi as (Hrd & Htops & Har).
      assert (Htops' : tops_ok (Some fs) (declared (as_rstate st)) (KInsn c) 0 ops).
      { eapply tops_ok_change; [ | | exact Htops]; [reflexivity | exact Hd]. }
      destruct (stmt_insn st fs s labs labs' c ops ops' s1 s2 (flat_map tk_insn insns ++ TName (str "endfunc") :: TNL :: rest)
                  Hfs Hrel Hrd Hdefs Eo Htops' Har) as (st1 & M1 & M2 & F1 & Hr1 & Hstep).
      set (fs1 := fs_set_insns fs (IInsn c (map tnorm_op ops') :: rev (map ILabel labs') ++ fs_insns fs)) in *.
      destruct (IH r1 [] [] st1 fs1 s2 s2 s3) as (st' & Hre & H1 & H2 & H3 & H4).
      * congruence.
      * exact F1.
      * exact Hr1.
      * intros x. rewrite <- Hd. unfold declared, as_rstate. cbn. rewrite M2, F1, Hfs. destruct (ss_mod st); reflexivity.
      * reflexivity.
      * exact Ei.
      * eapply Forall_impl; [|exact Hoks]. intros [l|c' ops0]; [tauto|]. cbn [insn_ok].
        intros (A & B & C). split; [assumption|]. split; [|assumption].
        eapply tops_ok_change; [ | | exact B]; reflexivity.
      * exists st'. split; [|split; [congruence|split; [|split; assumption]]].
        -- eapply sreaches_trans; [|exact Hre].
           cbn [flat_map]. rewrite <- app_assoc.
           replace (label_lines labs ++ tk_insn (IInsn c ops) ++ flat_map tk_insn insns ++ TName (str "endfunc") :: TNL :: rest)
             with ((label_lines labs ++ tk_insn (IInsn c ops)) ++ flat_map tk_insn insns ++ TName (str "endfunc") :: TNL :: rest)
             by now rewrite <- app_assoc.
           cbn [label_lines flat_map app].
           apply sreaches_step; [rewrite app_length; cbn [tk_insn length]; lia|].
           intros F HF. rewrite <- app_assoc. apply Hstep.
           ++ rewrite !app_length, label_lines_length in HF. lia.
           ++ rewrite !app_length in HF. cbn [tk_insn length] in HF. rewrite app_length in HF.
              pose proof (sep_toks_length ops). lia.
        -- rewrite H2. do 5 f_equal. unfold fs1, fs_set_insns.
           cbn [map tnorm_insn rev fs_insns fs_name fs_vararg fs_res fs_args fs_locals fs_globals app].
           rewrite <- !app_assoc. reflexivity.
Qed.

(* ---------------------------------------------------------------- func / proto signatures *)

Definition psig (e : sigel) : sop :=
  match e with
  | SigRes t => PType t
  | SigArg v => PArg (v_type v) (v_name v) (if all_blk_type_p (v_type v) then v_size v else 0)
  end.

Definition sigel_ok (e : sigel) : Prop :=
  match e with
  | SigRes t => wf_mtype t /\ is_undef t = false
  | SigArg v => wf_mtype (v_type v) /\ is_undef (v_type v) = false
                /\ (all_blk_type_p (v_type v) = true -> 0 <= v_size v < 2 ^ 63)
  end.

Lemma type_str_not_dots t : bytes_eqb (type_str t) (str "...") = false.
Proof.
  destruct t as [| | | | | | | | | | | |n| |]; reflexivity.
Qed.

Definition sig_follow (rest : list ttok) : Prop :=
  match rest with TComma :: _ => True | TNL :: _ => True | _ => False end.

Lemma parse_op_sigel k nops st e rest :
  is_sig k = true -> sigel_ok e -> sig_follow rest ->
  parse_op k nops st (tk_sigel e ++ rest) = OpPush (psig e) st rest.
Proof.
  intros Hk Hok Hf.
  assert (Hv : is_var k = false) by (destruct k; try discriminate; reflexivity).
  assert (Hkk : match k with KGlobal => False | KLocal => False | _ => True end) by (destruct k; try discriminate; exact I).
  destruct e as [t|v]; cbn [tk_sigel sigel_ok psig] in *.
  - destruct Hok as [Hw Hu]. cbn [app]. unfold parse_op. rewrite Hk, Hv, type_str_not_dots. cbn [andb negb orb].
    rewrite str2type_type_str by assumption.
    destruct rest as [|[ | | | | | | | | | | | | ] r]; cbn in Hf; try contradiction; reflexivity.
  - destruct Hok as (Hw & Hu & Hsz). unfold tk_arg. destruct (all_blk_type_p (v_type v)) eqn:Eb.
    + cbn [app]. unfold parse_op. rewrite Hk, Hv, type_str_not_dots. cbn [andb negb orb].
      rewrite str2type_type_str by assumption. rewrite Eb. cbn [negb orb].
      destruct (Hsz eq_refl) as [H0 H1].
      destruct (Z.ltb_spec (v_size v) 0); [lia|]. reflexivity.
    + cbn [app]. unfold parse_op. rewrite Hk, Hv, type_str_not_dots. cbn [andb negb orb].
      rewrite str2type_type_str by assumption.
      destruct k; try discriminate; reflexivity.
Qed.

Lemma tk_sigel_head e : exists t r, tk_sigel e = t :: r /\ t <> TNL /\ t <> TSemi.
Proof.
  destruct e as [t|v]; cbn [tk_sigel]; [|unfold tk_arg; destruct (all_blk_type_p (v_type v))];
    eexists _, _; (split; [reflexivity | split; discriminate]).
Qed.

Definition dots_tok : ttok := TName (str "...").

(* the elements of a signature followed by the end of the line or by ", ..." *)
Lemma parse_ops_sig k st rest : is_sig k = true ->
  forall els acc dots fuel, els <> [] -> Forall sigel_ok els -> (length els + 2 < fuel)%nat ->
    parse_ops fuel k st acc (sep_toks tk_sigel els ++ (if dots : bool then [TComma; dots_tok; TNL] else [TNL]) ++ rest)
    = Some (rev acc ++ map psig els, dots, st, rest).
Proof.
  intros Hk. induction els as [|e els IH]; intros acc dots fuel Hne Hok Hfuel; [congruence|].
  pose proof (Forall_inv Hok) as He. pose proof (Forall_inv_tail Hok) as Hoks.
  destruct fuel; [cbn in Hfuel; lia|].
  destruct (tk_sigel_head e) as (t & r & Et & Hn1 & Hn2).
  destruct els as [|e2 els'].
  - rewrite sep_toks_one.
    destruct dots.
    + pose proof (parse_op_sigel k (length acc) st e ([TComma; dots_tok; TNL] ++ rest) Hk He I) as Ep.
      rewrite Et in *. cbn [app] in *. rewrite parse_ops_unfold by assumption. cbv zeta. rewrite Ep.
      destruct fuel; [cbn in Hfuel; lia|].
      assert (Ed : parse_ops (S fuel) k st (psig e :: acc) (dots_tok :: TNL :: rest) = Some (rev (psig e :: acc), true, st, rest)).
      { rewrite parse_ops_unfold by discriminate. cbv zeta. unfold dots_tok, parse_op. rewrite Hk. reflexivity. }
      rewrite Ed. cbn [rev map]. reflexivity.
    + pose proof (parse_op_sigel k (length acc) st e ([TNL] ++ rest) Hk He I) as Ep.
      rewrite Et in *. cbn [app] in *. rewrite parse_ops_unfold by assumption. cbv zeta. rewrite Ep.
      cbn [rev map]. reflexivity.
  - rewrite sep_toks_cons2. rewrite <- !app_assoc. cbn [app].
    pose proof (parse_op_sigel k (length acc) st e
                  (TComma :: sep_toks tk_sigel (e2 :: els') ++ (if dots then [TComma; dots_tok; TNL] else [TNL]) ++ rest) Hk He I) as Ep.
    rewrite Et in *. cbn [app] in *. rewrite parse_ops_unfold by assumption. cbv zeta. rewrite Ep.
    rewrite IH by (try assumption; try discriminate; cbn [length] in Hfuel |- *; lia).
    cbn [rev map]. now rewrite <- app_assoc.
Qed.

Lemma parse_ops_sig_nil k st rest acc dots fuel : is_sig k = true -> (2 < fuel)%nat ->
  parse_ops fuel k st acc ((if dots : bool then [dots_tok; TNL] else [TNL]) ++ rest) = Some (rev acc, dots, st, rest).
Proof.
  intros Hk Hf. destruct fuel; [lia|]. destruct dots; cbn [app].
  - rewrite parse_ops_unfold by discriminate. cbv zeta. unfold dots_tok, parse_op. rewrite Hk. reflexivity.
  - reflexivity.
Qed.

Lemma split_sig_sig res args :
  split_sig (map psig (map SigRes res ++ map SigArg args)) = Some (res, map norm_var args).
Proof.
  induction res as [|t res IH]; cbn [map app psig split_sig].
  - assert (E : fold_right (fun (s : sop) (acc : option (list var)) =>
                   match s, acc with PArg t n sz, Some vs => Some (mkVar t n sz :: vs) | _, _ => None end)
                  (Some []) (map psig (map SigArg args)) = Some (map norm_var args)).
    { induction args as [|v args IHa]; [reflexivity|]. cbn [map psig fold_right]. rewrite IHa. destruct v; reflexivity. }
    destruct args as [|v args']; [reflexivity|].
    cbn [map psig split_sig] in *. rewrite E. reflexivity.
  - rewrite IH. reflexivity.
Qed.

(* ---------------------------------------------------------------- item statements *)

Definition optlist (n : option name) : list name := match n with Some x => [x] | None => [] end.

Lemma parse_labels_optname n kw ts2 F :
  follow_not_col ts2 -> (2 <= F)%nat ->
  parse_labels F (tk_optname n ++ TName kw :: ts2) [] = Some (optlist n, kw, ts2).
Proof.
  intros Hf HF. destruct F as [|[|F]]; try lia.
  destruct n as [x|]; cbn [tk_optname app parse_labels optlist rev skip_nl];
    destruct ts2 as [|[ | | | | | | | | | | | | ] r]; cbn in Hf; try contradiction; reflexivity.
Qed.

Lemma tk_optname_head n kw r : exists x r', tk_optname n ++ TName kw :: r = TName x :: r'.
Proof. destruct n; cbn; eexists _, _; reflexivity. Qed.

Lemma sep_toks_follow ops rest : follow_not_col (sep_toks tk_op ops ++ TNL :: rest).
Proof.
  destruct ops as [|o ops']; [exact I|].
  destruct (tk_op_head o) as (t0 & r0 & Et & _).
  destruct ops'; [rewrite sep_toks_one | rewrite sep_toks_cons2]; rewrite Et;
    destruct o; cbn [tk_op] in Et; try (inversion Et; subst; exact I); unfold tk_mem in Et; inversion Et; subst; exact I.
Qed.

(* a statement outside functions: optional name, keyword, plain operands *)
Lemma stmt_plain k kw n ops ops' st s s' rest :
  stmt_kind (str kw) = Some k -> plain_kind k -> match k with KExpr | KRef | KInsn _ => False | _ => True end ->
  label_count_bad k (length (optlist n)) = false ->
  ss_func st = None -> lrel st s -> tops_ok None (declared (as_rstate st)) k 0 ops -> l_ops s ops = Some (ops', s') ->
  exists st1, same_core st st1 /\ lrel st1 s'
    /\ forall F, (length ops + 2 <= F)%nat ->
         scan_stmt F st (tk_optname n ++ TName (str kw) :: sep_toks tk_op ops ++ TNL :: rest)
         = stmt_exec k (optlist n) st1 (pops ops') false rest.
Proof.
  intros Hkind Hk Hk2 Hcnt Hfs Hrel Hok Hl.
  assert (Hk2' : match k with KExpr | KRef => False | _ => True end) by (destruct k; tauto).
  destruct (parse_ops_list k None rest Hk Hk2' ops ops' [] st s s' Hfs Hrel Hok Hl) as (st1 & Hc & Hr & E).
  exists st1. split; [assumption|]. split; [assumption|].
  intros F HF.
  destruct (tk_optname_head n (str kw) (sep_toks tk_op ops ++ TNL :: rest)) as (x & r' & Eh).
  rewrite Eh, scan_stmt_name, <- Eh. clear Eh x r'.
  unfold scan_body. rewrite parse_labels_optname by (try apply sep_toks_follow; lia).
  rewrite Hkind, Hcnt.
  assert (Hv : is_var k = false) by (destruct Hk as (_ & Hv & _); exact Hv).
  rewrite Hv. cbn [andb].
  assert (Hdl : (match k with KInsn _ | KEndfunc => def_labels st (optlist n) | _ => Some st end) = Some st).
  { destruct k; try reflexivity; try contradiction. destruct Hk as (_ & _ & Hf). contradiction. }
  rewrite Hdl.
  assert (Hef : (match k, ss_func st with KEndfunc, None => negb (Nat.eqb (length (optlist n)) 0) | _, _ => false end) = false).
  { destruct k; try reflexivity. destruct Hk as (_ & _ & Hf). contradiction. }
  rewrite Hef. rewrite E by lia. reflexivity.
Qed.

Definition in_mod (st : sstate) (mn : name) (items : list item) : Prop :=
  ss_mod st = Some (mn, items) /\ ss_func st = None.

Definition add_to (st : sstate) (mn : name) (items : list item) (it : item) : sstate :=
  mkSstate (ss_mods st) (Some (mn, it :: items)) None (ss_labels st) (ss_next st).

Lemma add_named_in st mn items n it :
  in_mod st mn items -> add_named st (optlist n) (fun x => Some (it x)) = Some (add_to st mn items (it n)).
Proof.
  intros [Hm Hf]. unfold add_named, add_item, as_rstate, set_core, add_to. cbn [rs_mod rs_func rs_mods].
  destruct n; cbn [optlist opt_label]; rewrite Hm, Hf; reflexivity.
Qed.

Lemma lrel_add_to st s mn items it : lrel st s -> lrel (add_to st mn items it) s.
Proof. intros [[H1 H2 H3 H4] Hn]. split; [constructor; assumption | assumption]. Qed.

Lemma in_mod_core st st1 mn items : same_core st st1 -> in_mod st mn items -> in_mod st1 mn items.
Proof. intros (_ & H2 & H3) [Hm Hf]. split; congruence. Qed.

(* the result of a statement step: the item is added, labels evolve *)
Definition item_done (st st' : sstate) (mn : name) (items : list item) (it : item) (s' : lstate) : Prop :=
  ss_mods st' = ss_mods st /\ in_mod st' mn (it :: items) /\ lrel st' s'.

Lemma kw_item_step (mk : name -> item) kw k st mn items x s rest :
  stmt_kind (str kw) = Some k ->
  match k with KExport | KImport | KForward => True | _ => False end ->
  (forall st0 r, parse_op k 0 st0 (TName x :: TNL :: r)
                 = match add_item (as_rstate st0) (mk x) with
                   | Some rs => OpItem (mkSstate (rs_mods rs) (rs_mod rs) (rs_func rs) (ss_labels st0) (ss_next st0)) (TNL :: r)
                   | None => OpErr end) ->
  in_mod st mn items -> lrel st s ->
  exists st', item_done st st' mn items (mk x) s
    /\ forall F, (3 <= F)%nat -> scan_stmt F st (TName (str kw) :: TName x :: TNL :: rest) = SNext st' rest.
Proof.
  intros Hkind Hk Hop [Hm Hf] Hrel.
  exists (add_to st mn items (mk x)). split.
  - split; [reflexivity|]. split; [split; reflexivity|]. now apply lrel_add_to.
  - intros F HF. rewrite scan_stmt_name. unfold scan_body.
    destruct F as [|[|[|F]]]; try lia.
    cbn [parse_labels rev]. rewrite Hkind.
    assert (Hcnt : label_count_bad k 0 = false) by (destruct k; try contradiction; reflexivity).
    cbn [length]. rewrite Hcnt.
    assert (Hv : is_var k = false) by (destruct k; try contradiction; reflexivity).
    rewrite Hv. cbn [andb].
    assert (Hdl : (match k with KInsn _ | KEndfunc => def_labels st [] | _ => Some st end) = Some st)
      by (destruct k; try contradiction; reflexivity).
    rewrite Hdl.
    assert (Hef : (match k, ss_func st with KEndfunc, None => negb (Nat.eqb 0 0) | _, _ => false end) = false)
      by (destruct k; try contradiction; reflexivity).
    rewrite Hef.
    rewrite parse_ops_unfold by discriminate. cbv zeta. cbn [length]. rewrite Hop.
    unfold add_item, as_rstate. cbn [rs_mod rs_func rs_mods]. rewrite Hm, Hf.
    cbn [parse_ops rev]. unfold stmt_exec. destruct k; try contradiction; reflexivity.
Qed.

Lemma item_import st mn items x s rest : in_mod st mn items -> lrel st s ->
  exists st', item_done st st' mn items (ItImport x) s
    /\ forall F, (3 <= F)%nat -> scan_stmt F st (tk_item (ItImport x) ++ rest) = SNext st' rest.
Proof. intros. apply (kw_item_step ItImport "import" KImport); try assumption; try reflexivity; exact I. Qed.
Lemma item_export st mn items x s rest : in_mod st mn items -> lrel st s ->
  exists st', item_done st st' mn items (ItExport x) s
    /\ forall F, (3 <= F)%nat -> scan_stmt F st (tk_item (ItExport x) ++ rest) = SNext st' rest.
Proof. intros. apply (kw_item_step ItExport "export" KExport); try assumption; try reflexivity; exact I. Qed.
Lemma item_forward st mn items x s rest : in_mod st mn items -> lrel st s ->
  exists st', item_done st st' mn items (ItForward x) s
    /\ forall F, (3 <= F)%nat -> scan_stmt F st (tk_item (ItForward x) ++ rest) = SNext st' rest.
Proof. intros. apply (kw_item_step ItForward "forward" KForward); try assumption; try reflexivity; exact I. Qed.

Lemma s64_small z : 0 <= z < 2 ^ 63 -> s64 z = z.
Proof. intros H. apply swrap_id; [lia|]. unfold in_s. cbn. lia. Qed.

Lemma item_bss st mn items n len s rest : in_mod st mn items -> lrel st s -> 0 <= len < 2 ^ 63 ->
  exists st', item_done st st' mn items (ItBss n len) s
    /\ forall F, (3 <= F)%nat -> scan_stmt F st (tk_item (ItBss n len) ++ rest) = SNext st' rest.
Proof.
  intros Hin Hrel Hlen. destruct Hin as [Hm Hf].
  destruct (stmt_plain KBss "bss" n [OInt (s64 len)] [OInt (s64 len)] st s s rest) as (st1 & Hc & Hr & E); try assumption; try reflexivity; try exact I.
  { repeat split. }
  { destruct n; reflexivity. }
  { split; exact I. }
  pose proof (in_mod_core st st1 mn items Hc (conj Hm Hf)) as Hin1.
  exists (add_to st1 mn items (ItBss n len)). split.
  - destruct Hc as (C1 & C2 & C3). split; [cbn; congruence|]. split; [split; reflexivity | now apply lrel_add_to].
  - intros F HF. cbn [tk_item]. rewrite <- app_assoc. cbn [app].
    pose proof (E F ltac:(cbn; lia)) as E'. rewrite sep_toks_one in E'. cbn [tk_op app] in E'. rewrite E'.
    unfold stmt_exec, pops. cbn [map tnorm_op]. rewrite s64_small by assumption.
    destruct (Z.ltb_spec len 0); [lia|]. rewrite (add_named_in st1 mn items n (fun x => ItBss x len) Hin1). reflexivity.
Qed.

Lemma parse_ops_ref k st r d rest F :
  (k = KRef \/ k = KExpr) -> declared (as_rstate st) r = true -> (3 <= F)%nat ->
  parse_ops F k st [] (TName r :: TComma :: TInt d :: TNL :: rest) = Some ([POp (ORef r); POp (OInt d)], false, st, rest).
Proof.
  intros Hk Hd HF. destruct F as [|[|[|F]]]; try lia.
  rewrite parse_ops_unfold by discriminate. cbv zeta.
  rewrite parse_op_name; [ | destruct Hk; subst k; repeat split | exact I].
  assert (Hlp : label_position k (length (@nil sop)) = false) by (destruct Hk; subst k; reflexivity).
  rewrite Hlp. assert (Hkk : match k with KExpr | KRef => true | _ => false end = true) by (destruct Hk; subst k; reflexivity).
  rewrite Hkk, Hd. cbn [negb andb]. reflexivity.
Qed.

Lemma item_ref st mn items n r d s rest : in_mod st mn items -> lrel st s -> declared (as_rstate st) r = true ->
  exists st', item_done st st' mn items (ItRef n r d) s
    /\ forall F, (4 <= F)%nat -> scan_stmt F st (tk_item (ItRef n r d) ++ rest) = SNext st' rest.
Proof.
  intros Hin Hrel Hd. exists (add_to st mn items (ItRef n r d)). split.
  - split; [reflexivity|]. split; [split; reflexivity | now apply lrel_add_to].
  - intros F HF. cbn [tk_item]. rewrite <- app_assoc. cbn [app].
    destruct (tk_optname_head n (str "ref") (TName r :: TComma :: TInt d :: TNL :: rest)) as (x & r' & Eh).
    rewrite Eh, scan_stmt_name, <- Eh. clear Eh x r'.
    unfold scan_body. rewrite parse_labels_optname by (try exact I; lia).
    assert (Hkd : stmt_kind (str "ref") = Some KRef) by reflexivity. rewrite Hkd.
    assert (Hcnt : label_count_bad KRef (length (optlist n)) = false) by (destruct n; reflexivity).
    rewrite Hcnt. cbn [is_var andb]. destruct Hin as [Hm Hf].
    rewrite parse_ops_ref by (try tauto; try assumption; lia).
    unfold stmt_exec. rewrite (add_named_in st mn items n (fun x => ItRef x r d) (conj Hm Hf)). reflexivity.
Qed.

Lemma item_expr st mn items n f s rest : in_mod st mn items -> lrel st s ->
  declared (as_rstate st) f = true -> declared_func (as_rstate st) f = true ->
  exists st', item_done st st' mn items (ItExpr n f) s
    /\ forall F, (4 <= F)%nat -> scan_stmt F st (tk_item (ItExpr n f) ++ rest) = SNext st' rest.
Proof.
  intros Hin Hrel Hd Hdf. exists (add_to st mn items (ItExpr n f)). split.
  - split; [reflexivity|]. split; [split; reflexivity | now apply lrel_add_to].
  - intros F HF. cbn [tk_item]. rewrite <- app_assoc. cbn [app].
    destruct (tk_optname_head n (str "expr") (TName f :: TNL :: rest)) as (x & r' & Eh).
    rewrite Eh, scan_stmt_name, <- Eh. clear Eh x r'.
    unfold scan_body. rewrite parse_labels_optname by (try exact I; lia).
    assert (Hkd : stmt_kind (str "expr") = Some KExpr) by reflexivity. rewrite Hkd.
    assert (Hcnt : label_count_bad KExpr (length (optlist n)) = false) by (destruct n; reflexivity).
    rewrite Hcnt. cbn [is_var andb]. destruct Hin as [Hm Hf].
    destruct F as [|[|F]]; try lia.
    rewrite parse_ops_unfold by discriminate. cbv zeta.
    rewrite parse_op_name; [ | repeat split | exact I]. cbn [label_position negb andb length]. rewrite Hd. cbn [parse_ops rev app].
    unfold stmt_exec. cbv beta iota zeta. rewrite Hdf. rewrite (add_named_in st mn items n (fun x => ItExpr x f) (conj Hm Hf)). reflexivity.
Qed.

Definition lref_ops (l : Z) (l2 : option Z) (d : Z) : list operand :=
  OLabel l :: (match l2 with Some x => [OLabel x] | None => [] end) ++ (if d =? 0 then [] else [OInt d]).

Definition l_item_lref (s : lstate) (l : Z) (l2 : option Z) : option (Z * option Z * lstate) :=
  match l_ref s l with
  | Some (k, s1) => match l2 with
                    | Some x => match l_ref s1 x with Some (k2, s2) => Some (k, Some k2, s2) | None => None end
                    | None => Some (k, None, s1)
                    end
  | None => None
  end.

Lemma item_lref st mn items n l l2 k k2 d s s' rest : in_mod st mn items -> lrel st s ->
  l_item_lref s l l2 = Some (k, k2, s') ->
  exists st', item_done st st' mn items (ItLref n k k2 d) s'
    /\ forall F, (length (lref_ops l l2 d) + 2 <= F)%nat -> scan_stmt F st (tk_item (ItLref n l l2 d) ++ rest) = SNext st' rest.
Proof.
  intros Hin Hrel Hl. destruct Hin as [Hm Hf].
  assert (Etk : tk_item (ItLref n l l2 d) ++ rest
                = tk_optname n ++ TName (str "lref") :: sep_toks tk_op (lref_ops l l2 d) ++ TNL :: rest).
  { cbn [tk_item]. unfold lref_ops. rewrite <- !app_assoc. cbn [app]. f_equal. f_equal.
    destruct l2 as [x|], (d =? 0); reflexivity. }
  assert (Hlops : l_ops s (lref_ops l l2 d) = Some (lref_ops k k2 d, s')).
  { unfold lref_ops, l_item_lref in *. cbn [l_ops l_op]. destruct (l_ref s l) as [[k0 s1]|]; [|discriminate].
    destruct l2 as [x|]; cbn [app l_ops l_op].
    - destruct (l_ref s1 x) as [[k3 s2]|]; [|discriminate]. inversion Hl; subst. destruct (d =? 0); reflexivity.
    - inversion Hl; subst. destruct (d =? 0); reflexivity. }
  assert (Hok : tops_ok None (declared (as_rstate st)) KLref 0 (lref_ops l l2 d)).
  { unfold lref_ops. destruct l2 as [x|], (d =? 0); cbn; tauto. }
  destruct (stmt_plain KLref "lref" n (lref_ops l l2 d) (lref_ops k k2 d) st s s' rest) as (st1 & Hc & Hr & E); try assumption; try reflexivity; try exact I.
  { repeat split. }
  { destruct n; reflexivity. }
  pose proof (in_mod_core st st1 mn items Hc (conj Hm Hf)) as Hin1.
  exists (add_to st1 mn items (ItLref n k k2 d)). split.
  - destruct Hc as (C1 & C2 & C3). split; [cbn; congruence|]. split; [split; reflexivity | now apply lrel_add_to].
  - intros F HF. rewrite Etk. rewrite E by exact HF.
    unfold stmt_exec, pops, lref_ops.
    destruct k2 as [x|]; destruct (Z.eqb_spec d 0) as [->|Hd]; cbn [map tnorm_op app];
      rewrite ?(add_named_in st1 mn items n (fun y => ItLref y k (Some x) 0) Hin1),
              ?(add_named_in st1 mn items n (fun y => ItLref y k (Some x) d) Hin1),
              ?(add_named_in st1 mn items n (fun y => ItLref y k None 0) Hin1),
              ?(add_named_in st1 mn items n (fun y => ItLref y k None d) Hin1); reflexivity.
Qed.

(* data elements as operands *)
Definition el_op (t : mtype) (z : Z) : operand :=
  match t with
  | TI8 | TI16 | TI32 | TI64 => OInt z
  | TU8 | TU16 | TU32 | TU64 | TP => OInt (s64 z)
  | TF => OFloat z | TD => ODouble z | TLD => OLdouble z
  | TBLK _ | TRBLK | TUNDEF => OInt 0
  end.

Definition data_type (t : mtype) : bool := match t with TBLK _ | TRBLK | TUNDEF => false | _ => true end.

Lemma sep_toks_el t els : data_type t = true -> sep_toks (tk_el t) els = sep_toks tk_op (map (el_op t) els).
Proof.
  intros Ht. induction els as [|z els IH]; [reflexivity|]. destruct els as [|z2 els'].
  - destruct t; try discriminate; reflexivity.
  - cbn [map]. rewrite !sep_toks_cons2. cbn [map] in IH. rewrite IH. destruct t; try discriminate; reflexivity.
Qed.

Lemma tops_ok_imm ofs d k t els : forall pos, tops_ok ofs d k pos (map (el_op t) els).
Proof. induction els as [|z els IH]; intros pos; [exact I|]. split; [destruct t; exact I | apply IH]. Qed.

Lemma l_ops_imm s t els : l_ops s (map (el_op t) els) = Some (map (el_op t) els, s).
Proof. induction els as [|z els IH]; [reflexivity|]. cbn [map l_ops]. destruct t; cbn [el_op l_op]; rewrite IH; reflexivity. Qed.

Lemma map_tnorm_imm t els : map tnorm_op (map (el_op t) els) = map (el_op t) els.
Proof. rewrite map_map. apply map_ext. intros z. destruct t; reflexivity. Qed.

Lemma data_el_op t z : el_ok t z -> data_el t (el_op t z) = Some z.
Proof.
  destruct t; cbn [el_ok el_op data_el]; intros H; try contradiction; try reflexivity;
    try (rewrite swrap_id by (try assumption; lia); reflexivity).
  - (* u8 *) unfold in_u in H. cbn in H. rewrite s64_small by lia. rewrite uwrap_id by (unfold in_u; cbn; lia). reflexivity.
  - unfold in_u in H. cbn in H. rewrite s64_small by lia. rewrite uwrap_id by (unfold in_u; cbn; lia). reflexivity.
  - unfold in_u in H. cbn in H. rewrite s64_small by lia. rewrite uwrap_id by (unfold in_u; cbn; lia). reflexivity.
  - unfold s64. rewrite uwrap_swrap by lia. rewrite uwrap_id by assumption. reflexivity.
  - unfold s64. rewrite uwrap_swrap by lia. rewrite uwrap_id by assumption. reflexivity.
Qed.

Lemma map_opt_data t els : Forall (el_ok t) els -> map_opt (data_el t) (map (el_op t) els) = Some els.
Proof.
  induction els as [|z els IH]; intros H; [reflexivity|].
  cbn [map map_opt]. rewrite data_el_op by exact (Forall_inv H). rewrite IH by exact (Forall_inv_tail H). reflexivity.
Qed.

Lemma stmt_kind_type t : data_type t = true -> wf_mtype t -> stmt_kind (type_str t) = Some (KData t).
Proof. destruct t; try discriminate; reflexivity. Qed.

Lemma item_data st mn items n t els s rest : in_mod st mn items -> lrel st s ->
  data_type t = true -> Forall (el_ok t) els ->
  exists st', item_done st st' mn items (ItData n t els) s
    /\ forall F, (length els + 2 <= F)%nat -> scan_stmt F st (tk_item (ItData n t els) ++ rest) = SNext st' rest.
Proof.
  intros Hin Hrel Ht Hels. destruct Hin as [Hm Hf].
  assert (Hw : wf_mtype t) by (destruct t; try discriminate; exact I).
  destruct (parse_ops_list (KData t) None rest ltac:(repeat split) I (map (el_op t) els) (map (el_op t) els) [] st s s Hf Hrel
              (tops_ok_imm None _ (KData t) t els _) (l_ops_imm s t els)) as (st1 & Hc & Hr & E).
  pose proof (in_mod_core st st1 mn items Hc (conj Hm Hf)) as Hin1.
  exists (add_to st1 mn items (ItData n t els)). split.
  - destruct Hc as (C1 & C2 & C3). split; [cbn; congruence|]. split; [split; reflexivity | now apply lrel_add_to].
  - intros F HF. cbn [tk_item]. rewrite <- !app_assoc. cbn [app].
    rewrite sep_toks_el by assumption.
    destruct (tk_optname_head n (type_str t) (sep_toks tk_op (map (el_op t) els) ++ TNL :: rest)) as (x & r' & Eh).
    rewrite Eh, scan_stmt_name, <- Eh. clear Eh x r'.
    unfold scan_body. rewrite parse_labels_optname by (try apply sep_toks_follow; lia).
    rewrite stmt_kind_type by assumption.
    assert (Hcnt : label_count_bad (KData t) (length (optlist n)) = false) by (destruct n; reflexivity).
    rewrite Hcnt. cbn [is_var andb].
    rewrite E by (rewrite map_length; lia). cbn [rev app].
    unfold stmt_exec. rewrite all_ops_pops, map_tnorm_imm, map_opt_data by assumption.
    rewrite (add_named_in st1 mn items n (fun x => ItData x t els) Hin1). reflexivity.
Qed.

(* ---------------------------------------------------------------- proto items and function headers *)

Definition sig_els (res : list mtype) (args : list var) : list sigel := map SigRes res ++ map SigArg args.

Lemma tk_proto_tail_form va res args rest :
  tk_proto_tail va res args ++ rest
  = match sig_els res args with
    | [] => (if va then [dots_tok; TNL] else [TNL]) ++ rest
    | _ => sep_toks tk_sigel (sig_els res args) ++ (if va then [TComma; dots_tok; TNL] else [TNL]) ++ rest
    end.
Proof.
  unfold tk_proto_tail, sig_els, dots_tok. destruct res as [|t res], args as [|v args], va; cbn [map app];
    repeat rewrite <- app_assoc; cbn [app]; try reflexivity.
Qed.

Definition sig_ok (res : list mtype) (args : list var) : Prop := Forall sigel_ok (sig_els res args).

Lemma parse_ops_proto_tail k st va res args rest fuel :
  is_sig k = true -> sig_ok res args -> (length (sig_els res args) + 2 < fuel)%nat ->
  parse_ops fuel k st [] (tk_proto_tail va res args ++ rest) = Some (map psig (sig_els res args), va, st, rest).
Proof.
  intros Hk Hok Hf. rewrite tk_proto_tail_form. unfold sig_ok in Hok. destruct (sig_els res args) as [|e els] eqn:E.
  - rewrite parse_ops_sig_nil by (try assumption; cbn [length] in Hf; lia). reflexivity.
  - rewrite parse_ops_sig by (try assumption; try discriminate; cbn [length] in Hf |- *; lia). reflexivity.
Qed.

Lemma proto_follow va res args rest : follow_not_col (tk_proto_tail va res args ++ rest).
Proof.
  rewrite tk_proto_tail_form. destruct (sig_els res args) as [|e els].
  - destruct va; exact I.
  - destruct (tk_sigel_head e) as (t & r & Et & _). destruct els; [rewrite sep_toks_one | rewrite sep_toks_cons2]; rewrite Et;
      destruct e as [ty|v]; cbn [tk_sigel] in Et; try (inversion Et; subst; exact I);
      unfold tk_arg in Et; destruct (all_blk_type_p (v_type v)); inversion Et; subst; exact I.
Qed.

Lemma parse_labels_named n kw r F : follow_not_col r -> (3 <= F)%nat ->
  parse_labels F (TName n :: TCol :: TName kw :: r) [] = Some ([n], kw, r).
Proof.
  intros Hr HF. destruct F as [|[|[|F]]]; try lia. cbn [parse_labels rev app skip_nl].
  destruct r as [|[ | | | | | | | | | | | | ] r']; cbn in Hr; try contradiction; reflexivity.
Qed.

Lemma item_proto st mn items n va res args s rest : in_mod st mn items -> lrel st s -> sig_ok res args ->
  exists st', item_done st st' mn items (ItProto n va res (map norm_var args)) s
    /\ forall F, (length (sig_els res args) + 3 < F)%nat ->
         scan_stmt F st (tk_item (ItProto n va res args) ++ rest) = SNext st' rest.
Proof.
  intros [Hm Hf] Hrel Hok. exists (add_to st mn items (ItProto n va res (map norm_var args))). split.
  - split; [reflexivity|]. split; [split; reflexivity | now apply lrel_add_to].
  - intros F HF. cbn [tk_item]. rewrite <- app_assoc. cbn [app]. rewrite scan_stmt_name. unfold scan_body.
    rewrite parse_labels_named by (try apply proto_follow; lia).
    assert (Hkd : stmt_kind (str "proto") = Some KProto) by reflexivity. rewrite Hkd.
    cbn [label_count_bad length Nat.eqb negb is_var andb].
    rewrite parse_ops_proto_tail by (try assumption; try reflexivity; lia).
    unfold stmt_exec. rewrite Hm. unfold sig_els. rewrite split_sig_sig.
    unfold add_item, as_rstate, set_core, add_to. cbn [rs_mod rs_func rs_mods]. rewrite Hm, Hf. reflexivity.
Qed.

(* the header line of a function *)
Lemma stmt_func_header st mn items f s rest : in_mod st mn items -> lrel st s -> sig_ok (f_res f) (f_args f) ->
  exists st', ss_mods st' = ss_mods st /\ ss_mod st' = Some (mn, items)
    /\ ss_func st' = Some (mkFstate (f_name f) (f_vararg f) (f_res f) (map norm_var (f_args f)) [] [] [])
    /\ lrel st' s
    /\ forall F, (length (sig_els (f_res f) (f_args f)) + 3 < F)%nat ->
         scan_stmt F st ([TName (f_name f); TCol; TName (str "func")] ++ tk_proto_tail (f_vararg f) (f_res f) (f_args f) ++ rest)
         = SNext st' rest.
Proof.
  intros [Hm Hf] Hrel Hok.
  exists (set_func st (mkFstate (f_name f) (f_vararg f) (f_res f) (map norm_var (f_args f)) [] [] [])).
  split; [reflexivity|]. split; [exact Hm|]. split; [reflexivity|]. split; [now apply lrel_set_func|].
  intros F HF. cbn [app]. rewrite scan_stmt_name. unfold scan_body.
  rewrite parse_labels_named by (try apply proto_follow; lia).
  assert (Hkd : stmt_kind (str "func") = Some KFunc) by reflexivity. rewrite Hkd.
  cbn [label_count_bad length Nat.eqb negb is_var andb].
  rewrite parse_ops_proto_tail by (try assumption; try reflexivity; lia).
  unfold stmt_exec. rewrite Hm, Hf. unfold sig_els. rewrite split_sig_sig. unfold set_func. rewrite Hm. reflexivity.
Qed.

(* ---------------------------------------------------------------- local / global lines *)

Lemma parse_ops_elems {A} (tk : A -> list ttok) (pe : A -> sop) (okp : A -> Prop) k st rest :
  (forall a nops r, okp a -> sig_follow r -> parse_op k nops st (tk a ++ r) = OpPush (pe a) st r) ->
  (forall a, exists t r, tk a = t :: r /\ t <> TNL /\ t <> TSemi) ->
  forall els acc fuel, Forall okp els -> (length els < fuel)%nat ->
    parse_ops fuel k st acc (sep_toks tk els ++ TNL :: rest) = Some (rev acc ++ map pe els, false, st, rest).
Proof.
  intros Hop Hhead. induction els as [|e els IH]; intros acc fuel Hok Hfuel.
  - destruct fuel; [cbn in Hfuel; lia|]. cbn [sep_toks app parse_ops map]. now rewrite app_nil_r.
  - destruct fuel; [cbn in Hfuel; lia|].
    pose proof (Forall_inv Hok) as He. pose proof (Forall_inv_tail Hok) as Hoks.
    destruct (Hhead e) as (t & r & Et & Hn1 & Hn2).
    destruct els as [|e2 els'].
    + rewrite sep_toks_one. pose proof (Hop e (length acc) (TNL :: rest) He I) as Ep.
      rewrite Et in *. cbn [app] in *. rewrite parse_ops_unfold by assumption. cbv zeta. rewrite Ep. cbn [rev map]. reflexivity.
    + rewrite sep_toks_cons2. rewrite <- app_assoc. cbn [app].
      pose proof (Hop e (length acc) (TComma :: sep_toks tk (e2 :: els') ++ TNL :: rest) He I) as Ep.
      rewrite Et in *. cbn [app] in *. rewrite parse_ops_unfold by assumption. cbv zeta. rewrite Ep.
      rewrite IH by (try assumption; cbn [length] in Hfuel |- *; lia). cbn [rev map]. now rewrite <- app_assoc.
Qed.

Definition reg_type (t : mtype) : Prop := t = TI64 \/ t = TF \/ t = TD \/ t = TLD.

Lemma parse_op_local nops st v r : reg_type (fst v) -> sig_follow r ->
  parse_op KLocal nops st (tk_local v ++ r) = OpPush (PVar (fst v) (snd v) None) st r.
Proof.
  intros Ht Hf. destruct v as [t n]. cbn [fst snd tk_local app] in *.
  destruct Ht as [->|[->|[->| ->]]]; reflexivity.
Qed.

Lemma parse_op_global nops st v r : reg_type (fst (fst v)) -> sig_follow r ->
  parse_op KGlobal nops st (tk_global v ++ r) = OpPush (PVar (fst (fst v)) (snd (fst v)) (Some (snd v))) st r.
Proof.
  intros Ht Hf. destruct v as [[t n] h]. cbn [fst snd tk_global app] in *.
  destruct Ht as [->|[->|[->| ->]]]; reflexivity.
Qed.

Definition set_vars (fs : fstate) (ls : list (mtype * name)) (gs : list (mtype * name * name)) : fstate :=
  mkFstate (fs_name fs) (fs_vararg fs) (fs_res fs) (fs_args fs) ls gs (fs_insns fs).

Lemma fold_locals line ls gs :
  fold_left (fun acc s => match acc, s with
                          | Some (ls, gs), PVar t n None => Some ((t, n) :: ls, gs)
                          | Some (ls, gs), PVar t n (Some h) => Some (ls, (t, n, h) :: gs)
                          | _, _ => None end)
            (map (fun v : mtype * name => PVar (fst v) (snd v) None) line) (Some (ls, gs))
  = Some (rev line ++ ls, gs).
Proof.
  revert ls; induction line as [|[t n] line IH]; intros ls; [reflexivity|].
  cbn [map fold_left fst snd]. rewrite IH. cbn [rev]. now rewrite <- app_assoc.
Qed.

Lemma fold_globals line ls gs :
  fold_left (fun acc s => match acc, s with
                          | Some (ls, gs), PVar t n None => Some ((t, n) :: ls, gs)
                          | Some (ls, gs), PVar t n (Some h) => Some (ls, (t, n, h) :: gs)
                          | _, _ => None end)
            (map (fun v : mtype * name * name => PVar (fst (fst v)) (snd (fst v)) (Some (snd v))) line) (Some (ls, gs))
  = Some (ls, rev line ++ gs).
Proof.
  revert gs; induction line as [|[[t n] h] line IH]; intros gs; [reflexivity|].
  cbn [map fold_left fst snd]. rewrite IH. cbn [rev]. now rewrite <- app_assoc.
Qed.

Lemma tk_local_head (a : mtype * name) : exists t r, tk_local a = t :: r /\ t <> TNL /\ t <> TSemi.
Proof. destruct a as [t n]. eexists _, _. split; [reflexivity | split; discriminate]. Qed.
Lemma tk_global_head (a : mtype * name * name) : exists t r, tk_global a = t :: r /\ t <> TNL /\ t <> TSemi.
Proof. destruct a as [[t n] h]. eexists _, _. split; [reflexivity | split; discriminate]. Qed.

Lemma parse_labels_kw kw t r F : (1 <= F)%nat -> t <> TCol ->
  parse_labels F (TName kw :: t :: r) [] = Some ([], kw, t :: r).
Proof. intros HF Ht. destruct F; [lia|]. destruct t; try reflexivity. contradiction. Qed.

Lemma sep_toks_head {A} (tk : A -> list ttok) (els : list A) rest :
  (forall a, exists t r, tk a = t :: r /\ t <> TNL /\ t <> TSemi) ->
  (forall a t r, tk a = t :: r -> t <> TCol) ->
  exists t r, sep_toks tk els ++ TNL :: rest = t :: r /\ t <> TCol.
Proof.
  intros Hh Hc. destruct els as [|e els].
  - exists TNL, rest. split; [reflexivity | discriminate].
  - destruct (Hh e) as (t & r & Et & _). destruct els; [rewrite sep_toks_one | rewrite sep_toks_cons2]; rewrite Et.
    + eexists _, _. split; [reflexivity | exact (Hc e t r Et)].
    + rewrite <- app_assoc. cbn [app]. eexists _, _. split; [reflexivity | exact (Hc e t r Et)].
Qed.

Lemma stmt_local_line st fs line s rest : ss_func st = Some fs -> lrel st s ->
  Forall (fun v : mtype * name => reg_type (fst v)) line ->
  exists st', ss_mods st' = ss_mods st /\ ss_mod st' = ss_mod st
    /\ ss_func st' = Some (set_vars fs (rev line ++ fs_locals fs) (fs_globals fs)) /\ lrel st' s
    /\ forall F, (length line + 1 < F)%nat ->
         scan_stmt F st (TName (str "local") :: sep_toks tk_local line ++ TNL :: rest) = SNext st' rest.
Proof.
  intros Hfs Hrel Hok.
  exists (set_func st (set_vars fs (rev line ++ fs_locals fs) (fs_globals fs))).
  split; [reflexivity|]. split; [reflexivity|]. split; [reflexivity|]. split; [now apply lrel_set_func|].
  intros F HF. rewrite scan_stmt_name. unfold scan_body.
  destruct (sep_toks_head tk_local line rest tk_local_head) as (t0 & r0 & E0 & Hc0).
  { intros [t n] t1 r1 E. inversion E; subst. discriminate. }
  assert (Pe : parse_ops F KLocal st [] (sep_toks tk_local line ++ TNL :: rest)
               = Some (rev [] ++ map (fun v : mtype * name => PVar (fst v) (snd v) None) line, false, st, rest)).
  { apply (parse_ops_elems tk_local (fun v => PVar (fst v) (snd v) None) (fun v => reg_type (fst v))); try assumption; try lia.
    - intros a nops r Ha Hr. now apply parse_op_local.
    - apply tk_local_head. }
  rewrite E0 in *. rewrite parse_labels_kw by (try assumption; lia).
  assert (Hkd : stmt_kind (str "local") = Some KLocal) by reflexivity. rewrite Hkd.
  cbn [label_count_bad length Nat.eqb negb is_var andb]. rewrite Hfs. cbn [is_some negb].
  rewrite Pe. cbn [rev app]. unfold stmt_exec. rewrite Hfs, fold_locals. reflexivity.
Qed.

Lemma stmt_global_line st fs line s rest : ss_func st = Some fs -> lrel st s ->
  Forall (fun v : mtype * name * name => reg_type (fst (fst v))) line ->
  exists st', ss_mods st' = ss_mods st /\ ss_mod st' = ss_mod st
    /\ ss_func st' = Some (set_vars fs (fs_locals fs) (rev line ++ fs_globals fs)) /\ lrel st' s
    /\ forall F, (length line + 1 < F)%nat ->
         scan_stmt F st (TName (str "global") :: sep_toks tk_global line ++ TNL :: rest) = SNext st' rest.
Proof.
  intros Hfs Hrel Hok.
  exists (set_func st (set_vars fs (fs_locals fs) (rev line ++ fs_globals fs))).
  split; [reflexivity|]. split; [reflexivity|]. split; [reflexivity|]. split; [now apply lrel_set_func|].
  intros F HF. rewrite scan_stmt_name. unfold scan_body.
  destruct (sep_toks_head tk_global line rest tk_global_head) as (t0 & r0 & E0 & Hc0).
  { intros [[t n] h] t1 r1 E. inversion E; subst. discriminate. }
  assert (Pe : parse_ops F KGlobal st [] (sep_toks tk_global line ++ TNL :: rest)
               = Some (rev [] ++ map (fun v : mtype * name * name => PVar (fst (fst v)) (snd (fst v)) (Some (snd v))) line, false, st, rest)).
  { apply (parse_ops_elems tk_global (fun v => PVar (fst (fst v)) (snd (fst v)) (Some (snd v))) (fun v => reg_type (fst (fst v))));
      try assumption; try lia.
    - intros a nops r Ha Hr. now apply parse_op_global.
    - apply tk_global_head. }
  rewrite E0 in *. rewrite parse_labels_kw by (try assumption; lia).
  assert (Hkd : stmt_kind (str "global") = Some KGlobal) by reflexivity. rewrite Hkd.
  cbn [label_count_bad length Nat.eqb negb is_var andb]. rewrite Hfs. cbn [is_some negb].
  rewrite Pe. cbn [rev app]. unfold stmt_exec. rewrite Hfs, fold_globals. reflexivity.
Qed.

(* all the lines of one kind *)
Definition var_lines {A} (kw : string) (tk : A -> list ttok) (lines : list (list A)) : list ttok :=
  flat_map (fun line => TName (str kw) :: sep_toks tk line ++ [TNL]) lines.

Lemma local_lines_reach rest : forall lines st fs s,
  ss_func st = Some fs -> lrel st s ->
  Forall (fun line => Forall (fun v : mtype * name => reg_type (fst v)) line) lines ->
  exists st', sreaches st (var_lines "local" tk_local lines ++ rest) st' rest
    /\ ss_mods st' = ss_mods st /\ ss_mod st' = ss_mod st
    /\ ss_func st' = Some (set_vars fs (rev (List.concat lines) ++ fs_locals fs) (fs_globals fs)) /\ lrel st' s.
Proof.
  induction lines as [|line lines IH]; intros st fs s Hfs Hrel Hok.
  - exists st. split; [apply sreaches_refl|]. split; [reflexivity|]. split; [reflexivity|]. split; [|assumption].
    rewrite Hfs. destruct fs; reflexivity.
  - pose proof (Forall_inv Hok) as Hl. pose proof (Forall_inv_tail Hok) as Hls.
    destruct (stmt_local_line st fs line s (var_lines "local" tk_local lines ++ rest) Hfs Hrel Hl) as (st1 & M1 & M2 & F1 & Hr1 & Hstep).
    destruct (IH st1 _ s F1 Hr1 Hls) as (st2 & Hre & N1 & N2 & F2 & Hr2).
    exists st2. split; [|split; [congruence|split; [congruence|split; [|assumption]]]].
    + eapply sreaches_trans; [|exact Hre].
      unfold var_lines at 1. cbn [flat_map]. fold (var_lines "local" tk_local lines). rewrite <- app_assoc.
      apply (sreaches_step st (TName (str "local") :: sep_toks tk_local line ++ [TNL]) (var_lines "local" tk_local lines ++ rest) st1);
        [cbn; lia|].
      intros F HF. cbn [app]. rewrite <- app_assoc. cbn [app]. apply Hstep.
      cbn [length app] in HF. rewrite !app_length in HF. cbn [length] in HF.
      assert (length line <= length (sep_toks tk_local line))%nat.
      { clear. induction line as [|[t n] line IHl]; [cbn; lia|]. destruct line as [|v2 l2].
        - cbn. lia.
        - rewrite sep_toks_cons2, app_length. cbn [tk_local length] in *. lia. }
      lia.
    + rewrite F2. unfold set_vars. cbn [fs_name fs_vararg fs_res fs_args fs_locals fs_globals fs_insns List.concat].
      rewrite rev_app_distr, <- app_assoc. reflexivity.
Qed.

Lemma global_lines_reach rest : forall lines st fs s,
  ss_func st = Some fs -> lrel st s ->
  Forall (fun line => Forall (fun v : mtype * name * name => reg_type (fst (fst v))) line) lines ->
  exists st', sreaches st (var_lines "global" tk_global lines ++ rest) st' rest
    /\ ss_mods st' = ss_mods st /\ ss_mod st' = ss_mod st
    /\ ss_func st' = Some (set_vars fs (fs_locals fs) (rev (List.concat lines) ++ fs_globals fs)) /\ lrel st' s.
Proof.
  induction lines as [|line lines IH]; intros st fs s Hfs Hrel Hok.
  - exists st. split; [apply sreaches_refl|]. split; [reflexivity|]. split; [reflexivity|]. split; [|assumption].
    rewrite Hfs. destruct fs; reflexivity.
  - pose proof (Forall_inv Hok) as Hl. pose proof (Forall_inv_tail Hok) as Hls.
    destruct (stmt_global_line st fs line s (var_lines "global" tk_global lines ++ rest) Hfs Hrel Hl) as (st1 & M1 & M2 & F1 & Hr1 & Hstep).
    destruct (IH st1 _ s F1 Hr1 Hls) as (st2 & Hre & N1 & N2 & F2 & Hr2).
    exists st2. split; [|split; [congruence|split; [congruence|split; [|assumption]]]].
    + eapply sreaches_trans; [|exact Hre].
      unfold var_lines at 1. cbn [flat_map]. fold (var_lines "global" tk_global lines). rewrite <- app_assoc.
      apply (sreaches_step st (TName (str "global") :: sep_toks tk_global line ++ [TNL]) (var_lines "global" tk_global lines ++ rest) st1);
        [cbn; lia|].
      intros F HF. cbn [app]. rewrite <- app_assoc. cbn [app]. apply Hstep.
      cbn [length app] in HF. rewrite !app_length in HF. cbn [length] in HF.
      assert (length line <= length (sep_toks tk_global line))%nat.
      { clear. induction line as [|[[t n] h] line IHl]; [cbn; lia|]. destruct line as [|v2 l2].
        - cbn. lia.
        - rewrite sep_toks_cons2, app_length. cbn [tk_global length] in *. lia. }
      lia.
    + rewrite F2. unfold set_vars. cbn [fs_name fs_vararg fs_res fs_args fs_locals fs_globals fs_insns List.concat].
      rewrite rev_app_distr, <- app_assoc. reflexivity.
Qed.

Lemma concat_chunks8 {A} : forall fuel (l : list A), (length l <= fuel)%nat -> List.concat (chunks8 fuel l) = l.
Proof.
  induction fuel as [|f IH]; intros l Hl.
  - destruct l; [reflexivity | cbn in Hl; lia].
  - destruct l as [|a l']; [reflexivity|]. cbn [chunks8 List.concat].
    rewrite IH.
    + apply firstn_skipn.
    + rewrite skipn_length. cbn [length] in *. lia.
Qed.

Lemma In_firstn {A} (x : A) : forall n l, In x (firstn n l) -> In x l.
Proof. induction n as [|n IH]; intros l H; [contradiction|]. destruct l as [|a l]; [contradiction|]. destruct H as [->|H]; [now left | right; now apply IH]. Qed.
Lemma In_skipn {A} (x : A) : forall n l, In x (skipn n l) -> In x l.
Proof. induction n as [|n IH]; intros l H; [exact H|]. destruct l as [|a l]; [contradiction|]. right. now apply IH. Qed.

Lemma Forall_chunks8 {A} (P : A -> Prop) : forall fuel (l : list A), Forall P l -> Forall (Forall P) (chunks8 fuel l).
Proof.
  induction fuel as [|f IH]; intros l Hl.
  - destruct l as [|a l']; [constructor|]. cbn [chunks8]. constructor; [assumption | constructor].
  - destruct l as [|a l']; [constructor|]. cbn [chunks8]. constructor.
    + apply Forall_forall. intros x Hx. apply (proj1 (Forall_forall P _) Hl). exact (In_firstn x _ _ Hx).
    + apply IH. apply Forall_forall. intros x Hx. apply (proj1 (Forall_forall P _) Hl). exact (In_skipn x _ _ Hx).
Qed.

(* ---------------------------------------------------------------- whole functions *)

Definition fs_of_func (f : func) : fstate :=
  mkFstate (f_name f) (f_vararg f) (f_res f) (map norm_var (f_args f)) (rev (f_locals f)) (rev (f_globals f)) [].

Definition func_ok (items : list item) (f : func) : Prop :=
  sig_ok (f_res f) (f_args f)
  /\ Forall (fun v : mtype * name => reg_type (fst v)) (f_locals f)
  /\ Forall (fun v : mtype * name * name => reg_type (fst (fst v))) (f_globals f)
  /\ Forall (insn_ok (fs_of_func f) (decl_of items (f_name f))) (f_insns f).

Lemma declared_in_func st mn items fs :
  ss_mod st = Some (mn, items) -> ss_func st = Some fs ->
  forall x, declared (as_rstate st) x = decl_of items (fs_name fs) x.
Proof. intros Hm Hf x. unfold declared, as_rstate, decl_of. cbn. rewrite Hm, Hf. reflexivity. Qed.

Lemma tk_func_form f rest :
  tk_func f ++ rest
  = ([TName (f_name f); TCol; TName (str "func")] ++ tk_proto_tail (f_vararg f) (f_res f) (f_args f))
    ++ var_lines "local" tk_local (chunks8 (length (f_locals f)) (f_locals f))
    ++ var_lines "global" tk_global (chunks8 (length (f_globals f)) (f_globals f))
    ++ TNL :: TNL :: label_lines [] ++ flat_map tk_insn (f_insns f) ++ TName (str "endfunc") :: TNL :: rest.
Proof. unfold tk_func, tk_vars, var_lines. cbn [label_lines flat_map app]. repeat (rewrite <- app_assoc; cbn [app]). reflexivity. Qed.

Lemma insn_ok_regs fs fs' d i :
  (forall x, func_reg_p fs' x = func_reg_p fs x) -> insn_ok fs d i -> insn_ok fs' d i.
Proof.
  intros H. destruct i as [l|c ops]; [tauto|]. cbn [insn_ok]. intros (A & B & C). split; [assumption|]. split; [|assumption].
  eapply tops_ok_change; [ | | exact B]; [|reflexivity]. intros x. unfold regp_of. apply H.
Qed.

Definition func_with_insns (f : func) (insns : list insn) : func :=
  mkFunc (f_name f) (f_vararg f) (f_res f) (f_args f) (f_locals f) (f_globals f) insns.

Lemma item_func st mn items f insns' s s' rest :
  in_mod st mn items -> lrel st s -> func_ok items f -> l_insns s (f_insns f) = Some (insns', s') ->
  exists st', sreaches st (tk_item (ItFunc f) ++ rest) st' rest
    /\ item_done st st' mn items (ItFunc (tnorm_func (func_with_insns f insns'))) s'.
Proof.
  intros Hin Hrel (Hsig & Hloc & Hglob & Hins) Hl. cbn [tk_item]. rewrite tk_func_form.
  destruct (stmt_func_header st mn items f s
              (var_lines "local" tk_local (chunks8 (length (f_locals f)) (f_locals f))
               ++ var_lines "global" tk_global (chunks8 (length (f_globals f)) (f_globals f))
               ++ TNL :: TNL :: label_lines [] ++ flat_map tk_insn (f_insns f) ++ TName (str "endfunc") :: TNL :: rest)
              Hin Hrel Hsig) as (st1 & A1 & A2 & A3 & A4 & Hstep1).
  set (fs1 := mkFstate (f_name f) (f_vararg f) (f_res f) (map norm_var (f_args f)) [] [] []) in *.
  destruct (local_lines_reach
              (var_lines "global" tk_global (chunks8 (length (f_globals f)) (f_globals f))
               ++ TNL :: TNL :: label_lines [] ++ flat_map tk_insn (f_insns f) ++ TName (str "endfunc") :: TNL :: rest)
              (chunks8 (length (f_locals f)) (f_locals f)) st1 fs1 s A3 A4 (Forall_chunks8 _ _ _ Hloc))
    as (st2 & Hre2 & B1 & B2 & B3 & B4).
  rewrite concat_chunks8 in B3 by lia.
  set (fs2 := set_vars fs1 (rev (f_locals f) ++ fs_locals fs1) (fs_globals fs1)) in *.
  destruct (global_lines_reach
              (TNL :: TNL :: label_lines [] ++ flat_map tk_insn (f_insns f) ++ TName (str "endfunc") :: TNL :: rest)
              (chunks8 (length (f_globals f)) (f_globals f)) st2 fs2 s B3 B4 (Forall_chunks8 _ _ _ Hglob))
    as (st3 & Hre3 & C1 & C2 & C3 & C4).
  rewrite concat_chunks8 in C3 by lia.
  set (fs3 := set_vars fs2 (fs_locals fs2) (rev (f_globals f) ++ fs_globals fs2)) in *.
  assert (Hm3 : ss_mod st3 = Some (mn, items)) by congruence.
  destruct (tbody_loop mn items (decl_of items (f_name f)) rest (f_insns f) insns' [] [] st3 fs3 s s s' Hm3 C3 C4) as (st4 & Hre4 & D1 & D2 & D3 & D4).
  - apply (declared_in_func st3 mn items fs3 Hm3 C3).
  - reflexivity.
  - exact Hl.
  - eapply Forall_impl; [|exact Hins]. intros i. apply insn_ok_regs. intros x.
    unfold func_reg_p, fs3, fs2, fs1, set_vars, fs_of_func. cbn [fs_args fs_locals fs_globals]. rewrite !app_nil_r. reflexivity.
  - exists st4. split.
    + eapply sreaches_trans.
      { apply sreaches_step; [cbn; lia|]. intros F HF. rewrite <- app_assoc. apply Hstep1.
        rewrite !app_length in HF. unfold tk_proto_tail in HF. rewrite !app_length in HF. cbn [length] in HF.
        assert (length (sig_els (f_res f) (f_args f)) <= length (sep_toks tk_sigel (map SigRes (f_res f) ++ map SigArg (f_args f))))%nat.
        { unfold sig_els. generalize (map SigRes (f_res f) ++ map SigArg (f_args f)). clear.
          induction l as [|e l IH]; [cbn; lia|]. destruct l as [|e2 l'].
          - rewrite sep_toks_one. destruct (tk_sigel_head e) as (t & r & -> & _). cbn. lia.
          - rewrite sep_toks_cons2, app_length. destruct (tk_sigel_head e) as (t & r & -> & _). cbn [length] in *. lia. }
        lia. }
      eapply sreaches_trans; [exact Hre2|]. eapply sreaches_trans; [exact Hre3|].
      apply sreaches_nl. apply sreaches_nl. exact Hre4.
    + split; [congruence|]. split; [split; [|exact D3] | exact D4].
      rewrite D2. do 3 f_equal. unfold close_func, fs_set_insns, tnorm_func, func_with_insns, fs3, fs2, fs1, set_vars.
      cbn [fs_name fs_vararg fs_res fs_args fs_locals fs_globals fs_insns map rev app f_name f_vararg f_res f_args f_locals f_globals f_insns].
      rewrite !app_nil_r, !rev_involutive. reflexivity.
Qed.

(* ---------------------------------------------------------------- items, modules, contexts *)

Definition dmod (items : list item) (x : name) : bool := existsb (fun it => name_is x (item_name it)) items.
Definition dfun (items : list item) (x : name) : bool :=
  existsb (fun it => match it with ItFunc f => bytes_eqb (f_name f) x | _ => false end) items.

Lemma declared_in_mod st mn items : in_mod st mn items ->
  (forall x, declared (as_rstate st) x = dmod items x) /\ (forall x, declared_func (as_rstate st) x = dfun items x).
Proof.
  intros [Hm Hf]. split; intros x; unfold declared, declared_func, as_rstate, dmod, dfun; cbn; rewrite Hm, ?Hf;
    [apply orb_false_r | reflexivity].
Qed.

Definition titem_ok (items : list item) (it : item) : Prop :=
  match it with
  | ItBss _ len => 0 <= len < 2 ^ 63
  | ItRef _ r _ => dmod items r = true
  | ItExpr _ f => dmod items f = true /\ dfun items f = true
  | ItData _ t els => data_type t = true /\ Forall (el_ok t) els
  | ItProto _ _ res args => sig_ok res args
  | ItFunc f => func_ok items f
  | _ => True
  end.

Definition l_item (s : lstate) (it : item) : option (item * lstate) :=
  match it with
  | ItLref n l l2 d => match l_item_lref s l l2 with Some (k, k2, s') => Some (ItLref n k k2 d, s') | None => None end
  | ItFunc f => match l_insns s (f_insns f) with
                | Some (insns', s') => Some (ItFunc (func_with_insns f insns'), s')
                | None => None
                end
  | _ => Some (it, s)
  end.

(* what the well-formedness of later items looks at in the items scanned so far: names, and which are functions *)
Definition item_key (it : item) : option name * bool :=
  (item_name it, match it with ItFunc _ => true | _ => false end).
Definition same_keys (a b : list item) : Prop := map item_key a = map item_key b.

Lemma dmod_keys a b x : same_keys a b -> dmod a x = dmod b x.
Proof.
  unfold same_keys, dmod. revert b; induction a as [|i a IH]; intros [|j b] H; try discriminate; [reflexivity|].
  cbn [map] in H. inversion H as [[H1 H2 H3]]. cbn [existsb]. rewrite H1. f_equal. now apply IH.
Qed.

Lemma dfun_keys a b x : same_keys a b -> dfun a x = dfun b x.
Proof.
  unfold same_keys, dfun. revert b; induction a as [|i a IH]; intros [|j b] H; try discriminate; [reflexivity|].
  cbn [map] in H. inversion H as [[H1 H2 H3]]. cbn [existsb]. f_equal; [|now apply IH].
  destruct i, j; cbn in H1, H2; try discriminate; try reflexivity. inversion H1. reflexivity.
Qed.

Lemma decl_of_keys a b fn x : same_keys a b -> decl_of a fn x = decl_of b fn x.
Proof. intros H. unfold decl_of. f_equal. exact (dmod_keys a b x H). Qed.

Lemma insn_ok_decl fs d d' i : (forall x, d' x = d x) -> insn_ok fs d i -> insn_ok fs d' i.
Proof.
  intros H. destruct i as [l|c ops]; [tauto|]. cbn [insn_ok]. intros (A & B & C). split; [assumption|]. split; [|assumption].
  eapply tops_ok_change; [ | | exact B]; [reflexivity | exact H].
Qed.

Lemma titem_ok_keys a b it : same_keys a b -> titem_ok a it -> titem_ok b it.
Proof.
  intros H. destruct it as [x|x|x|x len|x t els|x r d|x l l2 d|x f|x va res args|f]; cbn [titem_ok]; try tauto.
  - now rewrite (dmod_keys a b r H).
  - now rewrite (dmod_keys a b f H), (dfun_keys a b f H).
  - intros (H1 & H2 & H3 & H4). split; [assumption|]. split; [assumption|]. split; [assumption|].
    eapply Forall_impl; [|exact H4]. intros i. apply insn_ok_decl. intros y. symmetry. now apply decl_of_keys.
Qed.

Lemma l_item_key s it it' s' : l_item s it = Some (it', s') -> item_key (tnorm_item it') = item_key (tnorm_item it).
Proof.
  destruct it as [x|x|x|x len|x t els|x r d|x l l2 d|x f|x va res args|f]; cbn [l_item]; intros H;
    try (inversion H; subst; reflexivity).
  - destruct (l_item_lref s l l2) as [[[k k2] s1]|]; [|discriminate]. inversion H; subst. reflexivity.
  - destruct (l_insns s (f_insns f)) as [[insns' s1]|]; [|discriminate]. inversion H; subst. reflexivity.
Qed.

Lemma sep_toks_len2 {A} (tk : A -> list ttok) (els : list A) :
  (forall a, 1 <= length (tk a))%nat -> (2 * length els <= length (sep_toks tk els) + 1)%nat.
Proof.
  intros H. induction els as [|e els IH]; [cbn; lia|]. destruct els as [|e2 els'].
  - rewrite sep_toks_one. specialize (H e). cbn [length]. lia.
  - rewrite sep_toks_cons2, app_length. specialize (H e). cbn [length] in *. lia.
Qed.

Lemma step_to_reach st toks rest st' c :
  (c <= length toks + 1)%nat -> (0 < length toks)%nat ->
  (forall F, (c <= F)%nat -> scan_stmt F st (toks ++ rest) = SNext st' rest) ->
  sreaches st (toks ++ rest) st' rest.
Proof.
  intros Hc Hne H. apply sreaches_step; [assumption|]. intros F HF. apply H. rewrite app_length in HF. lia.
Qed.

Lemma item_reaches st mn items it it' s s' rest :
  in_mod st mn items -> lrel st s -> titem_ok items it -> l_item s it = Some (it', s') ->
  exists st', sreaches st (tk_item it ++ rest) st' rest /\ item_done st st' mn items (tnorm_item it') s'.
Proof.
  intros Hin Hrel Hok Hl.
  destruct (declared_in_mod st mn items Hin) as [Hd Hdf].
  destruct it as [x|x|x|x len|x t els|x r d|x l l2 d|x f|x va res args|f]; cbn [titem_ok l_item] in *.
  - inversion Hl; subst it' s'. destruct (item_import st mn items x s rest Hin Hrel) as (st' & Hdone & Hstep).
    exists st'. split; [|assumption]. apply (step_to_reach st _ rest st' 3); [cbn; lia | cbn; lia | exact Hstep].
  - inversion Hl; subst it' s'. destruct (item_export st mn items x s rest Hin Hrel) as (st' & Hdone & Hstep).
    exists st'. split; [|assumption]. apply (step_to_reach st _ rest st' 3); [cbn; lia | cbn; lia | exact Hstep].
  - inversion Hl; subst it' s'. destruct (item_forward st mn items x s rest Hin Hrel) as (st' & Hdone & Hstep).
    exists st'. split; [|assumption]. apply (step_to_reach st _ rest st' 3); [cbn; lia | cbn; lia | exact Hstep].
  - inversion Hl; subst it' s'. destruct (item_bss st mn items x len s rest Hin Hrel Hok) as (st' & Hdone & Hstep).
    exists st'. split; [|assumption]. apply (step_to_reach st _ rest st' 3); [ | | exact Hstep];
      cbn [tk_item]; rewrite app_length; cbn [length]; lia.
  - inversion Hl; subst it' s'. destruct Hok as [Ht Hels].
    destruct (item_data st mn items x t els s rest Hin Hrel Ht Hels) as (st' & Hdone & Hstep).
    exists st'. split; [|assumption]. apply (step_to_reach st _ rest st' (length els + 2)); [ | | exact Hstep];
      cbn [tk_item]; rewrite !app_length; cbn [length];
      pose proof (sep_toks_len2 (tk_el t) els ltac:(intros a; destruct t; try discriminate; cbn; lia)); lia.
  - inversion Hl; subst it' s'. destruct (item_ref st mn items x r d s rest Hin Hrel ltac:(now rewrite Hd)) as (st' & Hdone & Hstep).
    exists st'. split; [|assumption]. apply (step_to_reach st _ rest st' 4); [ | | exact Hstep];
      cbn [tk_item]; rewrite app_length; cbn [length]; lia.
  - destruct (l_item_lref s l l2) as [[[k k2] s1]|] eqn:Elr; [|discriminate]. inversion Hl; subst it' s'.
    destruct (item_lref st mn items x l l2 k k2 d s s1 rest Hin Hrel Elr) as (st' & Hdone & Hstep).
    exists st'. split; [|assumption]. apply (step_to_reach st _ rest st' (length (lref_ops l l2 d) + 2)); [ | | exact Hstep];
      cbn [tk_item]; unfold lref_ops; rewrite !app_length; cbn [length]; destruct l2, (d =? 0); cbn [length app]; lia.
  - inversion Hl; subst it' s'. destruct Hok as [H1 H2].
    destruct (item_expr st mn items x f s rest Hin Hrel ltac:(now rewrite Hd) ltac:(now rewrite Hdf)) as (st' & Hdone & Hstep).
    exists st'. split; [|assumption]. apply (step_to_reach st _ rest st' 4); [ | | exact Hstep];
      cbn [tk_item]; rewrite app_length; cbn [length]; lia.
  - inversion Hl; subst it' s'. destruct (item_proto st mn items x va res args s rest Hin Hrel Hok) as (st' & Hdone & Hstep).
    exists st'. split; [|assumption].
    assert (Hlen : (length (sig_els res args) <= length (tk_proto_tail va res args))%nat).
    { unfold tk_proto_tail. rewrite !app_length. cbn [length].
      pose proof (sep_toks_len2 tk_sigel (sig_els res args)
                    ltac:(intros a; destruct (tk_sigel_head a) as (t0 & r0 & -> & _); cbn; lia)) as H2.
      unfold sig_els in *. lia. }
    apply (step_to_reach st _ rest st' (length (sig_els res args) + 4)).
    + cbn [tk_item]. rewrite app_length. cbn [length]. lia.
    + cbn [tk_item]. rewrite app_length. cbn [length]. lia.
    + intros F HF. apply Hstep. lia.
  - destruct (l_insns s (f_insns f)) as [[insns' s1]|] eqn:Ei; [|discriminate]. inversion Hl; subst it' s'.
    exact (item_func st mn items f insns' s s1 rest Hin Hrel Hok Ei).
Qed.

Fixpoint titems_ok (acc : list item) (its : list item) : Prop :=
  match its with
  | [] => True
  | it :: r => titem_ok acc it /\ titems_ok (tnorm_item it :: acc) r
  end.

Fixpoint l_items (s : lstate) (its : list item) : option (list item * lstate) :=
  match its with
  | [] => Some ([], s)
  | it :: r => match l_item s it with
               | Some (it', s1) => match l_items s1 r with Some (r', s2) => Some (it' :: r', s2) | None => None end
               | None => None
               end
  end.

Lemma items_reach mn rest : forall its its' acc acc' st s s',
  in_mod st mn acc' -> same_keys acc' acc -> lrel st s -> titems_ok acc its -> l_items s its = Some (its', s') ->
  exists st', sreaches st (flat_map tk_item its ++ rest) st' rest
    /\ ss_mods st' = ss_mods st /\ in_mod st' mn (rev (map tnorm_item its') ++ acc') /\ lrel st' s'.
Proof.
  induction its as [|it its IH]; intros its' acc acc' st s s' Hin Hk Hrel Hok Hl.
  - cbn in Hl. inversion Hl; subst its' s'. exists st. split; [apply sreaches_refl|]. split; [reflexivity|]. split; [exact Hin | exact Hrel].
  - cbn [titems_ok l_items] in Hok, Hl. destruct Hok as [Hit Hits].
    destruct (l_item s it) as [[it1 s1]|] eqn:El; [|discriminate].
    destruct (l_items s1 its) as [[r1 s2]|] eqn:Els; [|discriminate]. inversion Hl; subst its' s'. clear Hl.
    assert (Hit' : titem_ok acc' it) by (apply (titem_ok_keys acc acc' it); [unfold same_keys in *; congruence | exact Hit]).
    destruct (item_reaches st mn acc' it it1 s s1 (flat_map tk_item its ++ rest) Hin Hrel Hit' El) as (st1 & Hre1 & M1 & Hin1 & Hr1).
    assert (Hk1 : same_keys (tnorm_item it1 :: acc') (tnorm_item it :: acc)).
    { unfold same_keys in *. cbn [map]. rewrite (l_item_key s it it1 s1 El). now f_equal. }
    destruct (IH r1 (tnorm_item it :: acc) (tnorm_item it1 :: acc') st1 s1 s2 Hin1 Hk1 Hr1 Hits Els) as (st2 & Hre2 & M2 & Hin2 & Hr2).
    exists st2. split; [|split; [congruence|split; [|assumption]]].
    + cbn [flat_map]. rewrite <- app_assoc. eapply sreaches_trans; eassumption.
    + cbn [map rev]. rewrite <- app_assoc. exact Hin2.
Qed.

Definition at_top (st : sstate) : Prop := ss_mod st = None /\ ss_func st = None.

Definition l_module (s : lstate) (m : module) : option (module * lstate) :=
  match l_items (mkL [] [] (l_next s)) (mod_items m) with
  | Some (its', s') => Some (mkModule (mod_name m) its', s')
  | None => None
  end.

Lemma stmt_module st mname s rest : at_top st -> lrel st s ->
  exists st', ss_mods st' = ss_mods st /\ in_mod st' mname [] /\ lrel st' (mkL [] [] (l_next s))
    /\ forall F, (3 <= F)%nat -> scan_stmt F st (TName mname :: TCol :: TName (str "module") :: TNL :: rest) = SNext st' rest.
Proof.
  intros [Hm Hf] [Hinv Hn].
  exists (mkSstate (ss_mods st) (Some (mname, [])) (ss_func st) [] (ss_next st)).
  split; [reflexivity|]. split; [split; [reflexivity | exact Hf]|]. split.
  - split; [constructor; cbn; [reflexivity | constructor | constructor | intros l []] | exact Hn].
  - intros F HF. rewrite scan_stmt_name. unfold scan_body.
    rewrite parse_labels_named by (try exact I; lia).
    assert (Hkd : stmt_kind (str "module") = Some KModule) by reflexivity. rewrite Hkd.
    cbn [label_count_bad length Nat.eqb negb is_var andb].
    destruct F as [|F']; [lia|]. cbn [parse_ops rev]. unfold stmt_exec. rewrite Hm. reflexivity.
Qed.

Lemma stmt_endmodule st mn items s rest : in_mod st mn items -> lrel st s ->
  exists st', ss_mods st' = mkModule mn (rev items) :: ss_mods st /\ at_top st' /\ lrel st' s
    /\ forall F, (2 <= F)%nat -> scan_stmt F st (TName (str "endmodule") :: TNL :: rest) = SNext st' rest.
Proof.
  intros [Hm Hf] [[T1 T2 T3 T4] Hn].
  exists (mkSstate (mkModule mn (rev items) :: ss_mods st) None (ss_func st) (ss_labels st) (ss_next st)).
  split; [reflexivity|]. split; [split; [reflexivity | exact Hf]|]. split.
  - split; [constructor; assumption | exact Hn].
  - intros F HF. rewrite scan_stmt_name. unfold scan_body.
    rewrite parse_labels_kw by (try discriminate; lia).
    assert (Hkd : stmt_kind (str "endmodule") = Some KEndmodule) by reflexivity. rewrite Hkd.
    cbn [label_count_bad length Nat.eqb negb is_var andb].
    destruct F as [|F']; [lia|]. cbn [parse_ops rev]. unfold stmt_exec. rewrite Hm. reflexivity.
Qed.

Definition tmodule_ok (m : module) : Prop := titems_ok [] (mod_items m).

Lemma module_reach st m m' s s' rest : at_top st -> lrel st s -> tmodule_ok m -> l_module s m = Some (m', s') ->
  exists st', sreaches st (tk_module m ++ rest) st' rest
    /\ ss_mods st' = tnorm_module m' :: ss_mods st /\ at_top st' /\ lrel st' s'.
Proof.
  intros Htop Hrel Hok Hl. unfold tk_module. rewrite <- !app_assoc. cbn [app].
  unfold l_module in Hl. destruct (l_items (mkL [] [] (l_next s)) (mod_items m)) as [[its' s1]|] eqn:Eits; [|discriminate].
  inversion Hl; subst m' s'. clear Hl.
  destruct (stmt_module st (mod_name m) s (flat_map tk_item (mod_items m) ++ TName (str "endmodule") :: TNL :: rest) Htop Hrel)
    as (st1 & M1 & Hin1 & Hr1 & Hstep1).
  destruct (items_reach (mod_name m) (TName (str "endmodule") :: TNL :: rest) (mod_items m) its' [] [] st1 _ s1 Hin1 eq_refl Hr1 Hok Eits)
    as (st2 & Hre2 & M2 & Hin2 & Hr2).
  rewrite app_nil_r in Hin2.
  destruct (stmt_endmodule st2 (mod_name m) (rev (map tnorm_item its')) s1 rest Hin2 Hr2) as (st3 & M3 & Htop3 & Hr3 & Hstep3).
  exists st3. split; [|split; [|split; assumption]].
  - eapply sreaches_trans.
    { apply (step_to_reach st [TName (mod_name m); TCol; TName (str "module"); TNL] _ st1 3); [cbn; lia | cbn; lia | exact Hstep1]. }
    eapply sreaches_trans; [exact Hre2|].
    apply (step_to_reach st2 [TName (str "endmodule"); TNL] rest st3 2); [cbn; lia | cbn; lia | exact Hstep3].
  - rewrite M3, rev_involutive, M2, M1. reflexivity.
Qed.

Fixpoint l_ctx (s : lstate) (ms : list module) : option (list module * lstate) :=
  match ms with
  | [] => Some ([], s)
  | m :: r => match l_module s m with
              | Some (m', s1) => match l_ctx s1 r with Some (r', s2) => Some (m' :: r', s2) | None => None end
              | None => None
              end
  end.

Lemma ctx_reach rest : forall ms ms' st s s',
  at_top st -> lrel st s -> Forall tmodule_ok ms -> l_ctx s ms = Some (ms', s') ->
  exists st', sreaches st (tk_ctx ms ++ rest) st' rest
    /\ ss_mods st' = rev (map tnorm_module ms') ++ ss_mods st /\ at_top st' /\ lrel st' s'.
Proof.
  induction ms as [|m ms IH]; intros ms' st s s' Htop Hrel Hok Hl.
  - cbn in Hl. inversion Hl; subst ms' s'. exists st. split; [apply sreaches_refl|]. split; [reflexivity|]. split; [exact Htop | exact Hrel].
  - cbn [l_ctx] in Hl. destruct (l_module s m) as [[m1 s1]|] eqn:Em; [|discriminate].
    destruct (l_ctx s1 ms) as [[r1 s2]|] eqn:Ec; [|discriminate]. inversion Hl; subst ms' s'. clear Hl.
    pose proof (Forall_inv Hok) as Hm. pose proof (Forall_inv_tail Hok) as Hms.
    destruct (module_reach st m m1 s s1 (tk_ctx ms ++ rest) Htop Hrel Hm Em) as (st1 & Hre1 & M1 & Htop1 & Hr1).
    destruct (IH r1 st1 s1 s2 Htop1 Hr1 Hms Ec) as (st2 & Hre2 & M2 & Htop2 & Hr2).
    exists st2. split; [|split; [|split; assumption]].
    + unfold tk_ctx. cbn [flat_map]. fold (tk_ctx ms). rewrite <- app_assoc. eapply sreaches_trans; eassumption.
    + rewrite M2, M1. cbn [map rev]. rewrite <- app_assoc. reflexivity.
Qed.

(* The renaming of labels MIR_scan_string performs, on the AST: every text label of a module gets the next
   number of the context's counter at its first occurrence (reference or definition), module by module;
   [None] when a label number is outside int64 or a label is defined twice in a module. *)
Definition relabel_ctx (ms : list module) : option (list module) :=
  match l_ctx (mkL [] [] 0) ms with Some (ms', _) => Some ms' | None => None end.

(* labels are already numbered that way (what MIR_scan_string itself produces) *)
Definition canon_labels (ms : list module) : Prop := relabel_ctx ms = Some ms.

(* names resolve as meant, immediates are representable, and the labels can be renamed *)
Definition wf_text_tokens_gen (ms : list module) : Prop := Forall tmodule_ok ms /\ relabel_ctx ms <> None.
Definition wf_text_tokens (ms : list module) : Prop := Forall tmodule_ok ms /\ canon_labels ms.

(* the statement parser inverts the printer on token level, up to the renaming of labels *)
Lemma scan_loop_tk_ctx_gen ms ms' : Forall tmodule_ok ms -> relabel_ctx ms = Some ms' ->
  scan_loop (S (S (length (tk_ctx ms ++ [TEOF])))) sinit (tk_ctx ms ++ [TEOF]) = Ok (map tnorm_module ms').
Proof.
  intros Hok Hrl. unfold relabel_ctx in Hrl.
  destruct (l_ctx (mkL [] [] 0) ms) as [[ms1 s']|] eqn:El; [|discriminate]. inversion Hrl; subst ms1. clear Hrl.
  assert (Hrel0 : lrel sinit (mkL [] [] 0)).
  { split; [constructor; cbn; [reflexivity | constructor | constructor | intros l []] | reflexivity]. }
  destruct (ctx_reach [TEOF] ms ms' sinit _ s' (conj eq_refl eq_refl) Hrel0 Hok El) as (st' & Hre & M & [Ht1 Ht2] & Hr).
  destruct (Hre (S (S (length (tk_ctx ms ++ [TEOF])))) ltac:(lia)) as (f' & Hf' & E).
  rewrite E. destruct f' as [|f']; [cbn in Hf'; lia|].
  cbn [scan_loop scan_stmt skip_nl]. rewrite Ht1, Ht2, M. cbn [ss_mods sinit]. rewrite app_nil_r, rev_involutive. reflexivity.
Qed.

Lemma scan_loop_tk_ctx ms : wf_text_tokens ms ->
  scan_loop (S (S (length (tk_ctx ms ++ [TEOF])))) sinit (tk_ctx ms ++ [TEOF]) = Ok (map tnorm_module ms).
Proof. intros [Hok Hcan]. now apply scan_loop_tk_ctx_gen. Qed.


(* The statement parser of MIR_scan_string (TextScan.scan_loop) inverts the token sequence of the
   printer (TextTokens.tk_ctx): scan_loop (tk_ctx ms ++ [TEOF]) = Ok (map tnorm_module ms) for
   well-formed modules whose labels are numbered in order of first occurrence. *)
From Coq Require Import List ZArith NArith Bool String Lia.
From MirV Require Import Base.W64 Mir.Opcode C11.Tables C11.Ast C11.BinIO C11.BinIOProofs C11.BinGrammarProofs
  C10.TextOut C10.TextScan C10.TextProofs C10.TextTokens.
Import ListNotations.
Local Open Scope Z_scope.
Local Notation length := List.length.

(* ---------------------------------------------------------------- label names *)

Lemma p_int_inj a b : in_s64 a -> in_s64 b -> p_int a = p_int b -> a = b.
Proof. intros Ha Hb E. rewrite <- (strtoul_p_int a Ha), <- (strtoul_p_int b Hb), E. reflexivity. Qed.

Lemma lname_eqb a b : in_s64 a -> in_s64 b -> bytes_eqb (lname a) (lname b) = (a =? b).
Proof.
  intros Ha Hb. destruct (Z.eqb_spec a b) as [->|Hne]; [apply bytes_eqb_refl|].
  destruct (bytes_eqb (lname a) (lname b)) eqn:E; [|reflexivity].
  apply bytes_eqb_eq in E. unfold lname in E. apply app_inv_head in E. exfalso. apply Hne. now apply p_int_inj.
Qed.

(* ---------------------------------------------------------------- the label table under first-occurrence numbering *)

(* abstract view of label_desc_tab: labels seen in the module (latest first) and those defined *)
Definition zmem (l : Z) (ls : list Z) : bool := existsb (Z.eqb l) ls.
Definition lab_entry (defd : list Z) (l : Z) : name * (Z * bool) := (lname l, (l, zmem l defd)).

Record lab_inv (st : sstate) (seen defd : list Z) : Prop := mkLabInv {
  li_tab : ss_labels st = map (lab_entry defd) seen;
  li_rng : Forall in_s64 seen;
  li_nodup : NoDup seen;
  li_sub : forall l, In l defd -> In l seen }.

Lemma lab_find_entry defd seen l : in_s64 l -> Forall in_s64 seen ->
  lab_find (lname l) (map (lab_entry defd) seen) = if zmem l seen then Some (l, zmem l defd) else None.
Proof.
  intros Hl. induction seen as [|x seen IH]; intros Hs; [reflexivity|].
  pose proof (Forall_inv Hs) as Hx. pose proof (Forall_inv_tail Hs) as Hs'.
  cbn [map lab_find lab_entry zmem existsb]. rewrite (lname_eqb x l Hx Hl), (Z.eqb_sym l x).
  destruct (Z.eqb_spec x l) as [->|Hne]; [reflexivity|]. cbn [orb]. now apply IH.
Qed.

Lemma zmem_cons_same l ls : zmem l (l :: ls) = true.
Proof. unfold zmem. cbn [existsb]. now rewrite Z.eqb_refl. Qed.
Lemma zmem_cons_other x l ls : x <> l -> zmem x (l :: ls) = zmem x ls.
Proof. intros H. unfold zmem. cbn [existsb]. destruct (Z.eqb_spec x l); [contradiction | reflexivity]. Qed.

Lemma lab_set_def_entry defd seen l : in_s64 l -> Forall in_s64 seen -> NoDup seen ->
  lab_set_def (lname l) (map (lab_entry defd) seen) = map (lab_entry (l :: defd)) seen.
Proof.
  intros Hl. induction seen as [|x seen IH]; intros Hs Hnd; [reflexivity|].
  pose proof (Forall_inv Hs) as Hx. pose proof (Forall_inv_tail Hs) as Hs'.
  inversion Hnd as [|? ? Hnin Hnd']; subst.
  cbn [map lab_set_def]. unfold lab_entry in *. rewrite (lname_eqb x l Hx Hl).
  destruct (Z.eqb_spec x l) as [->|Hne].
  - rewrite zmem_cons_same. f_equal.
    apply map_ext_in. intros y Hy.
    rewrite zmem_cons_other; [reflexivity|]. intros ->. contradiction.
  - rewrite (zmem_cons_other x l defd Hne). f_equal. now apply IH.
Qed.

Lemma zmem_In l ls : zmem l ls = true <-> In l ls.
Proof.
  unfold zmem. rewrite existsb_exists. split.
  - intros [x [Hx E]]. apply Z.eqb_eq in E. now subst.
  - intros H. exists l. split; [assumption | apply Z.eqb_refl].
Qed.

Definition set_labels (st : sstate) (tab : list (name * (Z * bool))) (next : Z) : sstate :=
  mkSstate (ss_mods st) (ss_mod st) (ss_func st) tab next.

Lemma zmem_false_notin l ls : zmem l ls = false -> ~ In l ls.
Proof. intros H Hin. apply zmem_In in Hin. congruence. Qed.

(* a reference to label l (create_label_desc (name, FALSE)) under canonical numbering *)
Lemma label_desc_ref st seen defd l :
  lab_inv st seen defd -> in_s64 l -> (zmem l seen = true \/ l = ss_next st + 1) ->
  exists st', label_desc st (lname l) false = Some (l, st')
    /\ ss_mods st' = ss_mods st /\ ss_mod st' = ss_mod st /\ ss_func st' = ss_func st
    /\ lab_inv st' (if zmem l seen then seen else l :: seen) defd
    /\ ss_next st' = (if zmem l seen then ss_next st else l).
Proof.
  intros [Htab Hrng Hnd Hsub] Hl Hc. unfold label_desc. rewrite Htab, lab_find_entry by assumption.
  destruct (zmem l seen) eqn:Es.
  - exists st. repeat split; try reflexivity; assumption.
  - destruct Hc as [Hc|Hc]; [discriminate|]. subst l.
    eexists. split; [reflexivity|]. cbn [ss_mods ss_mod ss_func ss_labels ss_next].
    split; [reflexivity|]. split; [reflexivity|]. split; [reflexivity|]. split; [|reflexivity].
    constructor; cbn [ss_labels].
    + cbn [map]. f_equal. unfold lab_entry. f_equal. f_equal.
      destruct (zmem (ss_next st + 1) defd) eqn:Ed; [|reflexivity].
      apply zmem_In in Ed. apply Hsub in Ed. apply zmem_false_notin in Es. contradiction.
    + constructor; assumption.
    + constructor; [now apply zmem_false_notin | assumption].
    + intros x Hx. right. now apply Hsub.
Qed.

(* a definition of label l (create_label_desc (name, TRUE)) *)
Lemma label_desc_def st seen defd l :
  lab_inv st seen defd -> in_s64 l -> zmem l defd = false -> (zmem l seen = true \/ l = ss_next st + 1) ->
  exists st', label_desc st (lname l) true = Some (l, st')
    /\ ss_mods st' = ss_mods st /\ ss_mod st' = ss_mod st /\ ss_func st' = ss_func st
    /\ lab_inv st' (if zmem l seen then seen else l :: seen) (l :: defd)
    /\ ss_next st' = (if zmem l seen then ss_next st else l).
Proof.
  intros [Htab Hrng Hnd Hsub] Hl Hnd' Hc. unfold label_desc. rewrite Htab, lab_find_entry by assumption.
  destruct (zmem l seen) eqn:Es.
  - rewrite Hnd'. eexists. split; [reflexivity|]. cbn [ss_mods ss_mod ss_func ss_labels ss_next].
    split; [reflexivity|]. split; [reflexivity|]. split; [reflexivity|]. split; [|reflexivity].
    constructor; cbn [ss_labels].
    + now apply lab_set_def_entry.
    + assumption.
    + assumption.
    + intros x [<-|Hx]; [now apply zmem_In | now apply Hsub].
  - destruct Hc as [Hc|Hc]; [discriminate|]. subst l.
    eexists. split; [reflexivity|]. cbn [ss_mods ss_mod ss_func ss_labels ss_next].
    split; [reflexivity|]. split; [reflexivity|]. split; [reflexivity|]. split; [|reflexivity].
    constructor; cbn [ss_labels].
    + cbn [map]. f_equal.
      * unfold lab_entry. now rewrite zmem_cons_same.
      * apply map_ext_in. intros y Hy. unfold lab_entry.
        rewrite zmem_cons_other; [reflexivity|]. intros ->. apply zmem_false_notin in Es. contradiction.
    + constructor; assumption.
    + constructor; [now apply zmem_false_notin | assumption].
    + intros x [<-|Hx]; [now left | right; now apply Hsub].
Qed.

(* ---------------------------------------------------------------- operands *)

(* what may follow an operand inside a statement *)
Definition op_follow (rest : list ttok) : Prop :=
  match rest with TComma :: _ => True | TNL :: _ => True | _ => False end.

Definition mem_tail (m : mem) : list ttok := skipn 2 (tk_mem m).

Definition opt_reg_ok (regp : name -> bool) (o : option name) : Prop :=
  match o with Some r => regp r = true | None => True end.

Lemma parse_mem_tk regp m rest :
  opt_reg_ok regp (m_base m) -> opt_reg_ok regp (m_index m) -> (m_scale m < 256)%N -> op_follow rest ->
  parse_mem regp (m_type m) (mem_tail m ++ rest) = Some (OMem (tnorm_mem m), rest).
Proof.
  destruct m as [t d b i sc a na]. unfold mem_tail, tk_mem, tnorm_mem, opt_reg_ok.
  cbn [m_type m_disp m_base m_index m_scale m_alias m_nonalias].
  intros Hb Hi Hsc Hf.
  pose proof (scale_roundtrip sc Hsc) as Esc.
  destruct rest as [|[ | | | | | | | | | | | | ] rest]; cbn in Hf; try contradiction;
  (destruct (d =? 0) eqn:Ed; [apply Z.eqb_eq in Ed; subst d|];
   destruct b as [b|], i as [i|], a as [a|], na as [na|]; try (destruct (N.eqb sc 1) eqn:E1; [apply N.eqb_eq in E1; subst sc|]);
   cbn -[Z.of_N Z.to_N Z.modulo]; rewrite ?Hb, ?Hi, ?Esc; reflexivity).
Qed.

Lemma str2type_type_str t : wf_mtype t -> is_undef t = false -> str2type (type_str t) = Some t.
Proof.
  destruct t as [| | | | | | | | | | | |n| |]; try reflexivity; try discriminate.
  cbn [wf_mtype]. intros H _.
  assert (E : (n = 0 \/ n = 1 \/ n = 2 \/ n = 3 \/ n = 4)%N) by lia.
  repeat (destruct E as [E|E]); subst n; reflexivity.
Qed.

Lemma str2type_undef : str2type (type_str TUNDEF) = None.
Proof. reflexivity. Qed.

(* the kinds of statement whose operands are plain operands *)
Definition plain_kind (k : stkind) : Prop :=
  is_sig k = false /\ is_var k = false
  /\ match k with KExport | KImport | KForward | KModule | KEndmodule | KEndfunc => False | _ => True end.

Definition follow_not_col (rest : list ttok) : Prop := match rest with TCol :: _ => False | _ => True end.

Lemma op_follow_not_col rest : op_follow rest -> follow_not_col rest.
Proof. destruct rest as [|[ | | | | | | | | | | | | ] r]; cbn; tauto. Qed.

(* memory operand *)
Lemma parse_op_mem k nops st m rest :
  plain_kind k -> wf_mtype (m_type m) ->
  opt_reg_ok (fun x => match ss_func st with Some fs => func_reg_p fs x | None => false end) (m_base m) ->
  opt_reg_ok (fun x => match ss_func st with Some fs => func_reg_p fs x | None => false end) (m_index m) ->
  (m_scale m < 256)%N -> op_follow rest ->
  parse_op k nops st (tk_mem m ++ rest) = OpPush (POp (OMem (tnorm_mem m))) st rest.
Proof.
  intros (Hs & Hv & Hk) Ht Hb Hi Hsc Hf.
  assert (E : tk_mem m ++ rest = TName (type_str (m_type m)) :: TCol :: mem_tail m ++ rest) by reflexivity.
  rewrite E. clear E.
  assert (Hty : (match str2type (type_str (m_type m)) with
                 | None => if (bytes_eqb (type_str (m_type m)) (str "undef") && negb (is_sig k) && negb (is_var k))%bool
                           then Some TUNDEF else None
                 | s => s
                 end) = Some (m_type m)).
  { rewrite Hs, Hv. destruct (is_undef (m_type m)) eqn:Eu.
    - destruct (m_type m); try discriminate; reflexivity.
    - now rewrite str2type_type_str by assumption. }
  unfold parse_op. rewrite Hs, Hv in *. cbn [andb negb orb] in *. rewrite Hty.
  rewrite parse_mem_tk by assumption. reflexivity.
Qed.

(* ---------------------------------------------------------------- abstract label state *)

Record lstate : Set := mkL { l_seen : list Z; l_defd : list Z; l_next : Z }.

Definition s64_b (z : Z) : bool := (- 2 ^ 63 <=? z) && (z <? 2 ^ 63).
Lemma s64_b_spec z : s64_b z = true -> in_s64 z.
Proof. unfold s64_b, in_s64. rewrite andb_true_iff, Z.leb_le, Z.ltb_lt. tauto. Qed.

(* first-occurrence numbering: a label is either known in the module or the next number of the context *)
Definition l_ref (s : lstate) (l : Z) : option lstate :=
  if negb (s64_b l) then None
  else if zmem l (l_seen s) then Some s
  else if l =? l_next s + 1 then Some (mkL (l :: l_seen s) (l_defd s) l) else None.

Definition l_def (s : lstate) (l : Z) : option lstate :=
  if negb (s64_b l) || zmem l (l_defd s) then None
  else if zmem l (l_seen s) then Some (mkL (l_seen s) (l :: l_defd s) (l_next s))
  else if l =? l_next s + 1 then Some (mkL (l :: l_seen s) (l :: l_defd s) l) else None.

Definition lrel (st : sstate) (s : lstate) : Prop :=
  lab_inv st (l_seen s) (l_defd s) /\ ss_next st = l_next s.

Definition same_core (st st' : sstate) : Prop :=
  ss_mods st' = ss_mods st /\ ss_mod st' = ss_mod st /\ ss_func st' = ss_func st.

Lemma same_core_refl st : same_core st st. Proof. repeat split. Qed.
Lemma same_core_trans a b c : same_core a b -> same_core b c -> same_core a c.
Proof. intros (A1 & A2 & A3) (B1 & B2 & B3). repeat split; congruence. Qed.

Lemma l_ref_sim st s l s' :
  lrel st s -> l_ref s l = Some s' ->
  exists st', label_desc st (lname l) false = Some (l, st') /\ same_core st st' /\ lrel st' s'.
Proof.
  intros [Hinv Hn] H. unfold l_ref in H.
  destruct (s64_b l) eqn:Eb; [|discriminate]. cbn [negb] in H. apply s64_b_spec in Eb.
  destruct (zmem l (l_seen s)) eqn:Es.
  - inversion H; subst s'. clear H.
    destruct (label_desc_ref st (l_seen s) (l_defd s) l Hinv Eb (or_introl Es)) as (st' & E & C1 & C2 & C3 & Hinv' & Hn').
    rewrite Es in *. exists st'. split; [assumption|]. split; [repeat split; assumption|]. split; [assumption | congruence].
  - destruct (Z.eqb_spec l (l_next s + 1)) as [El|]; [|discriminate]. inversion H; subst s'. clear H.
    destruct (label_desc_ref st (l_seen s) (l_defd s) l Hinv Eb ltac:(right; congruence)) as (st' & E & C1 & C2 & C3 & Hinv' & Hn').
    rewrite Es in *. exists st'. split; [assumption|]. split; [repeat split; assumption|]. split; assumption.
Qed.

Lemma l_def_sim st s l s' :
  lrel st s -> l_def s l = Some s' ->
  exists st', label_desc st (lname l) true = Some (l, st') /\ same_core st st' /\ lrel st' s'.
Proof.
  intros [Hinv Hn] H. unfold l_def in H.
  destruct (s64_b l) eqn:Eb; [|discriminate]. cbn [negb orb] in H. apply s64_b_spec in Eb.
  destruct (zmem l (l_defd s)) eqn:Ed; [discriminate|].
  destruct (zmem l (l_seen s)) eqn:Es.
  - inversion H; subst s'. clear H.
    destruct (label_desc_def st (l_seen s) (l_defd s) l Hinv Eb Ed (or_introl Es)) as (st' & E & C1 & C2 & C3 & Hinv' & Hn').
    rewrite Es in *. exists st'. split; [assumption|]. split; [repeat split; assumption|]. split; [assumption | cbn; congruence].
  - destruct (Z.eqb_spec l (l_next s + 1)) as [El|]; [|discriminate]. inversion H; subst s'. clear H.
    destruct (label_desc_def st (l_seen s) (l_defd s) l Hinv Eb Ed ltac:(right; congruence)) as (st' & E & C1 & C2 & C3 & Hinv' & Hn').
    rewrite Es in *. exists st'. split; [assumption|]. split; [repeat split; assumption|]. split; assumption.
Qed.

(* a NAME operand that is not followed by ':' in a plain statement *)
Lemma parse_op_name k nops st n rest :
  plain_kind k -> follow_not_col rest ->
  parse_op k nops st (TName n :: rest)
  = if label_position k nops then
      match label_desc st n false with Some (l, st') => OpPush (POp (OLabel l)) st' rest | None => OpErr end
    else if (negb (match k with KExpr | KRef => true | _ => false end)
             && match ss_func st with Some fs => func_reg_p fs n | None => false end)%bool
    then OpPush (POp (OReg n)) st rest
    else if declared (as_rstate st) n then OpPush (POp (ORef n)) st rest else OpErr.
Proof.
  intros (Hs & Hv & Hk) Hf. unfold parse_op. rewrite Hs, Hv. cbn [andb negb].
  assert (Hc : match rest with TCol :: _ => true | _ => false end = false).
  { destruct rest as [|[ | | | | | | | | | | | | ] r]; cbn in Hf; try reflexivity. contradiction. }
  rewrite Hc. cbn [negb andb].
  destruct k; try contradiction; try discriminate; cbn [andb negb]; try rewrite andb_true_r; reflexivity.
Qed.

Definition l_op (s : lstate) (o : operand) : option lstate :=
  match o with OLabel l => l_ref s l | _ => Some s end.

(* text-level well-formedness of an operand at a position that is / is not a label position *)
Definition top_ok (fs : fstate) (decl : name -> bool) (lp : bool) (o : operand) : Prop :=
  match o with
  | OReg r => lp = false /\ func_reg_p fs r = true
  | ORef n => lp = false /\ func_reg_p fs n = false /\ decl n = true
  | OLabel _ => lp = true
  | OMem m => wf_mtype (m_type m) /\ opt_reg_ok (func_reg_p fs) (m_base m) /\ opt_reg_ok (func_reg_p fs) (m_index m)
              /\ (m_scale m < 256)%N
  | _ => True
  end.

Lemma parse_op_insn k nops st fs s o s' rest :
  plain_kind k -> match k with KExpr | KRef => False | _ => True end ->
  ss_func st = Some fs -> lrel st s ->
  top_ok fs (declared (as_rstate st)) (label_position k nops) o -> l_op s o = Some s' -> op_follow rest ->
  exists st', parse_op k nops st (tk_op o ++ rest) = OpPush (POp (tnorm_op o)) st' rest /\ same_core st st' /\ lrel st' s'.
Proof.
  intros Hk Hk2 Hfs Hrel Hok Hl Hf.
  assert (Hkk : match k with KExpr | KRef => true | _ => false end = false) by (destruct k; try contradiction; reflexivity).
  destruct o as [r|i|u|b|b|b|m|n|str0|l]; cbn [tk_op tnorm_op top_ok l_op app] in *.
  - destruct Hok as [Hlp Hr]. inversion Hl; subst s'.
    rewrite parse_op_name by (try assumption; now apply op_follow_not_col).
    rewrite Hlp, Hkk, Hfs, Hr. cbn [negb andb]. exists st. split; [reflexivity | split; [apply same_core_refl | exact Hrel]].
  - inversion Hl; subst s'. exists st. split; [reflexivity | split; [apply same_core_refl | exact Hrel]].
  - inversion Hl; subst s'. exists st. split; [reflexivity | split; [apply same_core_refl | exact Hrel]].
  - inversion Hl; subst s'. exists st. split; [reflexivity | split; [apply same_core_refl | exact Hrel]].
  - inversion Hl; subst s'. exists st. split; [reflexivity | split; [apply same_core_refl | exact Hrel]].
  - inversion Hl; subst s'. exists st. split; [reflexivity | split; [apply same_core_refl | exact Hrel]].
  - destruct Hok as (Ht & Hb & Hi & Hsc). inversion Hl; subst s'.
    rewrite parse_op_mem; try assumption; try (rewrite Hfs; assumption).
    exists st. split; [reflexivity | split; [apply same_core_refl | exact Hrel]].
  - destruct Hok as (Hlp & Hr & Hd). inversion Hl; subst s'.
    rewrite parse_op_name by (try assumption; now apply op_follow_not_col).
    rewrite Hlp, Hkk, Hfs, Hr, Hd. cbn [negb andb]. exists st. split; [reflexivity | split; [apply same_core_refl | exact Hrel]].
  - inversion Hl; subst s'. exists st. split; [reflexivity | split; [apply same_core_refl | exact Hrel]].
  - rewrite parse_op_name by (try assumption; now apply op_follow_not_col). rewrite Hok.
    destruct (l_ref_sim st s l s' Hrel Hl) as (st' & E & Hc & Hr'). rewrite E.
    exists st'. split; [reflexivity | split; assumption].
Qed.

(* ---------------------------------------------------------------- operand lists *)

Fixpoint tops_ok (fs : fstate) (decl : name -> bool) (k : stkind) (pos : nat) (ops : list operand) : Prop :=
  match ops with
  | [] => True
  | o :: r => top_ok fs decl (label_position k pos) o /\ tops_ok fs decl k (S pos) r
  end.

Fixpoint l_ops (s : lstate) (ops : list operand) : option lstate :=
  match ops with
  | [] => Some s
  | o :: r => match l_op s o with Some s1 => l_ops s1 r | None => None end
  end.

Definition pops (ops : list operand) : list sop := map (fun o => POp (tnorm_op o)) ops.

Lemma tk_op_head o : exists t r, tk_op o = t :: r /\ t <> TNL /\ t <> TSemi.
Proof.
  destruct o; cbn [tk_op]; unfold tk_mem; cbn [app]; eexists _, _; (split; [reflexivity | split; discriminate]).
Qed.

Lemma sep_toks_cons2 {A} (f : A -> list ttok) x y r : sep_toks f (x :: y :: r) = f x ++ TComma :: sep_toks f (y :: r).
Proof. reflexivity. Qed.
Lemma sep_toks_one {A} (f : A -> list ttok) x : sep_toks f [x] = f x.
Proof. reflexivity. Qed.

Lemma parse_ops_unfold f k st acc t ts :
  t <> TNL -> t <> TSemi ->
  parse_ops (S f) k st acc (t :: ts)
  = let continue (acc : list sop) (st : sstate) (r : list ttok) :=
        match r with
        | TComma :: r' => parse_ops f k st acc r'
        | TNL :: r' | TSemi :: r' => Some (rev acc, false, st, r')
        | TEOF :: _ => Some (rev acc, false, st, r)
        | _ => None
        end in
    match parse_op k (length acc) st (t :: ts) with
    | OpPush o st' r => continue (o :: acc) st' r
    | OpItem st' r => continue acc st' r
    | OpDots r =>
        match r with
        | TNL :: r' | TSemi :: r' => Some (rev acc, true, st, r')
        | TEOF :: _ => Some (rev acc, true, st, r)
        | _ => None
        end
    | OpErr => None
    end.
Proof. intros H1 H2. destruct t; try reflexivity; contradiction. Qed.

Lemma same_core_decl st st' : same_core st st' -> declared (as_rstate st') = declared (as_rstate st).
Proof. intros (H1 & H2 & H3). unfold declared, as_rstate. cbn. now rewrite H2, H3. Qed.

Lemma parse_ops_list k fs rest : plain_kind k -> match k with KExpr | KRef => False | _ => True end ->
  forall ops acc st s s',
    ss_func st = Some fs -> lrel st s ->
    tops_ok fs (declared (as_rstate st)) k (length acc) ops -> l_ops s ops = Some s' ->
    exists st', same_core st st' /\ lrel st' s'
      /\ forall fuel, (length ops < fuel)%nat ->
            parse_ops fuel k st acc (sep_toks tk_op ops ++ TNL :: rest) = Some (rev acc ++ pops ops, false, st', rest).
Proof.
  intros Hk Hk2. induction ops as [|o ops IH]; intros acc st s s' Hfs Hrel Hok Hl.
  - cbn [l_ops] in Hl. inversion Hl; subst s'. exists st. split; [apply same_core_refl|]. split; [exact Hrel|].
    intros fuel Hfuel. destruct fuel; [cbn in Hfuel; lia|]. cbn [sep_toks app parse_ops pops map]. now rewrite app_nil_r.
  - cbn [tops_ok l_ops] in Hok, Hl. destruct Hok as [Ho Hops].
    destruct (l_op s o) as [s1|] eqn:El; [|discriminate].
    destruct (tk_op_head o) as (t & r & Et & Hn1 & Hn2).
    destruct ops as [|o2 ops'].
    + (* last operand *)
      destruct (parse_op_insn k (length acc) st fs s o s1 (TNL :: rest) Hk Hk2 Hfs Hrel Ho El I) as (st1 & Ep & Hc1 & Hr1).
      cbn [l_ops] in Hl. inversion Hl; subst s'.
      exists st1. split; [assumption|]. split; [assumption|].
      intros fuel Hfuel. destruct fuel; [cbn in Hfuel; lia|].
      rewrite sep_toks_one. rewrite Et in *. cbn [app] in *. rewrite parse_ops_unfold by assumption. cbv zeta. rewrite Ep.
      cbn [rev pops map]. reflexivity.
    + destruct (parse_op_insn k (length acc) st fs s o s1 (TComma :: sep_toks tk_op (o2 :: ops') ++ TNL :: rest) Hk Hk2 Hfs Hrel Ho El I)
        as (st1 & Ep & Hc1 & Hr1).
      destruct (IH (POp (tnorm_op o) :: acc) st1 s1 s') as (st2 & Hc2 & Hr2 & E2).
      * destruct Hc1 as (_ & _ & ->). exact Hfs.
      * exact Hr1.
      * rewrite (same_core_decl st st1 Hc1). exact Hops.
      * exact Hl.
      * exists st2. split; [eapply same_core_trans; eassumption|]. split; [assumption|].
        intros fuel Hfuel. destruct fuel; [cbn in Hfuel; lia|].
        rewrite sep_toks_cons2. rewrite <- app_assoc. cbn [app].
        rewrite Et in *. cbn [app] in *. rewrite parse_ops_unfold by assumption. cbv zeta. rewrite Ep.
        rewrite E2 by (cbn [length] in Hfuel |- *; lia). cbn [rev pops map]. now rewrite <- app_assoc.
Qed.

(* ---------------------------------------------------------------- statements inside a function *)

Definition label_lines (labs : list Z) : list ttok := flat_map (fun l => [TName (lname l); TCol; TNL]) labs.

Lemma parse_labels_lines labs : forall acc nm r fuel,
  follow_not_col r -> (length labs < fuel)%nat ->
  parse_labels fuel (label_lines labs ++ TName nm :: r) acc = Some (rev acc ++ map lname labs, nm, r).
Proof.
  induction labs as [|l labs IH]; intros acc nm r fuel Hr Hf.
  - destruct fuel; [cbn in Hf; lia|]. cbn [label_lines flat_map app parse_labels map].
    rewrite app_nil_r. destruct r as [|[ | | | | | | | | | | | | ] r']; cbn in Hr; try reflexivity. contradiction.
  - destruct fuel; [cbn in Hf; lia|]. cbn [label_lines flat_map app parse_labels].
    fold (label_lines labs). rewrite IH by (try assumption; cbn in Hf; lia).
    cbn [rev map]. now rewrite <- app_assoc.
Qed.

Lemma stmt_kind_insn c : readable_code c = true -> stmt_kind (insn_name c) = Some (KInsn c).
Proof. destruct c; intros H; try discriminate; reflexivity. Qed.

Fixpoint l_defs (s : lstate) (labs : list Z) : option lstate :=
  match labs with
  | [] => Some s
  | l :: r => match l_def s l with Some s1 => l_defs s1 r | None => None end
  end.

Definition set_func (st : sstate) (fs : fstate) : sstate :=
  mkSstate (ss_mods st) (ss_mod st) (Some fs) (ss_labels st) (ss_next st).

Lemma lrel_set_func st s fs : lrel st s -> lrel (set_func st fs) s.
Proof. intros [[H1 H2 H3 H4] Hn]. split; [constructor; assumption | assumption]. Qed.

Lemma def_labels_sim labs : forall st s s' fs,
  ss_func st = Some fs -> lrel st s -> l_defs s labs = Some s' ->
  exists st', def_labels st (map lname labs) = Some st'
    /\ ss_mods st' = ss_mods st /\ ss_mod st' = ss_mod st
    /\ ss_func st' = Some (fs_set_insns fs (rev (map ILabel labs) ++ fs_insns fs))
    /\ lrel st' s'.
Proof.
  induction labs as [|l labs IH]; intros st s s' fs Hfs Hrel Hl.
  - cbn in Hl. inversion Hl; subst s'. exists st. cbn [map def_labels rev app].
    split; [reflexivity|]. split; [reflexivity|]. split; [reflexivity|]. split; [|assumption].
    rewrite Hfs. destruct fs; reflexivity.
  - cbn [l_defs] in Hl. destruct (l_def s l) as [s1|] eqn:Ed; [|discriminate].
    destruct (l_def_sim st s l s1 Hrel Ed) as (st1 & E1 & (C1 & C2 & C3) & Hr1).
    cbn [map def_labels]. rewrite E1. rewrite C3, Hfs.
    set (st2 := mkSstate (ss_mods st1) (ss_mod st1)
                  (Some (mkFstate (fs_name fs) (fs_vararg fs) (fs_res fs) (fs_args fs) (fs_locals fs) (fs_globals fs)
                           (ILabel l :: fs_insns fs))) (ss_labels st1) (ss_next st1)).
    destruct (IH st2 s1 s' (fs_set_insns fs (ILabel l :: fs_insns fs))) as (st3 & E3 & D1 & D2 & D3 & Hr3).
    + reflexivity.
    + exact (lrel_set_func st1 s1 _ Hr1).
    + exact Hl.
    + exists st3. split; [exact E3|]. split; [cbn in D1; congruence|]. split; [cbn in D2; congruence|]. split; [|exact Hr3].
      rewrite D3. unfold fs_set_insns. cbn [fs_name fs_vararg fs_res fs_args fs_locals fs_globals fs_insns map rev].
      now rewrite <- app_assoc.
Qed.

Lemma all_ops_pops ops : all_ops (pops ops) = Some (map tnorm_op ops).
Proof.
  induction ops as [|o ops IH]; [reflexivity|]. unfold all_ops, pops in *. cbn [map fold_right]. now rewrite IH.
Qed.

Lemma top_ok_change fs fs' d d' lp o :
  (forall x, func_reg_p fs' x = func_reg_p fs x) -> (forall x, d' x = d x) ->
  top_ok fs d lp o -> top_ok fs' d' lp o.
Proof.
  intros Hf Hd. destruct o as [r|i|u|b|b|b|m|n|str0|l]; cbn [top_ok]; try tauto.
  - now rewrite Hf.
  - unfold opt_reg_ok. destruct (m_base m), (m_index m); rewrite ?Hf; tauto.
  - now rewrite Hf, Hd.
Qed.

Lemma tops_ok_change fs fs' d d' k ops : forall pos,
  (forall x, func_reg_p fs' x = func_reg_p fs x) -> (forall x, d' x = d x) ->
  tops_ok fs d k pos ops -> tops_ok fs' d' k pos ops.
Proof.
  induction ops as [|o ops IH]; intros pos Hf Hd H; [exact I|].
  destruct H as [Ho Hops]. split; [eapply top_ok_change; eassumption | now apply IH].
Qed.

Lemma scan_stmt_name F st x r : scan_stmt F st (TName x :: r) = scan_body F st (TName x :: r).
Proof. reflexivity. Qed.

Lemma label_lines_head labs nm r : exists x r', label_lines labs ++ TName nm :: r = TName x :: r'.
Proof. destruct labs as [|l labs]; cbn [label_lines flat_map app]; eexists _, _; reflexivity. Qed.

Lemma plain_kind_insn c : plain_kind (KInsn c).
Proof. repeat split. Qed.

(* an instruction line with the label lines in front of it *)
Lemma stmt_insn st fs s labs c ops s1 s2 rest :
  ss_func st = Some fs -> lrel st s -> readable_code c = true ->
  l_defs s labs = Some s1 -> l_ops s1 ops = Some s2 ->
  tops_ok fs (declared (as_rstate st)) (KInsn c) 0 ops ->
  (var_arity c = false -> length ops = insn_nops c) ->
  exists st', ss_mods st' = ss_mods st /\ ss_mod st' = ss_mod st
    /\ ss_func st' = Some (fs_set_insns fs (IInsn c (map tnorm_op ops) :: rev (map ILabel labs) ++ fs_insns fs))
    /\ lrel st' s2
    /\ forall F, (length labs < F)%nat -> (length ops < F)%nat ->
          scan_stmt F st (label_lines labs ++ tk_insn (IInsn c ops) ++ rest) = SNext st' rest.
Proof.
  intros Hfs Hrel Hrd Hdef Hops Hok Har.
  destruct (def_labels_sim labs st s s1 fs Hfs Hrel Hdef) as (st1 & E1 & M1 & M2 & F1 & Hr1).
  set (fs1 := fs_set_insns fs (rev (map ILabel labs) ++ fs_insns fs)) in *.
  assert (Hok1 : tops_ok fs1 (declared (as_rstate st1)) (KInsn c) (length (@nil sop)) ops).
  { eapply tops_ok_change; [ | | exact Hok].
    - intros y. reflexivity.
    - intros y. unfold declared, as_rstate. cbn. rewrite M2, F1, Hfs. destruct (ss_mod st); reflexivity. }
  destruct (parse_ops_list (KInsn c) fs1 rest (plain_kind_insn c) I ops [] st1 s1 s2 F1 Hr1 Hok1 Hops)
    as (st2 & (C1 & C2 & C3) & Hr2 & E2).
  eexists. split; [|split; [|split; [|split]]]; cycle 4.
  - intros F HF1 HF2.
    cbn [tk_insn app]. rewrite <- app_assoc. cbn [app].
    destruct (label_lines_head labs (insn_name c) (sep_toks tk_op ops ++ TNL :: rest)) as (x & r' & Eh).
    rewrite Eh, scan_stmt_name, <- Eh. clear Eh x r'.
    unfold scan_body.
    rewrite parse_labels_lines; [ | | assumption].
    2:{ destruct (sep_toks tk_op ops) as [|t ts] eqn:E; [exact I|].
        destruct ops as [|o ops']; [discriminate|].
        destruct (tk_op_head o) as (t0 & r0 & Et & _).
        destruct ops'; [rewrite sep_toks_one in E | rewrite sep_toks_cons2 in E]; rewrite Et in E; inversion E; subst;
          destruct o; cbn [tk_op] in Et; try (inversion Et; subst; exact I); unfold tk_mem in Et; inversion Et; subst; exact I. }
    cbn [rev app]. rewrite stmt_kind_insn by assumption.
    cbn [label_count_bad is_var andb]. rewrite E1.
    rewrite E2 by assumption. cbn [rev app]. unfold stmt_exec. rewrite all_ops_pops.
    assert (Harity : (negb (var_arity c) && negb (Nat.eqb (length (map tnorm_op ops)) (insn_nops c)))%bool = false).
    { rewrite map_length. destruct (var_arity c); [reflexivity|]. rewrite (Har eq_refl), Nat.eqb_refl. reflexivity. }
    rewrite Harity, C3, F1. reflexivity.
  - cbn [ss_mods]. congruence.
  - cbn [ss_mod]. congruence.
  - reflexivity.
  - destruct Hr2 as [[T1 T2 T3 T4] Hn]. split; [constructor; assumption | assumption].
Qed.

Lemma stmt_endfunc st mn items fs s labs s1 rest :
  ss_mod st = Some (mn, items) -> ss_func st = Some fs -> lrel st s -> l_defs s labs = Some s1 ->
  exists st', ss_mods st' = ss_mods st
    /\ ss_mod st' = Some (mn, ItFunc (close_func (fs_set_insns fs (rev (map ILabel labs) ++ fs_insns fs))) :: items)
    /\ ss_func st' = None /\ lrel st' s1
    /\ forall F, (length labs < F)%nat ->
          scan_stmt F st (label_lines labs ++ TName (str "endfunc") :: TNL :: rest) = SNext st' rest.
Proof.
  intros Hmod Hfs Hrel Hdef.
  destruct (def_labels_sim labs st s s1 fs Hfs Hrel Hdef) as (st1 & E1 & M1 & M2 & F1 & Hr1).
  eexists. split; [|split; [|split; [|split]]]; cycle 4.
  - intros F HF.
    destruct (label_lines_head labs (str "endfunc") (TNL :: rest)) as (x & r' & Eh).
    rewrite Eh, scan_stmt_name, <- Eh. clear Eh x r'.
    unfold scan_body. rewrite parse_labels_lines by (try assumption; exact I).
    cbn [rev app]. change (stmt_kind (str "endfunc")) with (Some KEndfunc).
    cbn [label_count_bad is_var andb].
    rewrite E1, Hfs. destruct F as [|F']; [lia|]. cbn [parse_ops rev].
    unfold stmt_exec. rewrite M2, Hmod, F1. reflexivity.
  - cbn [ss_mods]. assumption.
  - reflexivity.
  - reflexivity.
  - destruct Hr1 as [[T1 T2 T3 T4] Hn]. split; [constructor; assumption | assumption].
Qed.

(* ---------------------------------------------------------------- the scan loop as a simulation *)

Definition sreaches (st : sstate) (ts : list ttok) (st' : sstate) (r : list ttok) : Prop :=
  forall fuel, (length ts < fuel)%nat ->
    exists fuel', (length r < fuel')%nat /\ scan_loop fuel st ts = scan_loop fuel' st' r.

Lemma sreaches_refl st ts : sreaches st ts st ts.
Proof. intros fuel H. exists fuel. split; [assumption | reflexivity]. Qed.

Lemma sreaches_trans st1 ts1 st2 ts2 st3 ts3 :
  sreaches st1 ts1 st2 ts2 -> sreaches st2 ts2 st3 ts3 -> sreaches st1 ts1 st3 ts3.
Proof.
  intros H1 H2 fuel Hf. destruct (H1 fuel Hf) as [f1 [Hf1 E1]]. destruct (H2 f1 Hf1) as [f2 [Hf2 E2]].
  exists f2. split; [assumption | congruence].
Qed.

Lemma sreaches_step st toks rest st' :
  (0 < length toks)%nat ->
  (forall F, (length (toks ++ rest) < F)%nat -> scan_stmt F st (toks ++ rest) = SNext st' rest) ->
  sreaches st (toks ++ rest) st' rest.
Proof.
  intros Hne Hs fuel Hf. destruct fuel as [|fuel]; [lia|].
  exists fuel. split; [rewrite app_length in Hf; lia|]. cbn [scan_loop]. now rewrite Hs.
Qed.

Lemma sreaches_nl st ts st' r : sreaches st ts st' r -> sreaches st (TNL :: ts) st' r.
Proof.
  intros H fuel Hf. destruct (H fuel ltac:(cbn [length] in Hf; lia)) as [f' [Hf' E]].
  exists f'. split; [assumption|]. rewrite <- E.
  destruct fuel as [|fuel]; [reflexivity|]. cbn [scan_loop]. reflexivity.
Qed.

(* ---------------------------------------------------------------- function bodies *)

Fixpoint l_insns (s : lstate) (insns : list insn) : option lstate :=
  match insns with
  | [] => Some s
  | ILabel l :: r => match l_def s l with Some s1 => l_insns s1 r | None => None end
  | IInsn _ ops :: r => match l_ops s ops with Some s1 => l_insns s1 r | None => None end
  end.

Lemma l_defs_app s a b : l_defs s (a ++ b) = match l_defs s a with Some s1 => l_defs s1 b | None => None end.
Proof. revert s; induction a as [|l a IH]; intros s; [reflexivity|]. cbn [app l_defs]. destruct (l_def s l); [apply IH | reflexivity]. Qed.

Definition insn_ok (fs : fstate) (d : name -> bool) (i : insn) : Prop :=
  match i with
  | ILabel _ => True
  | IInsn c ops => readable_code c = true /\ tops_ok fs d (KInsn c) 0 ops /\ (var_arity c = false -> length ops = insn_nops c)
  end.

Lemma label_lines_app a b : label_lines (a ++ b) = label_lines a ++ label_lines b.
Proof. unfold label_lines. now rewrite flat_map_app. Qed.

Lemma tk_op_nonempty o : (1 <= length (tk_op o))%nat.
Proof. destruct (tk_op_head o) as (t & r & E & _). rewrite E. cbn. lia. Qed.

Lemma sep_toks_length ops : (length ops <= length (sep_toks tk_op ops))%nat.
Proof.
  induction ops as [|o ops IH]; [cbn; lia|]. destruct ops as [|o2 ops'].
  - rewrite sep_toks_one. pose proof (tk_op_nonempty o). cbn [length]. lia.
  - rewrite sep_toks_cons2, app_length. cbn [length] in *. pose proof (tk_op_nonempty o). lia.
Qed.

Lemma label_lines_length labs : length (label_lines labs) = (3 * length labs)%nat.
Proof. induction labs as [|l labs IH]; [reflexivity|]. cbn [label_lines flat_map app length] in *. fold (label_lines labs). rewrite IH. lia. Qed.


Lemma tbody_loop mn items d rest : forall insns labs st fs s s1 s',
  ss_mod st = Some (mn, items) -> ss_func st = Some fs -> lrel st s ->
  (forall x, declared (as_rstate st) x = d x) ->
  l_defs s labs = Some s1 -> l_insns s1 insns = Some s' -> Forall (insn_ok fs d) insns ->
  exists st', sreaches st (label_lines labs ++ flat_map tk_insn insns ++ TName (str "endfunc") :: TNL :: rest) st' rest
    /\ ss_mods st' = ss_mods st
    /\ ss_mod st' = Some (mn, ItFunc (close_func (fs_set_insns fs
                         (rev (map tnorm_insn insns) ++ rev (map ILabel labs) ++ fs_insns fs))) :: items)
    /\ ss_func st' = None /\ lrel st' s'.
Proof.
  induction insns as [|i insns IH]; intros labs st fs s s1 s' Hmod Hfs Hrel Hd Hdefs Hins Hok.
  - cbn [l_insns] in Hins. inversion Hins; subst s'. cbn [flat_map app map rev].
    destruct (stmt_endfunc st mn items fs s labs s1 rest Hmod Hfs Hrel Hdefs) as (st' & H1 & H2 & H3 & H4 & Hstep).
    exists st'. split; [|split; [assumption | split; [exact H2 | split; assumption]]].
    replace (label_lines labs ++ TName (str "endfunc") :: TNL :: rest)
      with ((label_lines labs ++ [TName (str "endfunc"); TNL]) ++ rest) by (rewrite <- app_assoc; reflexivity).
    apply sreaches_step; [rewrite app_length; cbn; lia|].
    intros F HF. rewrite <- app_assoc. cbn [app]. apply Hstep.
    rewrite !app_length, label_lines_length in HF. cbn [length] in HF. lia.
  - pose proof (Forall_inv Hok) as Hi. pose proof (Forall_inv_tail Hok) as Hoks.
    destruct i as [l|c ops].
    + (* a label line joins the pending ones *)
      cbn [l_insns] in Hins. destruct (l_def s1 l) as [s2|] eqn:Ed; [|discriminate].
      destruct (IH (labs ++ [l]) st fs s s2 s' Hmod Hfs Hrel Hd) as (st' & Hre & H1 & H2 & H3 & H4); try assumption.
      { rewrite l_defs_app, Hdefs. cbn [l_defs]. now rewrite Ed. }
      exists st'. split; [|split; [assumption|split; [|split; assumption]]].
      * cbn [flat_map tk_insn app]. rewrite label_lines_app in Hre. rewrite <- app_assoc in Hre. exact Hre.
      * rewrite H2. do 5 f_equal. cbn [map tnorm_insn rev]. rewrite map_app, rev_app_distr. cbn [map rev app].
        rewrite <- !app_assoc. reflexivity.
    + cbn [l_insns] in Hins. destruct (l_ops s1 ops) as [s2|] eqn:Eo; [|discriminate].
      destruct Hi as (Hrd & Htops & Har).
      assert (Htops' : tops_ok fs (declared (as_rstate st)) (KInsn c) 0 ops).
      { eapply tops_ok_change; [ | | exact Htops]; [reflexivity | exact Hd]. }
      destruct (stmt_insn st fs s labs c ops s1 s2 (flat_map tk_insn insns ++ TName (str "endfunc") :: TNL :: rest)
                  Hfs Hrel Hrd Hdefs Eo Htops' Har) as (st1 & M1 & M2 & F1 & Hr1 & Hstep).
      set (fs1 := fs_set_insns fs (IInsn c (map tnorm_op ops) :: rev (map ILabel labs) ++ fs_insns fs)) in *.
      destruct (IH [] st1 fs1 s2 s2 s') as (st' & Hre & H1 & H2 & H3 & H4).
      * congruence.
      * exact F1.
      * exact Hr1.
      * intros x. rewrite <- Hd. unfold declared, as_rstate. cbn. rewrite M2, F1, Hfs. destruct (ss_mod st); reflexivity.
      * reflexivity.
      * exact Hins.
      * eapply Forall_impl; [|exact Hoks]. intros [l|c' ops']; [tauto|]. cbn [insn_ok].
        intros (A & B & C). split; [assumption|]. split; [|assumption].
        eapply tops_ok_change; [ | | exact B]; reflexivity.
      * exists st'. split; [|split; [congruence|split; [|split; assumption]]].
        -- eapply sreaches_trans; [|exact Hre].
           cbn [flat_map]. rewrite <- app_assoc.
           replace (label_lines labs ++ tk_insn (IInsn c ops) ++ flat_map tk_insn insns ++ TName (str "endfunc") :: TNL :: rest)
             with ((label_lines labs ++ tk_insn (IInsn c ops)) ++ flat_map tk_insn insns ++ TName (str "endfunc") :: TNL :: rest)
             by now rewrite <- app_assoc.
           cbn [label_lines flat_map app].
           apply sreaches_step; [rewrite app_length; cbn [tk_insn length]; lia|].
           intros F HF. rewrite <- app_assoc. apply Hstep.
           ++ rewrite !app_length, label_lines_length in HF. lia.
           ++ rewrite !app_length in HF. cbn [tk_insn length] in HF. rewrite app_length in HF.
              pose proof (sep_toks_length ops). lia.
        -- rewrite H2. do 5 f_equal. unfold fs1, fs_set_insns.
           cbn [map tnorm_insn rev fs_insns fs_name fs_vararg fs_res fs_args fs_locals fs_globals app].
           rewrite <- !app_assoc. reflexivity.
Qed.

(* Hexadecimal literals: p-typed data prints as 0x followed by the digits of %lx; scan_number takes the
   0x prefix, collects the hexadecimal digits and strtoul base 16 reads the value back. *)
From Coq Require Import List ZArith NArith Bool String Lia.
From MirV Require Import Base.W64 Mir.Opcode C11.Tables C11.Ast C11.BinIO C11.BinIOProofs C10.TextOut C10.TextScan C10.TextProofs
  C10.LexProofs.
Import ListNotations.
Local Open Scope Z_scope.
Local Notation length := List.length.

Definition all_xdigits (ds : bytes) : Prop := Forall (fun c => c_isxdigit c = true) ds.

Lemma hex_char_facts d : 0 <= d < 16 ->
  c_isxdigit (hex_char d) = true /\ digit_val (hex_char d) = Some d /\ N.eqb (hex_char d) 95 = false.
Proof.
  intros H.
  assert (E : d = 0 \/ d = 1 \/ d = 2 \/ d = 3 \/ d = 4 \/ d = 5 \/ d = 6 \/ d = 7 \/ d = 8 \/ d = 9
              \/ d = 10 \/ d = 11 \/ d = 12 \/ d = 13 \/ d = 14 \/ d = 15) by lia.
  repeat (destruct E as [E|E]); subst d; repeat split; reflexivity.
Qed.

Ltac Zify.zify_post_hook ::= Z.div_mod_to_equations.

Lemma hex_digits_all fuel : forall z acc, 0 <= z -> all_xdigits acc -> all_xdigits (hex_digits fuel z acc).
Proof.
  induction fuel as [|f IH]; intros z acc Hz Hacc; cbn [hex_digits]; [assumption|].
  destruct (Z.ltb_spec z 16).
  - constructor; [apply hex_char_facts; lia | assumption].
  - apply IH; [lia|]. constructor; [apply hex_char_facts; lia | assumption].
Qed.

Lemma hex_digits_nonempty fuel z acc : (0 < fuel)%nat -> exists d r, hex_digits fuel z acc = d :: r.
Proof.
  revert z acc; induction fuel as [|f IH]; intros z acc Hf; [lia|].
  cbn [hex_digits]. destruct (z <? 16); [eauto|].
  destruct f as [|f']; [cbn [hex_digits]; eauto | apply IH; lia].
Qed.

Lemma strtoul_hex_digits fuel : forall z tl acc, 0 <= z < 16 ^ Z.of_nat fuel ->
  exists k, 0 <= k /\ strtoul_digits 16 (hex_digits fuel z tl) acc = strtoul_digits 16 tl (acc * 16 ^ k + z).
Proof.
  induction fuel as [|f IH]; intros z tl acc Hz.
  - cbn in Hz. assert (z = 0) by lia. subst. exists 0. split; [lia|]. cbn [hex_digits]. f_equal. lia.
  - cbn [hex_digits]. destruct (Z.ltb_spec z 16) as [Hs|Hl].
    + exists 1. split; [lia|]. cbn [strtoul_digits].
      destruct (hex_char_facts z ltac:(lia)) as (_ & -> & _).
      destruct (Z.ltb_spec z 16); [|lia]. f_equal; lia.
    + rewrite Nat2Z.inj_succ, Z.pow_succ_r in Hz by lia.
      destruct (IH (z / 16) (hex_char (z mod 16) :: tl) acc ltac:(lia)) as [k [Hk E]].
      exists (k + 1). split; [lia|]. rewrite E. cbn [strtoul_digits].
      destruct (hex_char_facts (z mod 16) ltac:(lia)) as (_ & -> & _).
      destruct (Z.ltb_spec (z mod 16) 16); [|lia]. f_equal.
      rewrite Z.pow_add_r by lia. change (16 ^ 1) with 16. lia.
Qed.

Lemma pow16_log2 z : 0 <= z -> z < 16 ^ Z.of_nat (S (Z.to_nat (Z.log2 z))).
Proof.
  intros Hz. destruct (Z.eq_dec z 0) as [->|Hnz]; [cbn; lia|].
  pose proof (Z.log2_spec z ltac:(lia)) as [_ Hu]. pose proof (Z.log2_nonneg z).
  rewrite Nat2Z.inj_succ, Z2Nat.id by lia.
  eapply Z.lt_le_trans; [exact Hu|]. apply Z.pow_le_mono_l. lia.
Qed.

Lemma xdigit_not_sign c : c_isxdigit c = true -> c <> 45%N /\ c <> 43%N /\ N.eqb c 95 = false.
Proof.
  unfold c_isxdigit, c_isdigit, c_hexchar. rewrite !orb_true_iff, !andb_true_iff, !N.leb_le.
  intros H. split; [lia|]. split; [lia|]. apply N.eqb_neq. lia.
Qed.

Lemma p_hex_xdigits u : 0 <= u -> all_xdigits (p_hex u).
Proof. intros H. apply hex_digits_all; [assumption | constructor]. Qed.

Lemma p_hex_nonempty u : exists d r, p_hex u = d :: r.
Proof. apply hex_digits_nonempty. lia. Qed.

Lemma strtoul_p_hex u : in_u64 u -> strtoul 16 (p_hex u) = u.
Proof.
  intros [H0 H1].
  destruct (p_hex_nonempty u) as (d & r & E).
  pose proof (p_hex_xdigits u H0) as Hall. rewrite E in Hall.
  destruct (xdigit_not_sign d (Forall_inv Hall)) as (Hm & Hp & _).
  assert (Ev : strtoul_digits 16 (p_hex u) 0 = u).
  { unfold p_hex. destruct (strtoul_hex_digits (S (Z.to_nat (Z.log2 u))) u [] 0) as [k [Hk Ek]]; [split; [lia | now apply pow16_log2]|].
    rewrite Ek. cbn [strtoul_digits]. lia. }
  rewrite E in *. rewrite strtoul_nosign by assumption. cbv zeta. rewrite Ev.
  destruct (Z.leb_spec (2 ^ 64) u); lia.
Qed.

(* the digit loop in base 16 *)
Lemma num_digits_xrun d ds rest acc :
  all_xdigits ds -> good_rest rest ->
  num_digits true d (ds ++ rest) acc
  = (rev ds ++ (if N.eqb d 95 then acc else d :: acc), hd_error rest, tl rest).
Proof.
  revert d acc; induction ds as [|e ds IH]; intros d acc Hds Hrest.
  - cbn [app rev]. destruct rest as [|c rest]; cbn [num_digits hd_error tl]; [reflexivity|].
    cbn in Hrest. apply sep_char_cases in Hrest.
    repeat (destruct Hrest as [Hrest|Hrest]); subst c; reflexivity.
  - pose proof (Forall_inv Hds) as He. pose proof (Forall_inv_tail Hds) as Hds'. cbn [app num_digits].
    destruct (xdigit_not_sign e He) as (_ & _ & E95). rewrite E95.
    unfold c_isxdigit in He.
    replace (negb false && negb (c_isdigit e) && negb (true && c_hexchar e))%bool with false
      by (cbn [negb andb]; destruct (c_isdigit e), (c_hexchar e); try reflexivity; discriminate).
    rewrite IH by assumption. rewrite E95. cbn [rev]. now rewrite <- app_assoc.
Qed.

Lemma scan_number_hex d ds rest :
  c_isxdigit d = true -> all_xdigits ds -> good_rest rest ->
  scan_number 48 (120%N :: d :: ds ++ rest) = (d :: ds, NInt 16, rest).
Proof.
  intros Hd Hds Hrest. unfold scan_number.
  rewrite sn_sign_digit by reflexivity. unfold sn_rest.
  change (sn_base 48 (120%N :: d :: ds ++ rest)) with (16, d, ds ++ rest). cbv beta iota. change (16 =? 16) with true.
  rewrite num_digits_xrun by assumption.
  destruct (xdigit_not_sign d Hd) as (_ & _ & E95). rewrite E95.
  destruct (good_rest_hd rest Hrest) as (H1 & H2 & H3).
  rewrite sn_frac_none, sn_exp_none by assumption.
  unfold sn_finish. rewrite rev_app_distr, rev_involutive. cbn [rev app]. now rewrite unget_hd.
Qed.

(* a pointer-typed datum: "0x" and the %lx digits; re-read as the INT with the same bits *)
Lemma scan_token_hex pF pD pLD u rest f :
  in_u64 u -> good_rest rest ->
  scan_token pF pD pLD (S f) (str "0x" ++ p_hex u ++ rest) = Some (TInt (s64 u), rest).
Proof.
  intros Hu Hrest. pose proof (strtoul_p_hex u Hu) as Hv.
  destruct (p_hex_nonempty u) as (d & ds & E).
  pose proof (p_hex_xdigits u ltac:(destruct Hu; assumption)) as Hall. rewrite E in *.
  pose proof (Forall_inv Hall) as Hd. pose proof (Forall_inv_tail Hall) as Hds.
  change (str "0x" ++ (d :: ds) ++ rest) with (48%N :: 120%N :: d :: ds ++ rest).
  cbn [scan_token]. cbn [N.eqb orb Pos.eqb andb].
  change (name_char 48 true) with false. cbv iota.
  change ((48 =? 43)%N || (48 =? 45)%N || c_isdigit 48)%bool with true. cbv iota.
  change ((48 =? 43)%N || (48 =? 45)%N)%bool with false. cbn [andb].
  rewrite scan_number_hex by assumption. now rewrite Hv.
Qed.

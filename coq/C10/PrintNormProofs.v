(* The printer does not see what a text scan normalises: p_ctx (map tnorm_module ms) = p_ctx ms
   for modules whose unsigned immediates are below 2^63 and whose string operands are empty or end
   in NUL (exactly the complement of known findings 1 and 2). *)
From Coq Require Import List ZArith NArith Bool String Lia.
From MirV Require Import Base.W64 Mir.Opcode C11.Tables C11.Ast C11.BinIO C11.BinIOProofs C10.TextOut C10.TextScan C10.TextProofs
  C10.TextTokens.
Import ListNotations.
Local Open Scope Z_scope.
Local Notation length := List.length.

Definition op_text_stable (o : operand) : Prop :=
  match o with
  | OUint u => 0 <= u < 2 ^ 63
  | OStr s => nul_terminate s = s
  | _ => True
  end.

Definition insn_text_stable (i : insn) : Prop :=
  match i with ILabel _ => True | IInsn _ ops => Forall op_text_stable ops end.

Definition item_text_stable (it : item) : Prop :=
  match it with ItFunc f => Forall insn_text_stable (f_insns f) | _ => True end.

Definition text_stable (ms : list module) : Prop := Forall (fun m => Forall item_text_stable (mod_items m)) ms.

Section PrintTnorm.
  Variables fF fD fLD : Z -> bytes.

  Lemma p_mem_tnorm m : p_mem (tnorm_mem m) = p_mem m.
  Proof. destruct m as [t d b i sc a na]. unfold p_mem, tnorm_mem. cbn. destruct i; reflexivity. Qed.

  Lemma p_op_tnorm o : op_text_stable o -> p_op fF fD fLD (tnorm_op o) = p_op fF fD fLD o.
  Proof.
    destruct o as [r|i|u|b|b|b|m|n|s|l]; cbn [op_text_stable tnorm_op p_op]; intros H; try reflexivity.
    - assert (E : s64 u = u) by (apply swrap_id; [lia|]; unfold in_s; cbn; lia).
      rewrite E. unfold p_int. destruct (Z.ltb_spec u 0); [lia | reflexivity].
    - apply p_mem_tnorm.
    - now rewrite H.
  Qed.

  Lemma sep_list_map_in {A} sep (f : A -> bytes) (g : A -> A) l :
    Forall (fun x => f (g x) = f x) l -> sep_list sep f (map g l) = sep_list sep f l.
  Proof.
    intros H. destruct l as [|x l]; [reflexivity|]. cbn [map sep_list].
    rewrite (Forall_inv H). f_equal. pose proof (Forall_inv_tail H) as Ht. clear H.
    induction l as [|y l IH]; [reflexivity|]. cbn. rewrite (Forall_inv Ht), IH by exact (Forall_inv_tail Ht). reflexivity.
  Qed.

  Lemma p_insn_tnorm i : insn_text_stable i -> p_insn fF fD fLD (tnorm_insn i) = p_insn fF fD fLD i.
  Proof.
    destruct i as [l|c ops]; [reflexivity|]. cbn [insn_text_stable tnorm_insn p_insn]. intros H.
    rewrite (sep_list_map_in comma (p_op fF fD fLD) tnorm_op ops).
    - destruct ops; reflexivity.
    - eapply Forall_impl; [|exact H]. intros o. apply p_op_tnorm.
  Qed.

  Lemma flat_map_in {A} (f : A -> bytes) (g : A -> A) l : Forall (fun x => f (g x) = f x) l -> flat_map f (map g l) = flat_map f l.
  Proof. induction l as [|x l IH]; intros H; [reflexivity|]. cbn. rewrite (Forall_inv H), IH by exact (Forall_inv_tail H). reflexivity. Qed.

  Lemma p_item_tnorm it : item_text_stable it -> p_item fF fD fLD (tnorm_item it) = p_item fF fD fLD it.
  Proof.
    destruct it as [x|x|x|x l|x t els|x r d|x l l2 d|x f|x va res args|f]; try reflexivity; cbn [item_text_stable]; intros H.
    - cbn [tnorm_item p_item]. now rewrite p_proto_tail_norm.
    - cbn [tnorm_item p_item]. unfold p_func, tnorm_func. cbn [f_name f_vararg f_res f_args f_locals f_globals f_insns].
      rewrite p_proto_tail_norm, map_length.
      rewrite (flat_map_in (p_insn fF fD fLD) tnorm_insn (f_insns f)); [reflexivity|].
      eapply Forall_impl; [|exact H]. intros i. apply p_insn_tnorm.
  Qed.

  Lemma p_ctx_tnorm ms : text_stable ms -> p_ctx fF fD fLD (map tnorm_module ms) = p_ctx fF fD fLD ms.
  Proof.
    intros H. unfold p_ctx. apply flat_map_in. eapply Forall_impl; [|exact H]. intros m Hm.
    unfold p_module, tnorm_module. cbn [mod_name mod_items].
    rewrite (flat_map_in (p_item fF fD fLD) tnorm_item (mod_items m)); [reflexivity|].
    eapply Forall_impl; [|exact Hm]. intros it. apply p_item_tnorm.
  Qed.
End PrintTnorm.

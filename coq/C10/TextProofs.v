(* Proofs about the textual MIR codec model (TextOut.v, TextScan.v). *)
From Coq Require Import List ZArith NArith Bool String Lia.
From MirV Require Import Base.W64 Mir.Opcode C11.Tables C11.Ast C11.BinIO C10.TextOut C10.TextScan.
Import ListNotations.
Local Open Scope Z_scope.
Local Notation length := List.length.

(* ---------------------------------------------------------------- the printer does not see what a binary
   read normalises (scale without index, size of a non-block argument) *)

Section PrintNorm.
  Variables fF fD fLD : Z -> bytes.

  Lemma p_mem_norm m : p_mem (norm_mem m) = p_mem m.
  Proof. destruct m as [t d b i sc a na]. unfold p_mem, norm_mem. cbn. destruct i; reflexivity. Qed.

  Lemma p_op_norm o : p_op fF fD fLD (norm_op o) = p_op fF fD fLD o.
  Proof. destruct o; try reflexivity. cbn. apply p_mem_norm. Qed.

  Lemma sep_list_map {A} sep (f : A -> bytes) (g : A -> A) l :
    (forall x, f (g x) = f x) -> sep_list sep f (map g l) = sep_list sep f l.
  Proof.
    intros H. destruct l as [|x l]; [reflexivity|]. cbn [map sep_list]. rewrite H. f_equal.
    induction l as [|y l IH]; [reflexivity|]. cbn. now rewrite H, IH.
  Qed.

  Lemma p_insn_norm i : p_insn fF fD fLD (norm_insn i) = p_insn fF fD fLD i.
  Proof.
    destruct i as [l|c ops]; [reflexivity|]. cbn [norm_insn p_insn].
    rewrite (sep_list_map comma (p_op fF fD fLD) norm_op ops p_op_norm). destruct ops; reflexivity.
  Qed.

  Lemma p_arg_norm v : p_arg (norm_var v) = p_arg v.
  Proof. destruct v as [t n sz]. unfold p_arg, norm_var. cbn. destruct (all_blk_type_p t); reflexivity. Qed.

  Lemma p_proto_tail_norm va res args : p_proto_tail va res (map norm_var args) = p_proto_tail va res args.
  Proof.
    unfold p_proto_tail. rewrite map_map. rewrite (map_ext _ _ p_arg_norm). destruct res, args; reflexivity.
  Qed.

  Lemma flat_map_norm {A} (f : A -> bytes) (g : A -> A) l : (forall x, f (g x) = f x) -> flat_map f (map g l) = flat_map f l.
  Proof. intros H. induction l as [|x l IH]; [reflexivity|]. cbn. now rewrite H, IH. Qed.

  Lemma p_item_norm it : p_item fF fD fLD (norm_item it) = p_item fF fD fLD it.
  Proof.
    destruct it as [x|x|x|x l|x t els|x r d|x l l2 d|x f|x va res args|f]; try reflexivity.
    - cbn [norm_item p_item]. now rewrite p_proto_tail_norm.
    - cbn [norm_item p_item]. unfold p_func, norm_func. cbn [f_name f_vararg f_res f_args f_locals f_globals f_insns].
      rewrite p_proto_tail_norm, map_length.
      now rewrite (flat_map_norm (p_insn fF fD fLD) norm_insn (f_insns f) p_insn_norm).
  Qed.

  Lemma p_ctx_norm ms : p_ctx fF fD fLD (map norm_module ms) = p_ctx fF fD fLD ms.
  Proof.
    unfold p_ctx. apply flat_map_norm. intros m. unfold p_module, norm_module. cbn [mod_name mod_items].
    now rewrite (flat_map_norm (p_item fF fD fLD) norm_item (mod_items m) p_item_norm).
  Qed.
End PrintNorm.

(* Proofs about the textual MIR codec model (TextOut.v, TextScan.v). *)
From Coq Require Import List ZArith NArith Bool String Lia.
From MirV Require Import Base.W64 Mir.Opcode C11.Tables C11.Ast C11.BinIO C11.BinIOProofs C10.TextOut C10.TextScan.
Import ListNotations.
Local Open Scope Z_scope.
Local Notation length := List.length.

(* ---------------------------------------------------------------- the printer does not see what a binary
   read normalises (scale without index, size of a non-block argument) *)

Section PrintNorm.
  Variables fF fD fLD : Z -> bytes.

  Lemma p_mem_norm m : p_mem (norm_mem m) = p_mem m.
  Proof. destruct m as [t d b i sc a na]. unfold p_mem, norm_mem. cbn. destruct i; reflexivity. Qed.

  Lemma p_op_norm o : p_op fF fD fLD (norm_op o) = p_op fF fD fLD o.
  Proof. destruct o; try reflexivity. cbn. apply p_mem_norm. Qed.

  Lemma sep_list_map {A} sep (f : A -> bytes) (g : A -> A) l :
    (forall x, f (g x) = f x) -> sep_list sep f (map g l) = sep_list sep f l.
  Proof.
    intros H. destruct l as [|x l]; [reflexivity|]. cbn [map sep_list]. rewrite H. f_equal.
    induction l as [|y l IH]; [reflexivity|]. cbn. now rewrite H, IH.
  Qed.

  Lemma p_insn_norm i : p_insn fF fD fLD (norm_insn i) = p_insn fF fD fLD i.
  Proof.
    destruct i as [l|c ops]; [reflexivity|]. cbn [norm_insn p_insn].
    rewrite (sep_list_map comma (p_op fF fD fLD) norm_op ops p_op_norm). destruct ops; reflexivity.
  Qed.

  Lemma p_arg_norm v : p_arg (norm_var v) = p_arg v.
  Proof. destruct v as [t n sz]. unfold p_arg, norm_var. cbn. destruct (all_blk_type_p t); reflexivity. Qed.

  Lemma p_proto_tail_norm va res args : p_proto_tail va res (map norm_var args) = p_proto_tail va res args.
  Proof.
    unfold p_proto_tail. rewrite map_map. rewrite (map_ext _ _ p_arg_norm). destruct res, args; reflexivity.
  Qed.

  Lemma flat_map_norm {A} (f : A -> bytes) (g : A -> A) l : (forall x, f (g x) = f x) -> flat_map f (map g l) = flat_map f l.
  Proof. intros H. induction l as [|x l IH]; [reflexivity|]. cbn. now rewrite H, IH. Qed.

  Lemma p_item_norm it : p_item fF fD fLD (norm_item it) = p_item fF fD fLD it.
  Proof.
    destruct it as [x|x|x|x l|x t els|x r d|x l l2 d|x f|x va res args|f]; try reflexivity.
    - cbn [norm_item p_item]. now rewrite p_proto_tail_norm.
    - cbn [norm_item p_item]. unfold p_func, norm_func. cbn [f_name f_vararg f_res f_args f_locals f_globals f_insns].
      rewrite p_proto_tail_norm, map_length.
      now rewrite (flat_map_norm (p_insn fF fD fLD) norm_insn (f_insns f) p_insn_norm).
  Qed.

  Lemma p_ctx_norm ms : p_ctx fF fD fLD (map norm_module ms) = p_ctx fF fD fLD ms.
  Proof.
    unfold p_ctx. apply flat_map_norm. intros m. unfold p_module, norm_module. cbn [mod_name mod_items].
    now rewrite (flat_map_norm (p_item fF fD fLD) norm_item (mod_items m) p_item_norm).
  Qed.
End PrintNorm.

(* ---------------------------------------------------------------- strings: scan_string inverts MIR_output_str *)

Lemma scan_out_char c : (c < 256)%N -> forall f tail acc,
  scan_str (S f) (out_char c ++ tail) acc = scan_str f tail (c :: acc).
Proof.
  intros Hc f tail acc.
  destruct c as [|p]; [reflexivity|].
  do 8 (try destruct p as [p|p|]); try (exfalso; lia); reflexivity.
Qed.

Definition is_bytes (s : bytes) : Prop := Forall (fun c => (c < 256)%N) s.

Lemma scan_str_out s : is_bytes s -> forall f tail acc, (length s < f)%nat ->
  scan_str f (flat_map out_char s ++ 34%N :: tail) acc = Some (rev acc ++ s, tail).
Proof.
  induction s as [|c s IH]; intros Hb f tail acc Hf.
  - destruct f; [cbn in Hf; lia|]. cbn. now rewrite app_nil_r.
  - destruct f; [cbn in Hf; lia|]. inversion Hb as [|? ? Hc Hs]; subst.
    cbn [flat_map]. rewrite <- app_assoc, scan_out_char by assumption.
    rewrite IH by (try assumption; cbn in Hf; lia). cbn [rev]. now rewrite <- app_assoc.
Qed.

(* text_str_roundtrip at the level of scan_string: the bytes come back, any byte values *)
Lemma scan_output_str s tail : is_bytes s ->
  scan_str (S (length s)) (tl (output_str s) ++ tail) [] = Some (s, tail).
Proof.
  intros Hb. unfold output_str. cbn [app tl]. rewrite <- app_assoc. cbn [app].
  now rewrite scan_str_out by (try assumption; lia).
Qed.

Lemma nul_terminate_idem s : nul_terminate (nul_terminate s) = nul_terminate s.
Proof.
  destruct s as [|c s]; [reflexivity|].
  unfold nul_terminate at 2.
  destruct (N.eqb (last (c :: s) 1%N) 0) eqn:E.
  - unfold nul_terminate. now rewrite E.
  - unfold nul_terminate. destruct ((c :: s) ++ [0%N]) as [|n l] eqn:E2; [destruct s; discriminate|].
    rewrite <- E2, last_last, E. reflexivity.
Qed.

Lemma nul_terminate_fix s : s = [] \/ last s 1%N = 0%N -> nul_terminate s = s.
Proof.
  intros [->|H]; [reflexivity|]. unfold nul_terminate. destruct s; [reflexivity|]. now rewrite H.
Qed.

(* ---------------------------------------------------------------- integers: strtoul inverts "%ld"/"%lu" *)

Ltac Zify.zify_post_hook ::= Z.div_mod_to_equations.

Lemma digit_val_digit d : 0 <= d < 10 -> digit_val (digit_char d) = Some d.
Proof.
  intros H. unfold digit_char.
  assert (E : d = 0 \/ d = 1 \/ d = 2 \/ d = 3 \/ d = 4 \/ d = 5 \/ d = 6 \/ d = 7 \/ d = 8 \/ d = 9) by lia.
  repeat (destruct E as [E|E]); subst d; reflexivity.
Qed.

(* parsing the digits printed for z (with fuel for all of them) multiplies the accumulator by a power
   of ten and adds z *)
Lemma strtoul_dec_digits fuel : forall z tl acc, 0 <= z < 10 ^ Z.of_nat fuel ->
  exists k, 0 <= k /\ strtoul_digits 10 (dec_digits fuel z tl) acc = strtoul_digits 10 tl (acc * 10 ^ k + z).
Proof.
  induction fuel as [|f IH]; intros z tl acc Hz.
  - cbn in Hz. assert (z = 0) by lia. subst. exists 0. split; [lia|]. cbn [dec_digits]. f_equal. lia.
  - cbn [dec_digits]. destruct (Z.ltb_spec z 10) as [Hs|Hl].
    + exists 1. split; [lia|]. cbn [strtoul_digits]. rewrite digit_val_digit by lia.
      destruct (Z.ltb_spec z 10); [|lia]. f_equal; lia.
    + rewrite Nat2Z.inj_succ, Z.pow_succ_r in Hz by lia.
      destruct (IH (z / 10) (digit_char (z mod 10) :: tl) acc ltac:(lia)) as [k [Hk E]].
      exists (k + 1). split; [lia|]. rewrite E. cbn [strtoul_digits]. rewrite digit_val_digit by lia.
      destruct (Z.ltb_spec (z mod 10) 10); [|lia]. f_equal.
      rewrite Z.pow_add_r by lia. change (10 ^ 1) with 10. lia.
Qed.

Lemma pow10_log2 z : 0 <= z -> z < 10 ^ Z.of_nat (S (Z.to_nat (Z.log2 z))).
Proof.
  intros Hz. destruct (Z.eq_dec z 0) as [->|Hnz]; [cbn; lia|].
  pose proof (Z.log2_spec z ltac:(lia)) as [_ Hu]. pose proof (Z.log2_nonneg z).
  rewrite Nat2Z.inj_succ, Z2Nat.id by lia.
  eapply Z.lt_le_trans; [exact Hu|]. apply Z.pow_le_mono_l. lia.
Qed.

Lemma strtoul_digits_p_nat z : 0 <= z -> strtoul_digits 10 (p_nat z) 0 = z.
Proof.
  intros Hz. unfold p_nat.
  destruct (strtoul_dec_digits (S (Z.to_nat (Z.log2 z))) z [] 0) as [k [Hk E]]; [split; [lia | now apply pow10_log2]|].
  rewrite E. cbn [strtoul_digits]. lia.
Qed.

(* the first character of a printed natural number is a digit, hence neither '-' nor '+' *)
Lemma dec_digits_head fuel z tl : 0 <= z -> (0 < fuel)%nat ->
  exists d r, dec_digits fuel z tl = d :: r /\ c_isdigit d = true.
Proof.
  revert z tl; induction fuel as [|f IH]; intros z tl Hz Hf; [lia|].
  cbn [dec_digits]. destruct (Z.ltb_spec z 10).
  - exists (digit_char z), tl. split; [reflexivity|].
    unfold digit_char. assert (E : z = 0 \/ z = 1 \/ z = 2 \/ z = 3 \/ z = 4 \/ z = 5 \/ z = 6 \/ z = 7 \/ z = 8 \/ z = 9) by lia.
    repeat (destruct E as [E|E]); subst z; reflexivity.
  - destruct f as [|f'].
    + cbn [dec_digits]. exists (digit_char (z mod 10)), tl. split; [reflexivity|].
      unfold digit_char. assert (E : z mod 10 = 0 \/ z mod 10 = 1 \/ z mod 10 = 2 \/ z mod 10 = 3 \/ z mod 10 = 4 \/ z mod 10 = 5
                                      \/ z mod 10 = 6 \/ z mod 10 = 7 \/ z mod 10 = 8 \/ z mod 10 = 9) by lia.
      repeat (destruct E as [E|E]); rewrite E; reflexivity.
    + apply IH; lia.
Qed.

Lemma strtoul_nosign base d r : d <> 45%N -> d <> 43%N ->
  strtoul base (d :: r) = (let mag := strtoul_digits base (d :: r) 0 in if 2 ^ 64 <=? mag then 2 ^ 64 - 1 else mag).
Proof.
  intros Hm Hp. unfold strtoul. destruct d as [|p]; [reflexivity|].
  do 6 (try destruct p as [p|p|]); try reflexivity; congruence.
Qed.

Lemma strtoul_p_nat u : in_u64 u -> strtoul 10 (p_nat u) = u.
Proof.
  intros [H0 H1].
  destruct (dec_digits_head (S (Z.to_nat (Z.log2 u))) u [] H0 ltac:(lia)) as [d [r [E Hd]]].
  assert (Hnm : d <> 45%N /\ d <> 43%N).
  { unfold c_isdigit in Hd. apply andb_true_iff in Hd. destruct Hd as [Hd1 Hd2]. apply N.leb_le in Hd1. lia. }
  destruct Hnm as [Hm Hp].
  pose proof (strtoul_digits_p_nat u H0) as Ev.
  unfold p_nat in *. rewrite E in *. rewrite strtoul_nosign by assumption. cbv zeta. rewrite Ev.
  destruct (Z.leb_spec (2 ^ 64) u); lia.
Qed.

Lemma strtoul_p_int z : in_s64 z -> s64 (strtoul 10 (p_int z)) = z.
Proof.
  intros [H0 H1]. unfold p_int. destruct (Z.ltb_spec z 0) as [Hn|Hp].
  - unfold strtoul. rewrite strtoul_digits_p_nat by lia.
    destruct (Z.leb_spec (2 ^ 64) (- z)); [lia|].
    replace (- - z) with z by lia. unfold s64, u64. rewrite swrap_uwrap by lia. apply swrap_id; [lia|].
    unfold in_s. cbn. lia.
  - rewrite strtoul_p_nat by (unfold in_u64; lia). apply swrap_id; [lia|]. unfold in_s. cbn. lia.
Qed.

(* an unsigned immediate is re-read as the INT with the same 64-bit pattern *)
Lemma strtoul_p_nat_bits u : in_u64 u -> u64 (s64 (strtoul 10 (p_nat u))) = u.
Proof.
  intros H. rewrite strtoul_p_nat by assumption. unfold u64, s64. rewrite uwrap_swrap by lia.
  apply uwrap_id. unfold in_u. destruct H. lia.
Qed.

(* ---------------------------------------------------------------- statements collected for Properties_C10 *)

Lemma text_str_roundtrip_lemma s tail : is_bytes s ->
  scan_str (S (length s)) (tl (output_str s) ++ tail) [] = Some (s, tail)
  /\ nul_terminate (nul_terminate s) = nul_terminate s
  /\ (s = [] \/ last s 1%N = 0%N -> nul_terminate s = s).
Proof.
  intros H. split; [now apply scan_output_str|]. split; [apply nul_terminate_idem | apply nul_terminate_fix].
Qed.

Lemma text_int_roundtrip_lemma :
  (forall z, in_s64 z -> s64 (strtoul 10 (p_int z)) = z)
  /\ (forall u, in_u64 u -> strtoul 10 (p_nat u) = u /\ u64 (s64 (strtoul 10 (p_nat u))) = u).
Proof.
  split; [exact strtoul_p_int|]. intros u H. split; [now apply strtoul_p_nat | now apply strtoul_p_nat_bits].
Qed.

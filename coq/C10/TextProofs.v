(* Proofs about the textual MIR codec model (TextOut.v, TextScan.v). *)
From Coq Require Import List ZArith NArith Bool String Lia.
From MirV Require Import Base.W64 Mir.Opcode C11.Tables C11.Ast C11.BinIO C10.TextOut C10.TextScan.
Import ListNotations.
Local Open Scope Z_scope.
Local Notation length := List.length.

From Coq Require Import Extraction ExtrOcamlBasic List NArith.
From MirV Require Import C07.CallTemps.
Extraction Language OCaml.
Extraction "c07ctx.ml" gen chk area_size body_events.

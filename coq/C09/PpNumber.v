(* Property C09, pp-number lexing (round 3, wave 6).
   [scan] transcribes the loop of the T_NUMBER case of get_next_pptoken_1 (c2mir.c): after a character was pushed the next one is read;
   an e/E/p/P followed by + or - takes both, any other digit / letter / _ / . is taken, everything else ends the token.
   [ppnumber] is the grammar of C11 6.4.8 literally (one rule per production, base independent).
   Proved for every input: the token is a pp-number, the input is split without loss, and no longer prefix of the input is a
   pp-number (maximal munch, C11 6.4p4).  The base-aware variant (seeded C09-v2) is refuted on `0xe+X`. *)
From Coq Require Import List Arith Bool Lia.
From MirV Require Import C09.PpExpandFn.
Import ListNotations.

Definition is_cont c := is_digit c || is_alpha c || (c =? 95) || (c =? 46).

Inductive ppnumber : list nat -> Prop :=
| PN_digit : forall d, is_digit d = true -> ppnumber [d]
| PN_dot_digit : forall d, is_digit d = true -> ppnumber [46; d]
| PN_cont : forall s c, ppnumber s -> is_cont c = true -> ppnumber (s ++ [c])       (* digit, identifier-nondigit, . *)
| PN_exp : forall s c sg, ppnumber s -> is_exp c = true -> is_sign sg = true -> ppnumber (s ++ [c; sg]).

(* characters taken after the first one, and what is left *)
Fixpoint scan (s : list nat) : list nat * list nat :=
  match s with
  | [] => ([], [])
  | c :: r =>
      if is_exp c then
        match r with
        | c2 :: r2 => if is_sign c2 then (let (a, b) := scan r2 in (c :: c2 :: a, b)) else (let (a, b) := scan r in (c :: a, b))
        | [] => ([c], [])
        end
      else if is_cont c then (let (a, b) := scan r in (c :: a, b)) else ([], s)
  end.

(* the whole token: a digit, or a . followed by a digit (the `.` case of the lexer enters the same loop) *)
Definition lex_number (s : list nat) : option (list nat * list nat) :=
  match s with
  | d :: r => if is_digit d then (let (a, b) := scan r in Some (d :: a, b))
              else if (d =? 46) then match r with
                                     | d2 :: _ => if is_digit d2 then (let (a, b) := scan r in Some (d :: a, b)) else None
                                     | [] => None
                                     end
              else None
  | [] => None
  end.

Lemma exp_is_cont : forall c, is_exp c = true -> is_cont c = true.
Proof.
  intros c H. unfold is_exp in H. unfold is_cont, is_alpha.
  repeat rewrite orb_true_iff in H. repeat rewrite Nat.eqb_eq in H.
  destruct H as [[[H|H]|H]|H]; subst c; reflexivity.
Qed.

Lemma sign_not_cont : forall c, is_sign c = true -> is_cont c = false /\ is_exp c = false.
Proof.
  intros c H. unfold is_sign in H. rewrite orb_true_iff in H. repeat rewrite Nat.eqb_eq in H.
  destruct H as [H|H]; subst c; split; reflexivity.
Qed.

(* strong induction principle over the length, for the two-step recursion of scan *)
Lemma scan_props : forall n r a b, length r <= n -> scan r = (a, b) ->
  r = a ++ b /\
  (forall p, ppnumber p -> ppnumber (p ++ a)) /\
  (forall c b', b = c :: b' -> is_cont c = false /\ is_exp c = false) /\
  (forall c b', b = c :: b' -> is_sign c = true -> a <> [] -> is_exp (last a 0) = false).
Proof.
  induction n as [|n IH]; intros r a b Hl Hs.
  - destruct r; simpl in Hl; [|lia]. simpl in Hs. inversion Hs; subst. split; [|split; [|split]]; intros; try discriminate; try congruence; try reflexivity.
    rewrite app_nil_r; assumption.
  - destruct r as [|c r].
    + simpl in Hs. inversion Hs; subst. split; [|split; [|split]]; intros; try discriminate; try congruence; try reflexivity. rewrite app_nil_r; assumption.
    + simpl in Hs. simpl in Hl. destruct (is_exp c) eqn:Ec.
      * destruct r as [|c2 r2].
        { inversion Hs; subst. split; [|split; [|split]]; intros; try discriminate; try reflexivity.
          apply PN_cont. assumption. apply exp_is_cont; assumption. }
        destruct (is_sign c2) eqn:Es.
        { destruct (scan r2) as [a2 b2] eqn:E2. inversion Hs; subst. simpl in Hl.
          destruct (IH r2 a2 b (ltac:(lia)) E2) as [H1 [H2 [H3 H4]]]. split; [|split; [|split]].
          - simpl. rewrite H1 at 1. reflexivity.
          - intros p Hp. change (c :: c2 :: a2) with ([c; c2] ++ a2). rewrite app_assoc. apply H2. apply PN_exp; assumption.
          - intros x b' Hb. eapply H3; eassumption.
          - intros x b' Hb Hx _. destruct a2 as [|y a2'].
            + simpl. destruct (sign_not_cont c2 Es) as [_ Hn]. exact Hn.
            + change (last (c :: c2 :: y :: a2') 0) with (last (y :: a2') 0). eapply H4; try eassumption. discriminate. }
        { destruct (scan (c2 :: r2)) as [a2 b2] eqn:E2. inversion Hs; subst.
          destruct (IH (c2 :: r2) a2 b (ltac:(lia)) E2) as [H1 [H2 [H3 H4]]]. split; [|split; [|split]].
          - simpl. rewrite H1 at 1. reflexivity.
          - intros p Hp. change (c :: a2) with ([c] ++ a2). rewrite app_assoc. apply H2. apply PN_cont. assumption. apply exp_is_cont; assumption.
          - intros x b' Hb. eapply H3; eassumption.
          - intros x b' Hb Hx _. destruct a2 as [|y a2'].
            + (* the scan of c2 :: r2 took nothing: it stopped at c2, so x = c2, which is not a sign *)
              simpl in H1. subst b. inversion Hb; subst. congruence.
            + change (last (c :: y :: a2') 0) with (last (y :: a2') 0). eapply H4; try eassumption. discriminate. }
      * destruct (is_cont c) eqn:Ecn.
        { destruct (scan r) as [a2 b2] eqn:E2. inversion Hs; subst.
          destruct (IH r a2 b (ltac:(lia)) E2) as [H1 [H2 [H3 H4]]]. split; [|split; [|split]].
          - simpl. rewrite H1 at 1. reflexivity.
          - intros p Hp. change (c :: a2) with ([c] ++ a2). rewrite app_assoc. apply H2. apply PN_cont; assumption.
          - intros x b' Hb. eapply H3; eassumption.
          - intros x b' Hb Hx _. destruct a2 as [|y a2'].
            + simpl. exact Ec.
            + change (last (c :: y :: a2') 0) with (last (y :: a2') 0). eapply H4; try eassumption. discriminate. }
        { inversion Hs; subst. split; [|split; [|split]]; intros; try congruence; try reflexivity.
          - rewrite app_nil_r; assumption.
          - inversion H; subst. split; assumption. }
Qed.

Lemma digit_not_exp : forall d, is_digit d = true -> is_exp d = false.
Proof.
  intros d H. unfold is_digit in H. rewrite andb_true_iff in H. destruct H as [H1 H2].
  apply Nat.leb_le in H1. apply Nat.leb_le in H2. unfold is_exp.
  repeat rewrite orb_false_iff. repeat split; apply Nat.eqb_neq; lia.
Qed.

Lemma lex_number_splits_lemma : forall s t b, lex_number s = Some (t, b) -> s = t ++ b.
Proof.
  intros s t b H. destruct s as [|d r]; [discriminate|]. simpl in H.
  destruct (is_digit d).
  - destruct (scan r) as [a b2] eqn:E. inversion H; subst. destruct (scan_props _ _ _ _ (le_n _) E) as [H1 _]. simpl. rewrite H1 at 1. reflexivity.
  - destruct (d =? 46); [|discriminate]. destruct r as [|d2 r2]; [discriminate|]. destruct (is_digit d2); [|discriminate].
    destruct (scan (d2 :: r2)) as [a b2] eqn:E. inversion H; subst. destruct (scan_props _ _ _ _ (le_n _) E) as [H1 _]. simpl. rewrite H1 at 1. reflexivity.
Qed.

Lemma lexed_token_is_pp_number_lemma : forall s t b, lex_number s = Some (t, b) -> ppnumber t.
Proof.
  intros s t b H. destruct s as [|d r]; [discriminate|]. simpl in H.
  destruct (is_digit d) eqn:Ed.
  - destruct (scan r) as [a b2] eqn:E. inversion H; subst. destruct (scan_props _ _ _ _ (le_n _) E) as [_ [H2 _]].
    change (d :: a) with ([d] ++ a). apply H2. apply PN_digit; assumption.
  - destruct (d =? 46) eqn:E46; [|discriminate]. apply Nat.eqb_eq in E46. subst d.
    destruct r as [|d2 r2]; [discriminate|]. destruct (is_digit d2) eqn:Ed2; [|discriminate].
    destruct (scan (d2 :: r2)) as [a b2] eqn:E. inversion H; subst.
    (* the digit after the . is taken by the loop (it is a continuation character that is no exponent letter) *)
    simpl in E. rewrite (digit_not_exp _ Ed2) in E. unfold is_cont in E. rewrite Ed2 in E. simpl in E.
    destruct (scan r2) as [a3 b3] eqn:E3. inversion E; subst.
    destruct (scan_props _ _ _ _ (le_n _) E3) as [_ [H2 _]].
    change (46 :: d2 :: a3) with ([46; d2] ++ a3). apply H2. apply PN_dot_digit; assumption.
Qed.

(* maximal munch (C11 6.4p4): the character after the token cannot extend it to a pp-number *)
Lemma maximal_munch_lemma : forall s t c b, lex_number s = Some (t, c :: b) -> ~ ppnumber (t ++ [c]).
Proof.
  intros s t c b H Hp.
  assert (exists d a r, t = d :: a /\ scan r = (a, c :: b) /\ is_exp d = false) as [d [a [r [Ht [Hs Hd]]]]].
  { destruct s as [|d r]; [discriminate|]. simpl in H. destruct (is_digit d) eqn:Ed.
    - destruct (scan r) as [a b2] eqn:E. inversion H; subst. exists d, a, r. repeat split; auto using digit_not_exp.
    - destruct (d =? 46) eqn:E46; [|discriminate]. apply Nat.eqb_eq in E46. subst d.
      destruct r as [|d2 r2]; [discriminate|]. destruct (is_digit d2); [|discriminate].
      destruct (scan (d2 :: r2)) as [a b2] eqn:E. inversion H; subst. exists 46, a, (d2 :: r2). repeat split; auto. }
  destruct (scan_props _ _ _ _ (le_n _) Hs) as [_ [_ [H3 H4]]].
  destruct (H3 c b eq_refl) as [Hc He].
  subst t. remember ((d :: a) ++ [c]) as w eqn:Heq. destruct Hp as [d0 Hd0 | d0 Hd0 | s0 c0 Hs0 Hc0 | s0 c0 sg Hs0 Hc0 Hsg].
  - apply (f_equal (@length nat)) in Heq. rewrite app_length in Heq. simpl in Heq. lia.
  - change [46; d0] with ([46] ++ [d0]) in Heq. apply app_inj_tail in Heq. destruct Heq as [_ Hx]. subst d0.
    unfold is_cont in Hc. rewrite Hd0 in Hc. discriminate.
  - apply app_inj_tail in Heq. destruct Heq as [_ Hx]. subst c0. congruence.
  - change (s0 ++ [c0; sg]) with (s0 ++ [c0] ++ [sg]) in Heq. rewrite app_assoc in Heq. apply app_inj_tail in Heq.
    destruct Heq as [Hx Hy]. subst sg.
    destruct a as [|y a'].
    + destruct s0; simpl in Hx; inversion Hx; subst. congruence. destruct s0; discriminate.
    + assert (last (d :: y :: a') 0 = c0) as Hl by (rewrite <- Hx; apply last_last).
      change (last (d :: y :: a') 0) with (last (y :: a') 0) in Hl.
      assert (is_exp (last (y :: a') 0) = false) by (eapply H4; [reflexivity | assumption | discriminate]).
      congruence.
Qed.

(* the base-aware scanner of seeded C09-v2: after 0x only p/P, otherwise only e/E may be followed by a sign *)
Definition is_exp2 (hex : bool) c := if hex then (c =? 112) || (c =? 80) else (c =? 101) || (c =? 69).
Fixpoint scan2 (hex : bool) (s : list nat) : list nat * list nat :=
  match s with
  | [] => ([], [])
  | c :: r =>
      if is_exp2 hex c then
        match r with
        | c2 :: r2 => if is_sign c2 then (let (a, b) := scan2 hex r2 in (c :: c2 :: a, b)) else (let (a, b) := scan2 hex r in (c :: a, b))
        | [] => ([c], [])
        end
      else if is_cont c then (let (a, b) := scan2 hex r in (c :: a, b)) else ([], s)
  end.
Definition lex_number2 (s : list nat) : option (list nat * list nat) :=
  match s with
  | 48 :: x :: r => if (x =? 120) || (x =? 88) then (let (a, b) := scan2 true r in Some (48 :: x :: a, b))
                    else (let (a, b) := scan2 false (x :: r) in Some (48 :: a, b))
  | d :: r => if is_digit d then (let (a, b) := scan2 false r in Some (d :: a, b)) else None
  | [] => None
  end.

(* `0xe+X`: the base-aware scanner stops after 0xe although 0xe+ (and 0xe+X) is a pp-number *)
Lemma base_aware_scanner_refuted_lemma :
  exists s t c b, lex_number2 s = Some (t, c :: b) /\ ppnumber (t ++ [c]) /\ lex_number s = Some (s, []).
Proof.
  exists [48; 120; 101; 43; 88], [48; 120; 101], 43, [88]. split; [reflexivity|]. split; [|reflexivity].
  change ([48; 120; 101] ++ [43]) with ([48; 120] ++ [101; 43]). apply PN_exp; try reflexivity.
  change [48; 120] with ([48] ++ [120]). apply PN_cont; try reflexivity. apply PN_digit; reflexivity.
Qed.

(* C09: the conditional-directive state machine of c2mir (c2mir.c `process_directive`, cases
   ifdef/ifndef, endif/else, if/elif, define, undef; and the `skip_if_part_p` test of `processing`)
   over an abstract line language, and the meaning of the same text as C11 6.10.1p6 words it,
   over the parsed if-sections.  Definitions only; proofs in PpCondProofs.v.

   C data and their counterparts:  ifs (VARR of struct ifstate) = [ifs] (top first),
   skip_if_part_p = [skip], macro_tab restricted to (name, value) = [env], text lines that reach
   the output = [outp] (reversed). *)
From Coq Require Import List Arith Bool Lia.
Import ListNotations.

(* controlling expressions, abstracted to what the generated conditional structures use; the
   arithmetic of #if is the subject of PpIf/C11If.  CErr is an expression whose evaluation is
   diagnosed (division by zero): it makes "was this condition evaluated" observable. *)
Inductive cond :=
| CConst (b : bool)
| CDefined (n : nat)
| CNot (c : cond)
| CAnd (a b : cond)
| CValEq (n k : nat)            (* identifier == k; an identifier that is not a macro is 0 *)
| CNz (n : nat)                 (* identifier + 0 *)
| CErr.

Inductive line :=
| LIf (c : cond) | LIfdef (n : nat) | LIfndef (n : nat)
| LElif (c : cond) | LElse | LEndif
| LDefine (n v : nat) | LUndef (n : nat)
| LText (k : nat).

Definition env := list (nat * nat).
Fixpoint value (e : env) (n : nat) : option nat :=
  match e with
  | [] => None
  | (k, v) :: r => if k =? n then Some v else value r n
  end.
Definition defined (e : env) (n : nat) : bool := match value e n with Some _ => true | None => false end.
Definition valz (e : env) (n : nat) : nat := match value e n with Some v => v | None => 0 end.
Definition undef (e : env) (n : nat) : env := filter (fun p => negb (fst p =? n)) e.

Fixpoint evalc (e : env) (c : cond) : option bool :=
  match c with
  | CConst b => Some b
  | CDefined n => Some (defined e n)
  | CNot a => match evalc e a with Some b => Some (negb b) | None => None end
  | CAnd a b => match evalc e a with
                | Some true => evalc e b
                | Some false => Some false          (* the right operand is not evaluated *)
                | None => None
                end
  | CValEq n k => Some (valz e n =? k)
  | CNz n => Some (negb (valz e n =? 0))
  | CErr => None
  end.

(* ---------- c2mir ---------- *)
Record ifstate := mkif { skip_p : bool; true_p : bool; else_p : bool }.
Record cstate := mkcs { ifs : list ifstate; skip : bool; cenv : env; outp : list nat }.

Definition top_skip (l : list ifstate) : bool := match l with i :: _ => skip_p i | [] => false end.

(* one line; None = c2mir reports an error (unmatched directive, evaluated division by zero) *)
Definition dstep (s : cstate) (l : line) : option cstate :=
  match l with
  | LIfdef n | LIfndef n =>
      if top_skip (ifs s) then Some (mkcs (mkif true true false :: ifs s) true (cenv s) (outp s))
      else let sk := match l with LIfdef _ => negb (defined (cenv s) n) | _ => defined (cenv s) n end in
           Some (mkcs (mkif sk (negb sk) false :: ifs s) sk (cenv s) (outp s))
  | LEndif =>
      match ifs s with
      | [] => None                                                      (* unmatched #endif *)
      | _ :: r => Some (mkcs r (top_skip r) (cenv s) (outp s))
      end
  | LElse =>
      match ifs s with
      | [] => None
      | i :: r => if else_p i then None                                 (* repeated #else *)
                  else Some (mkcs (mkif (true_p i) true false :: r) (true_p i) (cenv s) (outp s))
      end
  | LIf c =>
      if top_skip (ifs s) then Some (mkcs (mkif true true false :: ifs s) true (cenv s) (outp s))
      else match evalc (cenv s) c with
           | Some b => Some (mkcs (mkif (negb b) b false :: ifs s) (negb b) (cenv s) (outp s))
           | None => None
           end
  | LElif c =>
      match ifs s with
      | [] => None                                                      (* #elif without #if *)
      | i :: r =>
          if else_p i then None
          else if true_p i then Some (mkcs (mkif true (true_p i) (else_p i) :: r) true (cenv s) (outp s))
          else match evalc (cenv s) c with
               | Some b => Some (mkcs (mkif (negb b) b (else_p i) :: r) (negb b) (cenv s) (outp s))
               | None => None
               end
      end
  | LDefine n v => if skip s then Some s
                   else Some (mkcs (ifs s) (skip s) ((n, v) :: undef (cenv s) n) (outp s))
  | LUndef n => if skip s then Some s else Some (mkcs (ifs s) (skip s) (undef (cenv s) n) (outp s))
  | LText k => if skip s then Some s else Some (mkcs (ifs s) (skip s) (cenv s) (k :: outp s))
  end.

Fixpoint drun (s : cstate) (ls : list line) : option cstate :=
  match ls with
  | [] => Some s
  | l :: r => match dstep s l with Some s' => drun s' r | None => None end
  end.

Definition cinit (e : env) : cstate := mkcs [] false e [].

(* the whole file: every #if must be closed ("unfinished #if" otherwise) *)
Definition c2m_cond (e : env) (ls : list line) : option (env * list nat) :=
  match drun (cinit e) ls with
  | Some s => match ifs s with [] => Some (cenv s, rev (outp s)) | _ => None end
  | None => None
  end.

(* ---------- C11 6.10.1 over the parsed structure ---------- *)
Inductive head := HIf (c : cond) | HIfdef (n : nat) | HIfndef (n : nat).

Inductive elem :=
| EText (k : nat)
| EDefine (n v : nat)
| EUndef (n : nat)
| ESec (h : head) (b : elems) (t : tail)            (* if-section *)
with elems := ENil | ECons (e : elem) (r : elems)
with tail :=
| TEnd                                              (* #endif *)
| TElif (c : cond) (b : elems) (t : tail)
| TElse (b : elems).                                (* #else group #endif *)

Definition eval_head (e : env) (h : head) : option bool :=
  match h with
  | HIf c => evalc e c
  | HIfdef n => Some (defined e n)
  | HIfndef n => Some (negb (defined e n))
  end.

(* "Each directive's condition is checked in order.  If it evaluates to false, the group that it
   controls is skipped [...].  Only the first group whose control condition evaluates to true is
   processed.  If none of the conditions evaluates to true, and there is a #else directive, the
   group controlled by the #else is processed; lacking a #else directive, all the groups until
   the #endif are skipped."  Result: macro state and text lines passed on, None = a condition
   that is evaluated has no value. *)
Fixpoint sem_elem (e : env) (x : elem) : option (env * list nat) :=
  match x with
  | EText k => Some (e, [k])
  | EDefine n v => Some ((n, v) :: undef e n, [])
  | EUndef n => Some (undef e n, [])
  | ESec h b t =>
      match eval_head e h with
      | Some true => sem_elems e b
      | Some false => sem_tail e t
      | None => None
      end
  end
with sem_elems (e : env) (xs : elems) : option (env * list nat) :=
  match xs with
  | ENil => Some (e, [])
  | ECons x r => match sem_elem e x with
                 | Some (e1, o1) => match sem_elems e1 r with
                                    | Some (e2, o2) => Some (e2, o1 ++ o2)
                                    | None => None
                                    end
                 | None => None
                 end
  end
with sem_tail (e : env) (t : tail) : option (env * list nat) :=
  match t with
  | TEnd => Some (e, [])
  | TElif c b t' => match evalc e c with
                    | Some true => sem_elems e b
                    | Some false => sem_tail e t'
                    | None => None
                    end
  | TElse b => sem_elems e b
  end.

(* the directive lines of a parsed structure *)
Definition head_line (h : head) : line :=
  match h with HIf c => LIf c | HIfdef n => LIfdef n | HIfndef n => LIfndef n end.

Fixpoint flat_elem (x : elem) : list line :=
  match x with
  | EText k => [LText k]
  | EDefine n v => [LDefine n v]
  | EUndef n => [LUndef n]
  | ESec h b t => head_line h :: flat_elems b ++ flat_tail t
  end
with flat_elems (xs : elems) : list line :=
  match xs with
  | ENil => []
  | ECons x r => flat_elem x ++ flat_elems r
  end
with flat_tail (t : tail) : list line :=
  match t with
  | TEnd => [LEndif]
  | TElif c b t' => LElif c :: flat_elems b ++ flat_tail t'
  | TElse b => LElse :: flat_elems b ++ [LEndif]
  end.

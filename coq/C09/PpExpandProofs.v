(* C09: properties of the expansion-loop model (PpExpand): it terminates on every input for every
   finite table of object-like macros, no macro is entered while it is being expanded, painted
   tokens are never expanded (the output is a fixed point of the expander); and the string codec. *)
From Coq Require Import List Arith Bool Lia.
From MirV Require Import C09.PpExpand.
Import ListNotations.

(* ================= the string codec ================= *)
Lemma strip_stringify s : strip_quotes (stringify s) = stringify_body s.
Proof.
  unfold stringify, strip_quotes. change (dq =? dq) with true. cbv iota.
  rewrite rev_app_distr. simpl rev at 1. cbn [app]. change (dq =? dq) with true. cbv iota. apply rev_involutive.
Qed.

Definition special (c : nat) : bool := (c =? bs) || (c =? dq).

(* no backslash is directly followed by a backslash or a quote *)
Fixpoint no_bs_special (s : list nat) : bool :=
  match s with
  | c :: (c' :: _) as r => negb ((c =? bs) && special c') && no_bs_special r
  | _ => true
  end.

Lemma destringify_body_cons_nonspecial c r :
  match r with c' :: _ => (c =? bs) && special c' = false | [] => True end ->
  destringify_body (c :: r) = c :: destringify_body r.
Proof.
  destruct r as [|c' r']; cbn [destringify_body]; [reflexivity|]. unfold special. intros ->. reflexivity.
Qed.

Lemma stringify_body_head s :
  match stringify_body s with
  | c' :: _ => match s with c :: _ => c' = (if special c then bs else c) | [] => False end
  | [] => s = []
  end.
Proof. destruct s as [|c r]; cbn [stringify_body]; [reflexivity|]. unfold special. destruct ((c =? dq) || (c =? bs)) eqn:E;
  rewrite orb_comm in E; rewrite E; reflexivity. Qed.

Lemma stringify_body_cons c r :
  stringify_body (c :: r) = if special c then bs :: c :: stringify_body r else c :: stringify_body r.
Proof. cbn [stringify_body]. unfold special. rewrite (orb_comm (c =? dq)). reflexivity. Qed.

Lemma destringify_body_escape c' rest : special c' = true ->
  destringify_body (bs :: c' :: rest) = destringify_body (c' :: rest).
Proof. intros S. cbn [destringify_body]. unfold special in S. rewrite S. change (bs =? bs) with true. reflexivity. Qed.

Lemma special_cases c : special c = true -> c = bs \/ c = dq.
Proof. unfold special. intros H. apply orb_true_iff in H as [H|H]; apply Nat.eqb_eq in H; auto. Qed.

Lemma roundtrip_body_partial s : no_bs_special s = true -> destringify_body (stringify_body s) = s.
Proof.
  induction s as [|c r IH]; intros H; [reflexivity|].
  assert (Hr : no_bs_special r = true).
  { destruct r as [|c' r']; [reflexivity|]. cbn [no_bs_special] in H. apply andb_true_iff in H. apply H. }
  specialize (IH Hr). rewrite stringify_body_cons.
  (* in every case the character c itself survives: the character after it in the encoded text is
     special only if c is not a backslash *)
  assert (Keep : destringify_body (c :: stringify_body r) = c :: destringify_body (stringify_body r)).
  { apply destringify_body_cons_nonspecial.
    pose proof (stringify_body_head r) as Hd. destruct (stringify_body r) as [|c' q]; [exact I|].
    destruct r as [|c1 r1]; [contradiction|]. subst c'.
    cbn [no_bs_special] in H. apply andb_true_iff in H as [H _]. apply negb_true_iff in H.
    destruct (c =? bs) eqn:Cb; [|reflexivity]. cbn [andb] in *.
    rewrite H. change (special bs) with true. exact H. }
  destruct (special c) eqn:S.
  - rewrite destringify_body_escape by exact S. rewrite Keep, IH. reflexivity.
  - rewrite Keep, IH. reflexivity.
Qed.

Theorem stringify_destringify_roundtrip_partial s :
  no_bs_special s = true -> destringify (stringify s) = s.
Proof. intros H. unfold destringify. rewrite strip_stringify. apply roundtrip_body_partial, H. Qed.

(* the faithful model refutes the full statement: two backslashes come back as one *)
Theorem stringify_destringify_roundtrip_refuted : exists s, destringify (stringify s) <> s.
Proof. exists [bs; bs]. vm_compute. discriminate. Qed.

(* destringizing as C11 6.10.9 words it inverts stringify on every string *)
Theorem stringify_destringify_c11_roundtrip s : destringify_c11_body (strip_quotes (stringify s)) = s.
Proof.
  rewrite strip_stringify. induction s as [|c r IH]; [reflexivity|]. cbn [stringify_body].
  destruct ((c =? dq) || (c =? bs)) eqn:E.
  - cbn [destringify_c11_body]. change (bs =? bs) with true. cbn [andb]. rewrite orb_comm in E. rewrite E.
    rewrite IH. reflexivity.
  - apply orb_false_iff in E as [E1 E2].
    destruct (stringify_body r) as [|c' q] eqn:Q.
    + cbn [destringify_c11_body]. cbn [destringify_c11_body] in IH. rewrite <- IH. reflexivity.
    + cbn [destringify_c11_body]. rewrite E2. cbn [andb]. cbn [destringify_c11_body] in IH. rewrite IH. reflexivity.
Qed.

(* ================= the expansion loop ================= *)
Section Expand.
Variable d : defs.
Variable N : nat.
Hypothesis bounded : table_bounded d N.

Fixpoint count_eor (l : list item) : nat :=
  match l with [] => 0 | EOR :: r => S (count_eor r) | Tok _ :: r => count_eor r end.

Definition inv (s : state) : Prop :=
  NoDup (calls s) /\ (forall n, In n (calls s) -> n < N) /\ count_eor (stream s) = length (calls s).

Definition pot (s : state) : nat := potential d (N - length (calls s)) (calls s) (stream s).

Lemma nodup_bounded_length (l : list nat) : NoDup l -> (forall n, In n l -> n < N) -> length l <= N.
Proof.
  intros ND B. rewrite <- (seq_length N 0). apply NoDup_incl_length; [exact ND|].
  intros n Hn. apply in_seq. specialize (B n Hn). lia.
Qed.

Lemma count_eor_app a b : count_eor (a ++ b) = count_eor a + count_eor b.
Proof. induction a as [|[t|] a IH]; simpl; auto. Qed.

Lemma count_eor_toks l : count_eor (map Tok l) = 0.
Proof. induction l; simpl; auto. Qed.

Lemma potential_toks k act l r :
  potential d k act (map Tok l ++ r) = list_sum (map (cost d k act) l) + potential d k act r.
Proof. induction l as [|t l IH]; simpl; [reflexivity|]. rewrite IH. lia. Qed.

Lemma existsb_in n l : existsb (Nat.eqb n) l = true <-> In n l.
Proof.
  rewrite existsb_exists. split.
  - intros (x & Hx & E). apply Nat.eqb_eq in E. subst. exact Hx.
  - intros H. exists n. split; [exact H|apply Nat.eqb_refl].
Qed.

Lemma cost_one k act t : (match t with TId n => d n = None \/ In n act | _ => True end) -> cost d k act t = 1.
Proof.
  destruct k; [reflexivity|]. destruct t as [n|n|j]; cbn [cost]; try reflexivity.
  intros [H|H]; [rewrite H; reflexivity|]. destruct (d n); [|reflexivity].
  apply existsb_in in H. rewrite H. reflexivity.
Qed.

Lemma step_decreases s s' : inv s -> step d s = Some s' -> inv s' /\ pot s' < pot s.
Proof.
  intros (ND & B & C) St. unfold step in St. destruct s as [str cl out]. cbn [stream calls output] in *.
  unfold pot, ignored. cbn [stream calls output].
  pose proof (nodup_bounded_length cl ND B) as LenB.
  destruct str as [|[t|] r]; [discriminate| |].
  - (* a token *)
    destruct t as [n|n|j].
    + destruct (d n) as [body|] eqn:Dn.
      * unfold ignored in St. cbn [calls] in St. destruct (existsb (Nat.eqb n) cl) eqn:Ig.
        -- (* painted *)
           injection St as <-. cbn [stream calls output]. split; [repeat split; assumption|].
           cbn [potential]. rewrite cost_one by (right; apply existsb_in, Ig). lia.
        -- (* expansion *)
           injection St as <-. cbn [stream calls output].
           assert (Nin : ~ In n cl) by (intro H; apply existsb_in in H; congruence).
           assert (Hn : n < N) by (apply bounded; congruence).
           assert (ND' : NoDup (n :: cl)) by (constructor; assumption).
           assert (B' : forall m, In m (n :: cl) -> m < N) by (intros m [<-|Hm]; auto).
           pose proof (nodup_bounded_length (n :: cl) ND' B') as Len'. cbn [length] in Len'.
           split.
           ++ repeat split; try assumption. cbn [stream calls]. rewrite count_eor_app, count_eor_toks.
              cbn [count_eor length]. cbn [stream calls count_eor] in C. lia.
           ++ cbn [length]. rewrite potential_toks. cbn [potential tl].
              destruct (N - length cl) as [|k'] eqn:K; [lia|].
              replace (N - S (length cl)) with k' by lia.
              cbn [cost]. rewrite Dn, Ig. lia.
      * injection St as <-. cbn [stream calls output]. split; [repeat split; assumption|].
        cbn [potential]. rewrite cost_one by (left; exact Dn). lia.
    + injection St as <-. cbn [stream calls output]. split; [repeat split; assumption|].
      cbn [potential]. rewrite cost_one by exact I. lia.
    + injection St as <-. cbn [stream calls output]. split; [repeat split; assumption|].
      cbn [potential]. rewrite cost_one by exact I. lia.
  - (* end of replacement *)
    injection St as <-. cbn [stream calls output]. cbn [count_eor] in C.
    destruct cl as [|m cl']; [discriminate|]. cbn [tl length] in *.
    split.
    + repeat split.
      * inversion ND; assumption.
      * intros n Hn. apply B. right. exact Hn.
      * cbn [stream calls]. lia.
    + cbn [potential tl]. replace (S (N - S (length cl'))) with (N - length cl') by (cbn [length] in LenB; lia). lia.
Qed.

Lemma run_enough_fuel fuel s : inv s -> pot s < fuel -> exists out, run d fuel s = Some out.
Proof.
  revert s. induction fuel as [|f IH]; intros s I P; [lia|].
  cbn [run]. destruct (step d s) as [s'|] eqn:St; [|eexists; reflexivity].
  destruct (step_decreases s s' I St) as [I' D]. apply IH; [exact I'|lia].
Qed.

Lemma inv_init input : inv (init input).
Proof. unfold inv, init. cbn [calls stream]. repeat split; [constructor|intros n []|apply count_eor_toks]. Qed.

Theorem expand_terminates_lemma input : exists out, expand d N input = Some out.
Proof.
  unfold expand. apply run_enough_fuel; [apply inv_init|].
  unfold pot, init. cbn [calls stream length]. rewrite Nat.sub_0_r. lia.
Qed.

(* ---- no macro is entered while it is being expanded ---- *)
Inductive reachable : state -> Prop :=
| reach_init input : reachable (init input)
| reach_step s s' : reachable s -> step d s = Some s' -> reachable s'.

Lemma reachable_inv s : reachable s -> inv s.
Proof. induction 1 as [input|s s' R IH St]; [apply inv_init|]. apply (step_decreases s s' IH St). Qed.

Theorem no_recursion_lemma s : reachable s -> NoDup (calls s).
Proof. intros R. apply (reachable_inv s R). Qed.

(* ---- painted tokens are never expanded: the output is a fixed point ---- *)
Definition inert (t : tok) : Prop := match t with TId n => d n = None | _ => True end.

Lemma step_output_inert s s' : Forall inert (output s) -> step d s = Some s' -> Forall inert (output s').
Proof.
  intros F St. unfold step in St. destruct (stream s) as [|[t|] r]; [discriminate| |].
  - destruct t as [n|n|j].
    + destruct (d n) as [body|] eqn:Dn.
      * destruct (ignored s n); injection St as <-; cbn [output]; [constructor; [exact I|exact F]|exact F].
      * injection St as <-. cbn [output]. constructor; [exact Dn|exact F].
    + injection St as <-. cbn [output]. constructor; [exact I|exact F].
    + injection St as <-. cbn [output]. constructor; [exact I|exact F].
  - injection St as <-. exact F.
Qed.

Lemma run_output_inert fuel s out : Forall inert (output s) -> run d fuel s = Some out -> Forall inert out.
Proof.
  revert s. induction fuel as [|f IH]; intros s F R; [discriminate|]. cbn [run] in R.
  destruct (step d s) as [s'|] eqn:St.
  - eapply IH; [eapply step_output_inert; eassumption|exact R].
  - injection R as <-. apply Forall_rev, F.
Qed.

Lemma run_inert_copy l : Forall inert l -> forall fuel cl out0, length l < fuel ->
  run d fuel (mkst (map Tok l) cl out0) = Some (rev out0 ++ l).
Proof.
  induction l as [|t l IH]; intros F fuel cl out0 Hf.
  - destruct fuel; [lia|]. cbn. rewrite app_nil_r. reflexivity.
  - destruct fuel; [cbn in Hf; lia|]. inversion F as [|? ? Ht Fl]; subst.
    cbn [run map]. assert (St : step d (mkst (Tok t :: map Tok l) cl out0) = Some (mkst (map Tok l) cl (t :: out0))).
    { unfold step. cbn [stream calls output]. destruct t as [n|n|j]; [|reflexivity|reflexivity].
      cbn in Ht. rewrite Ht. reflexivity. }
    rewrite St. rewrite IH; [|exact Fl|cbn in Hf; lia]. cbn [rev]. rewrite <- app_assoc. reflexivity.
Qed.

Lemma potential_inert k act l : Forall inert l -> potential d k act (map Tok l) = length l.
Proof.
  induction 1 as [|t l Ht F IH]; [reflexivity|]. cbn [map potential length]. rewrite IH.
  rewrite cost_one; [reflexivity|]. destruct t; try exact I. left. exact Ht.
Qed.

Theorem painted_never_expanded_lemma input out :
  expand d N input = Some out -> Forall inert out /\ expand d N out = Some out.
Proof.
  intros E. assert (F : Forall inert out).
  { unfold expand in E. eapply run_output_inert; [|exact E]. constructor. }
  split; [exact F|]. unfold expand, init. rewrite potential_inert by exact F.
  rewrite run_inert_copy; [reflexivity|exact F|lia].
Qed.

End Expand.

(* non-vacuity: mutual recursion terminates and paints *)
Example expand_example :
  let d := fun n => match n with 0 => Some [TOther 7; TId 1] | 1 => Some [TId 0; TId 1; TId 2] | _ => None end in
  expand d 2 [TId 0; TId 1] = Some [TOther 7; TPainted 0; TPainted 1; TId 2; TOther 7; TPainted 1; TPainted 1; TId 2].
Proof. vm_compute. reflexivity. Qed.

(* C09: model of c2mir's macro expansion loop (c2mir.c `processing`, `pop_macro_call`, the
   T_EOR / ignore_p / T_NO_MACRO_IDENT mechanism) for object-like macros, and of the string codec
   `stringify` / `destringify`.  Definitions only.

   The loop works on a stack of pending tokens.  Expanding macro m pushes its replacement list
   followed by an end-of-replacement marker (T_EOR) in front of the rest of the input, pushes m on
   macro_call_stack and sets m->ignore_p; reading T_EOR pops the stack and clears ignore_p of the
   popped macro; an identifier naming a macro whose ignore_p is set is output with its code changed
   to T_NO_MACRO_IDENT ("painted"): such a token is never looked up again.
   Function-like macros (argument collection, pre-expansion, # and ##) are NOT in this model: they
   are covered by the differential run only. *)
From Coq Require Import List Arith Bool Lia.
Import ListNotations.

(* ---------- tokens ---------- *)
Inductive tok :=
| TId (n : nat)         (* identifier number n (T_ID) *)
| TPainted (n : nat)    (* T_NO_MACRO_IDENT *)
| TOther (k : nat).     (* any other preprocessing token *)

Inductive item := Tok (t : tok) | EOR.

(* macro table: replacement list of an object-like macro, None = not a macro *)
Definition defs := nat -> option (list tok).

Record state := mkst { stream : list item;      (* pending input, top first *)
                       calls : list nat;        (* macro_call_stack, top first; ignore_p = membership *)
                       output : list tok }.     (* tokens already passed to out_token, reversed *)

Definition ignored (s : state) (n : nat) : bool := existsb (Nat.eqb n) (calls s).

(* one iteration of the main loop of `processing`; None = end of input *)
Definition step (d : defs) (s : state) : option state :=
  match stream s with
  | [] => None
  | EOR :: r => Some (mkst r (tl (calls s)) (output s))                       (* pop_macro_call *)
  | Tok (TId n) :: r =>
      match d n with
      | None => Some (mkst r (calls s) (TId n :: output s))                  (* not a macro *)
      | Some body =>
          if ignored s n then Some (mkst r (calls s) (TPainted n :: output s))
          else Some (mkst (map Tok body ++ EOR :: r) (n :: calls s) (output s))
      end
  | Tok t :: r => Some (mkst r (calls s) (t :: output s))
  end.

Fixpoint run (d : defs) (fuel : nat) (s : state) : option (list tok) :=
  match fuel with
  | O => None                                     (* out of fuel: excluded by expand_terminates *)
  | S f => match step d s with
           | None => Some (rev (output s))
           | Some s' => run d f s'
           end
  end.

Definition init (input : list tok) : state := mkst (map Tok input) [] [].

(* ---------- the potential that bounds the number of iterations ---------- *)
(* cost of one token when the macros in [act] are being expanded; k bounds the nesting still possible *)
Fixpoint cost (d : defs) (k : nat) (act : list nat) (t : tok) : nat :=
  match k with
  | O => 1
  | S k' =>
      match t with
      | TId n => match d n with
                 | Some body => if existsb (Nat.eqb n) act then 1
                                else 2 + list_sum (map (cost d k' (n :: act)) body)
                 | None => 1
                 end
      | _ => 1
      end
  end.

Fixpoint potential (d : defs) (k : nat) (act : list nat) (l : list item) : nat :=
  match l with
  | [] => 0
  | EOR :: r => 1 + potential d (S k) (tl act) r
  | Tok t :: r => cost d k act t + potential d k act r
  end.

(* the macro table is finite: all macros are among the first [nmacros] identifiers *)
Definition table_bounded (d : defs) (nmacros : nat) : Prop := forall n, d n <> None -> n < nmacros.

Definition expand (d : defs) (nmacros : nat) (input : list tok) : option (list tok) :=
  run d (S (potential d nmacros [] (map Tok input))) (init input).

(* ---------- stringify / destringify (c2mir.c:1779-1800), characters as numbers ---------- *)
Definition dq : nat := 34.   (* double quote *)
Definition bs : nat := 92.   (* backslash *)

Fixpoint stringify_body (s : list nat) : list nat :=
  match s with
  | [] => []
  | c :: r => if (c =? dq) || (c =? bs) then bs :: c :: stringify_body r else c :: stringify_body r
  end.
Definition stringify (s : list nat) : list nat := dq :: stringify_body s ++ [dq].

(* the loop of destringify over the text between the quotes: a backslash is dropped when the NEXT
   character is a backslash or a quote, and scanning continues WITH that next character *)
Fixpoint destringify_body (s : list nat) : list nat :=
  match s with
  | [] => []
  | c :: r => match r with
              | c' :: _ => if (c =? bs) && ((c' =? bs) || (c' =? dq)) then destringify_body r
                           else c :: destringify_body r
              | [] => [c]
              end
  end.

Definition strip_quotes (s : list nat) : list nat :=
  match s with
  | [] => []
  | c :: r => let body := if c =? dq then r else s in
              match rev body with
              | l :: m => if l =? dq then rev m else body
              | [] => []
              end
  end.
Definition destringify (s : list nat) : list nat := destringify_body (strip_quotes s).

(* what C11 6.10.9 prescribes: backslash-quote becomes a quote, backslash-backslash a backslash
   (the escaped character is consumed) *)
Fixpoint destringify_c11_body (s : list nat) : list nat :=
  match s with
  | [] => []
  | c :: r => match r with
              | c' :: r' => if (c =? bs) && ((c' =? bs) || (c' =? dq)) then c' :: destringify_c11_body r'
                            else c :: destringify_c11_body r
              | [] => [c]
              end
  end.

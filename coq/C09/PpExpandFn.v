(* C09: executable token-list model of c2mir's macro expansion for FUNCTION-LIKE (and object-like)
   macros: c2mir.c `processing` (main loop), `try_param_macro_call`, `find_args`,
   `process_replacement`, `add_token`/`add_tokens`/`add_arg_tokens`, `do_concat`, `token_concat`,
   `token_stringify`, `pop_macro_call`.  Definitions only; proofs are in PpExpandFnProofs.v.

   Data of the C code and their counterparts here
     buffered_tokens ++ rest of the file   inp   (top first)
     output_buffer ++ tokens already sent  out   (reversed; T_BOA markers included)
     macro_call_stack                      calls (top first), one [mcall] per struct macro_call
     macro->ignore_p                       ign   (the set of names whose flag is set)
     newln_p of `processing`               nl
   Tokens are values (spelling + code); the C code shares token objects only between an argument
   and its copies in repl_buffer when the parameter is an operand of ## (see design/C09.md).
   White space is a token (' ' or '\n') exactly as in c2mir.  Directives, predefined macros,
   _Pragma and diagnostics are outside the model: [Bad] is returned where c2mir reports an error
   (or where the text leaves the modelled domain), [Done] at the end of the input. *)
From Coq Require Import String Ascii List Arith Bool Lia.
Import ListNotations.
Local Open Scope nat_scope.

Definition spelling := list nat.                     (* characters of t->repr *)
Definition sp (s : string) : spelling := map nat_of_ascii (list_ascii_of_string s).

Fixpoint speq (a b : spelling) : bool :=
  match a, b with
  | [], [] => true
  | x :: a', y :: b' => (x =? y) && speq a' b'
  | _, _ => false
  end.

Inductive kind := KNum | KPunct | KStr | KChr.        (* T_NUMBER, punctuators, T_STR, T_CH *)

Inductive tok :=
| TIdent (painted : bool) (s : spelling)             (* T_ID (false) / T_NO_MACRO_IDENT (true) *)
| TTok (k : kind) (s : spelling)
| TSp | TNl                                          (* ' ' and '\n' *)
| TRDblNo                                            (* ## in a replacement list (T_RDBLNO) *)
| TPlm                                               (* placemarker (T_PLM) *)
| TBoa | TEoa | TEor.                                (* begin/end of argument, end of replacement *)

Definition is_ws (t : tok) : bool := match t with TSp | TNl => true | _ => false end.
Definition is_punct (c : nat) (t : tok) : bool :=
  match t with TTok KPunct [x] => x =? c | _ => false end.
Definition lparen := 40. Definition rparen := 41. Definition comma := 44. Definition sharp := 35.
Definition dq := 34. Definition sq := 39. Definition bs := 92.

Definition spell (t : tok) : spelling :=
  match t with
  | TIdent _ s => s
  | TTok _ s => s
  | TRDblNo => [sharp; sharp]
  | _ => []
  end.

(* Behaviours of the code before a repair, kept as switches of the model ([fixed] = all off = the code as it is):
   [q_single_eor] before fixes/C09-6.patch: find_args crosses at most one end-of-replacement marker per token read;
   [q_nl_no_arg] before fixes/C09-7.patch: `F(<newline>)` of a macro without parameters is one argument;
   [q_plm_ws] before fixes/C09-8.patch: do_concat deletes the white space next to a placemarker operand,
   token_stringify writes one space per white-space TOKEN and # strips one white-space token at each end. *)
Record quirks := mkq { q_single_eor : bool; q_nl_no_arg : bool; q_plm_ws : bool }.
Definition fixed : quirks := mkq false false false.

(* ---------- macros ---------- *)
(* m_params = None: object-like; Some ps: function-like, the last element is [dots] for `...` *)
Record macro := mkmacro { m_params : option (list spelling); m_body : list tok }.
Definition defs := spelling -> option macro.
Definition dots : spelling := [46; 46; 46].
Definition va_args : spelling := sp "__VA_ARGS__".

Fixpoint index_of (name : spelling) (ps : list spelling) (i : nat) : option nat :=
  match ps with
  | [] => None
  | p :: r => if speq p name then Some i else index_of name r (S i)
  end.

Definition variadic (ps : list spelling) : bool :=
  match rev ps with p :: _ => speq p dots | [] => false end.

(* find_param *)
Definition find_param (ps : list spelling) (name : spelling) : option nat :=
  if speq name va_args && variadic ps then Some (length ps - 1) else index_of name ps 0.

(* ---------- state ---------- *)
Record mcall := mkmc { mc_name : spelling;
                       mc_params : list spelling;
                       mc_prev : list tok;          (* replacement tokens already read, reversed: repl_pos = length *)
                       mc_rest : list tok;          (* replacement tokens still to read *)
                       mc_args : list (list tok);
                       mc_buf : list tok }.         (* repl_buffer *)

Record state := mkst { inp : list tok; out : list tok; calls : list mcall; ign : list spelling; nl : bool }.

Inductive res := Done | Next (s : state) | Bad (why : nat).

Definition ignored (ig : list spelling) (n : spelling) : bool := existsb (speq n) ig.
Definition unignore (n : spelling) (ig : list spelling) : list spelling :=
  filter (fun x => negb (speq n x)) ig.

(* pop_macro_call on (macro_call_stack, ignore flags) *)
Definition pop_call (cs : list mcall) (ig : list spelling) : option (list mcall * list spelling) :=
  match cs with
  | [] => None
  | mc :: r => Some (r, unignore (mc_name mc) ig)
  end.

(* ---------- add_token / add_tokens / add_arg_tokens ---------- *)
Definition last_ws (l : list tok) : bool := match rev l with x :: _ => is_ws x | [] => false end.
Definition add_token (to : list tok) (t : tok) : list tok :=
  if is_ws t && last_ws to then to else to ++ [t].
Definition add_tokens (to from : list tok) : list tok := fold_left add_token from to.

(* output_buffer (reversed) split at the last T_BOA: (tokens after it in order, buffer before it) *)
Fixpoint split_boa (o acc : list tok) : option (list tok * list tok) :=
  match o with
  | [] => None
  | TBoa :: r => Some (acc, r)
  | t :: r => split_boa r (t :: acc)
  end.

(* ---------- token_stringify ---------- *)
Fixpoint escape (s : spelling) : spelling :=
  match s with
  | [] => []
  | c :: r => if (c =? dq) || (c =? bs) then bs :: c :: escape r else c :: escape r
  end.
Definition str_piece (t : tok) : spelling :=
  match t with
  | TTok KStr s | TTok KChr s => escape s
  | _ => spell t
  end.
(* C11 6.10.3.2p2: each run of white space between the tokens is one space ([old]: one space per white-space token) *)
Fixpoint str_body (old prev_ws : bool) (ts : list tok) : spelling :=
  match ts with
  | [] => []
  | t :: r => if is_ws t then (if negb old && prev_ws then [] else [32]) ++ str_body old true r
              else str_piece t ++ str_body old false r
  end.
Definition stringify_toks (old : bool) (ts : list tok) : tok := TTok KStr (dq :: str_body old false ts ++ [dq]).

(* white space before the first and after the last token of a # operand is deleted ([old]: one token at each end) *)
Definition strip_ws1 (l : list tok) : list tok :=
  let l1 := match l with t :: r => if is_ws t then r else l | [] => [] end in
  match rev l1 with t :: r => if is_ws t then rev r else l1 | [] => [] end.
Fixpoint drop_ws (l : list tok) : list tok :=
  match l with t :: r => if is_ws t then drop_ws r else l | [] => [] end.
Definition strip_ws (old : bool) (l : list tok) : list tok :=
  if old then strip_ws1 l else rev (drop_ws (rev (drop_ws l))).

(* ---------- token_concat: re-lexing of the two spellings put together ---------- *)
Definition is_digit c := (48 <=? c) && (c <=? 57).
Definition is_alpha c := ((65 <=? c) && (c <=? 90)) || ((97 <=? c) && (c <=? 122)).
Definition is_idstart c := is_alpha c || (c =? 95).
Definition is_idcont c := is_idstart c || is_digit c.
Definition is_exp c := (c =? 101) || (c =? 69) || (c =? 112) || (c =? 80).
Definition is_sign c := (c =? 43) || (c =? 45).

(* the loop of the T_NUMBER case of get_next_pptoken_1 over the characters after the first *)
Fixpoint ppnum_rest (s : spelling) : bool :=
  match s with
  | [] => true
  | c :: r => if is_exp c then match r with
                               | c2 :: r2 => if is_sign c2 then ppnum_rest r2 else ppnum_rest r
                               | [] => true
                               end
              else if is_digit c || is_alpha c || (c =? 95) || (c =? 46) then ppnum_rest r else false
  end.

Definition puncts : list spelling :=
  map sp ["<<="; ">>="; "..."; "->"; "++"; "--"; "<<"; ">>"; "<="; ">="; "=="; "!="; "&&"; "||"; "*="; "/=";
          "%="; "+="; "-="; "&="; "^="; "|="; "<:"; ":>"; "<%"; "%>"; "%:";
          "["; "]"; "("; ")"; "{"; "}"; "."; "&"; "*"; "+"; "-"; "~"; "!"; "/"; "%"; "<"; ">"; "^"; "|";
          "?"; ":"; ";"; "="; ","; "#"]%string.

(* the single pp-token a spelling lexes to, None when it is not exactly one (supported) token *)
Definition classify (s : spelling) : option tok :=
  match s with
  | [] => None
  | c :: r =>
      if is_idstart c then (if forallb is_idcont r then Some (TIdent false s) else None)
      else if is_digit c then (if ppnum_rest r then Some (TTok KNum s) else None)
      else if (c =? 46) && match r with d :: _ => is_digit d | [] => false end
           then (if ppnum_rest r then Some (TTok KNum s) else None)
      else if existsb (speq s) puncts then Some (TTok KPunct s) else None
  end.

(* token_concat: the first token of the re-lexed text; "wrong result of ##" when more follows *)
Definition token_concat (t1 t2 : tok) : option tok := classify (spell t1 ++ spell t2).

(* ---------- do_concat ---------- *)
(* The C loop walks the buffer from its end; [todo] is the part not visited yet (reversed, so its
   head is the token at index i), [done] the part behind it.  At a T_RDBLNO: j = first token of
   [done] after at most one white space, k = first token of the rest of [todo] after at most one. *)
Definition is_plm (t : tok) : bool := match t with TPlm => true | _ => false end.
(* the list without its first token when that is white space *)
Definition skip1 (l : list tok) : list tok := match l with w :: l' => if is_ws w then l' else l | [] => l end.

Fixpoint dc (old : bool) (todo done : list tok) : option (list tok) :=
  match todo with
  | [] => Some done
  | t :: l =>
      match t with
      | TRDblNo =>
          match skip1 done with
          | [] => None                                    (* assert (j < len) *)
          | tj :: r =>
              match skip1 l with
              | [] => None                                (* assert (k >= 0) *)
              | tk :: l2 =>
                  if is_plm tk then
                    if is_plm tj then dc old (if old then skip1 l2 else l2) (TPlm :: if old then skip1 r else r)
                                                                           (* both empty: a placemarker again *)
                    else dc old (if old then skip1 l2 else l2) (tj :: r)   (* empty ## b = b *)
                  else if is_plm tj then dc old (skip1 l) (if old then skip1 r else r)
                                                                           (* a ## empty = a (a is visited next) *)
                  else match token_concat tk tj with
                       | Some t' => dc old l2 (t' :: r)
                       | None => None                    (* wrong result of ## *)
                       end
              end
          end
      | _ => dc old l (t :: done)
      end
  end.

Definition plm_to_sp (t : tok) : tok := match t with TPlm => TSp | _ => t end.
Definition do_concat (old : bool) (tokens : list tok) : option (list tok) :=
  match dc old (rev tokens) [] with
  | Some l => Some (map plm_to_sp l)
  | None => None
  end.

(* ---------- process_replacement ---------- *)
Inductive pr_result :=
| PrEnd (args : list (list tok)) (buf : list tok)                 (* repl_pos reached the end *)
| PrArg (i : nat) (prev rest : list tok) (args : list (list tok)) (buf : list tok).
                                                      (* argument i has to be macro-expanded first *)

Fixpoint set_nth {A} (i : nat) (x : A) (l : list A) : list A :=
  match l, i with
  | [], _ => []
  | _ :: r, O => x :: r
  | y :: r, S i' => y :: set_nth i' x r
  end.

(* is the parameter just read an operand of ## ?  [prev]: tokens before it (reversed), [rest]: after it *)
Definition paste_operand (prev rest : list tok) : bool :=
  match prev with TRDblNo :: _ => true | TSp :: TRDblNo :: _ => true | _ => false end
  || match rest with TRDblNo :: _ => true | TSp :: TRDblNo :: _ => true | _ => false end.

Definition empty_arg (a : list tok) : bool :=
  match a with [] => true | [t] => is_ws t | _ => false end.

Fixpoint proc_repl (old : bool) (ps : list spelling) (prev rest : list tok) (shp : option nat)
         (args : list (list tok)) (buf : list tok) : pr_result :=
  match rest with
  | [] => PrEnd args buf
  | t :: rest' =>
      match t with
      | TIdent false s =>
          match find_param ps s with
          | Some i =>
              let arg := nth i args [] in
              match shp with
              | Some p =>
                  let arg' := strip_ws old arg in
                  proc_repl old ps (t :: prev) rest' None (set_nth i arg' args)
                            (add_token (firstn p buf) (stringify_toks old arg'))
              | None =>
                  if paste_operand prev rest' then
                    if empty_arg arg then proc_repl old ps (t :: prev) rest' None args (add_token buf TPlm)
                    else proc_repl old ps (t :: prev) rest' None args (add_tokens buf arg)
                  else PrArg i (t :: prev) rest' args buf
              end
          | None => proc_repl old ps (t :: prev) rest' None args (add_token buf t)
          end
      | TSp => proc_repl old ps (t :: prev) rest' shp args (add_token buf t)
      | _ => proc_repl old ps (t :: prev) rest' (if is_punct sharp t then Some (length buf) else None) args
                       (add_token buf t)
      end
  end.

(* ---------- find_args ---------- *)
Inductive fa_result :=
| FaOk (rest : list tok) (cs : list mcall) (ig : list spelling) (args : list (list tok))
| FaBad (why : nat).

Definition no_arg (q : quirks) (a : list tok) : bool :=
  match a with [] => true | [TSp] => true | [TNl] => negb (q_nl_no_arg q) | _ => false end.
Definition fa_finish (q : quirks) (plen : nat) (args : list (list tok)) : option (list (list tok)) :=
  match plen, args with
  | O, [a] => if no_arg q a then Some [] else None       (* otherwise: too many args *)
  | _, _ => if length args =? plen then Some args else None
  end.

Fixpoint find_args (q : quirks) (i : list tok) (cs : list mcall) (ig : list spelling)
         (plen : nat) (var : bool) (level : nat) (va_p : bool)
         (args : list (list tok)) (arg : list tok) (nlp eor_seen : bool) : fa_result :=
  match i with
  | [] => FaBad 10                                   (* T_EOFILE: unfinished call *)
  | TEor :: r =>
      if q_single_eor q && eor_seen then FaBad 11
      else match pop_call cs ig with
           | Some (cs', ig') => find_args q r cs' ig' plen var level va_p args arg nlp true
           | None => FaBad 12
           end
  | TBoa :: _ | TEoa :: _ => FaBad 13                 (* unfinished call *)
  | t :: r =>
      if nlp && is_punct sharp t then FaBad 14
      else if (level =? 0) && is_punct rparen t then
        match fa_finish q plen (rev (rev arg :: args)) with
        | Some a => FaOk r cs ig a
        | None => FaBad 15                           (* too many / not enough arguments *)
        end
      else if (level =? 0) && negb va_p && is_punct comma t then
        find_args q r cs ig plen var level
                  ((length args + 1 =? plen - 1) && var) (rev arg :: args) [] false false
      else
        find_args q r cs ig plen var
                  (if is_punct rparen t then level - 1 else if is_punct lparen t then level + 1 else level)
                  va_p args (t :: arg) (match t with TNl => true | _ => false end) false
  end.

(* try_param_macro_call: white space and T_EOR between the macro name and '(' *)
Fixpoint skip_to_paren (i : list tok) (cs : list mcall) (ig : list spelling) (ws : option tok)
  : option (list tok * list mcall * list spelling * option tok) :=
  match i with
  | TEor :: r => match pop_call cs ig with
                 | Some (cs', ig') => skip_to_paren r cs' ig' ws
                 | None => None
                 end
  | TSp :: r => skip_to_paren r cs ig (Some TSp)
  | TNl :: r => skip_to_paren r cs ig (Some TNl)
  | _ => Some (i, cs, ig, ws)
  end.

(* ---------- the main loop ---------- *)
Definition out_tok (s : state) (r : list tok) (t : tok) (n : bool) : state :=
  mkst r (t :: out s) (calls s) (ign s) n.

(* process_replacement (mc) with mc on top of the stack [cs] *)
Definition run_repl (q : quirks) (r out0 : list tok) (mc : mcall) (cs : list mcall) (ig : list spelling) : res :=
  match proc_repl (q_plm_ws q) (mc_params mc) (mc_prev mc) (mc_rest mc) None (mc_args mc) (mc_buf mc) with
  | PrEnd args buf =>
      match do_concat (q_plm_ws q) buf with
      | Some l => Next (mkst (l ++ TEor :: r) out0
                             (mkmc (mc_name mc) (mc_params mc) [] [] args buf :: cs)
                             (mc_name mc :: ig) false)
      | None => Bad 20                               (* wrong result of ## *)
      end
  | PrArg i prev rest args buf =>
      Next (mkst (TBoa :: nth i args [] ++ TEoa :: r) out0
                 (mkmc (mc_name mc) (mc_params mc) prev rest args buf :: cs) ig false)
  end.

Definition step (q : quirks) (d : defs) (s : state) : res :=
  match inp s with
  | [] => Done
  | t :: r =>
      if nl s && is_punct sharp t then Bad 1         (* a directive: outside this model *)
      else
        match t with
        | TNl => Next (out_tok s r t true)
        | TSp => Next (out_tok s r t (nl s))
        | TEor => match pop_call (calls s) (ign s) with
                  | Some (cs, ig) => Next (mkst r (out s) cs ig false)
                  | None => Bad 2
                  end
        | TEoa => match calls s with
                  | mc :: cs =>
                      match split_boa (out s) [] with
                      | Some (a, out0) =>
                          run_repl q r out0 (mkmc (mc_name mc) (mc_params mc) (mc_prev mc) (mc_rest mc) (mc_args mc)
                                                (add_tokens (mc_buf mc) a)) cs (ign s)
                      | None => Bad 3
                      end
                  | [] => Bad 4
                  end
        | TIdent false name =>
            match d name with
            | None => Next (out_tok s r t false)
            | Some m =>
                if ignored (ign s) name then Next (out_tok s r (TIdent true name) false)
                else
                  match m_params m with
                  | None =>
                      match do_concat (q_plm_ws q) (add_tokens [] (m_body m)) with
                      | Some l => Next (mkst (l ++ TEor :: r) (out s)
                                             (mkmc name [] [] [] [] [] :: calls s) (name :: ign s) false)
                      | None => Bad 21
                      end
                  | Some ps =>
                      match skip_to_paren r (calls s) (ign s) None with
                      | None => Bad 5
                      | Some (i, cs, ig, ws) =>
                          if match i with t1 :: _ => is_punct lparen t1 | [] => false end then
                            match find_args q (tl i) cs ig (length ps) (variadic ps) 0
                                            ((length ps =? 1) && variadic ps) [] [] false false with
                            | FaOk rest cs' ig' args =>
                                run_repl q rest (out s) (mkmc name ps [] (m_body m) args []) cs' ig'
                            | FaBad w => Bad w
                            end
                          else                        (* no '(': not a macro call *)
                            Next (mkst (match ws with Some w => w :: i | None => i end)
                                       (t :: out s) cs ig false)
                      end
                  end
            end
        | _ => Next (out_tok s r t false)
        end
  end.

Inductive outcome := Out (l : list tok) | Err (why : nat) | OutOfFuel.

Fixpoint run (q : quirks) (d : defs) (fuel : nat) (s : state) : outcome :=
  match fuel with
  | O => OutOfFuel
  | S f => match step q d s with
           | Done => Out (rev (out s))
           | Next s' => run q d f s'
           | Bad w => Err w
           end
  end.

Definition init (input : list tok) : state := mkst input [] [] [] true.
Definition expand_fn (q : quirks) (d : defs) (fuel : nat) (input : list tok) : outcome := run q d fuel (init input).

(* table built from a list of definitions, later definitions of a name are ignored (the generated
   sets define each name once) *)
Fixpoint lookup (l : list (spelling * macro)) (n : spelling) : option macro :=
  match l with
  | [] => None
  | (k, m) :: r => if speq k n then Some m else lookup r n
  end.

(* C09: what C11 says the controlling expression of #if / #elif evaluates to.  Written from the
   standard, independently of c2mir:
   - 6.10.1p4: after macro replacement remaining identifiers are replaced by 0; the expression is
     an integer constant expression evaluated by the rules of 6.6, "except that all signed integer
     types and all unsigned integer types act as if they have the same representation as,
     respectively, intmax_t and uintmax_t" (64 bits here; gcc documents the same).
   - 6.4.4.1p5: the type of an integer constant is the first of its list in which the value fits;
     with every signed type = intmax_t and every unsigned type = uintmax_t the lists collapse to:
     u-suffixed: uintmax_t; decimal unsuffixed/l/ll: intmax_t (no type if it does not fit:
     constraint violation); octal/hex: intmax_t if it fits, else uintmax_t.
   - 6.4.4.4p10: a character constant has type int (-> intmax_t); plain char is signed on x86-64.
   - 6.3.1.8 usual arithmetic conversions on * / % + - & ^ | and on the comparison operators and
     on the 2nd/3rd operands of ?: (6.5.15p5); 6.5.7p3 shifts: the type of the result is that of
     the promoted LEFT operand; 6.5.8p6, 6.5.9p3, 6.5.13p3, 6.5.14p3, 6.5.3.3p5: comparison,
     logical and ! results have type int (-> intmax_t), value 0 or 1.
   - 6.5.13p4 / 6.5.14p4 / 6.5.15p4: the unselected operand is not evaluated (6.6p11 fn 118: it
     need not be a valid evaluation, e.g. may divide by zero), but it still contributes its TYPE.
   - undefined / constraint violations (the result is [None]): division or remainder by zero
     (6.5.5p5), signed overflow (6.5p5) incl. INTMAX_MIN / -1 and INTMAX_MIN % -1, shift count
     negative or >= 64, left shift of a negative value or one whose result is not representable
     (6.5.7p3,4), a constant with no type.
   - implementation-defined, fixed as gcc documents it: >> of a negative value is arithmetic.
   The value of a defined expression is a mathematical integer in the range of its type. *)
From Coq Require Import ZArith Bool List.
From MirV Require Import C09.PpIf.   (* only for the syntax: lit, unop, binop, expr *)
Local Open Scope Z_scope.

Definition INTMAX_MAX : Z := 2 ^ 63 - 1.
Definition INTMAX_MIN : Z := - 2 ^ 63.
Definition UINTMAX_MAX : Z := 2 ^ 64 - 1.

(* types: false = intmax_t, true = uintmax_t *)
Definition lit_type (l : lit) : option bool :=
  if l_u l then (if l_val l <=? UINTMAX_MAX then Some true else None)
  else if l_val l <=? INTMAX_MAX then Some false
  else if l_dec l then None
  else if l_val l <=? UINTMAX_MAX then Some true else None.

Fixpoint c11_type (e : expr) : bool :=
  match e with
  | ELit l => match lit_type l with Some t => t | None => false end
  | EChr _ | EId => false
  | EUn ULnot _ => false
  | EUn _ a => c11_type a                                 (* integer promotion is the identity *)
  | EBin (BEq | BNe | BLt | BLe | BGt | BGe) _ _ => false
  | EBin (BShl | BShr) a _ => c11_type a
  | EBin _ a b => c11_type a || c11_type b
  | EAndAnd _ _ | EOrOr _ _ => false
  | ECond _ a b => c11_type a || c11_type b
  end.

Definition fits (t : bool) (z : Z) : bool :=
  if t then (0 <=? z) && (z <=? UINTMAX_MAX) else (INTMAX_MIN <=? z) && (z <=? INTMAX_MAX).

(* conversion of a value to type t: to unsigned is reduction modulo 2^64 (6.3.1.3p2); a conversion to
   intmax_t only ever happens from intmax_t here *)
Definition conv (t : bool) (z : Z) : Z := if t then z mod 2 ^ 64 else z.

(* result of an arithmetic operator computed in type t: unsigned arithmetic is modular (6.2.5p9),
   signed arithmetic must be representable *)
Definition result (t : bool) (z : Z) : option Z :=
  if t then Some (z mod 2 ^ 64) else if fits false z then Some z else None.

Definition bool_val (b : bool) : option Z := Some (if b then 1 else 0).

Fixpoint c11_eval (e : expr) : option Z :=
  match e with
  | ELit l => match lit_type l with Some _ => Some (l_val l) | None => None end
  | EChr c => Some c
  | EId => Some 0
  | EUn o a =>
      match c11_eval a with
      | None => None
      | Some x =>
          match o with
          | UPlus => Some x
          | UNeg => result (c11_type a) (- x)
          | UBnot => if c11_type a then Some (UINTMAX_MAX - x) else Some (- x - 1)
          | ULnot => bool_val (x =? 0)
          end
      end
  | EBin o a b =>
      match c11_eval a, c11_eval b with
      | Some x, Some y =>
          let t := c11_type a || c11_type b in
          let x' := conv t x in let y' := conv t y in
          match o with
          | BAdd => result t (x' + y')
          | BSub => result t (x' - y')
          | BMul => result t (x' * y')
          | BDiv => if y' =? 0 then None else result t (Z.quot x' y')
          | BMod => if y' =? 0 then None
                    else if negb t && (x' =? INTMAX_MIN) && (y' =? -1) then None   (* 6.5.5p6 *)
                    else result t (Z.rem x' y')
          | BAnd => Some (Z.land x' y')
          | BOr => Some (Z.lor x' y')
          | BXor => Some (Z.lxor x' y')
          | BShl => if (y <? 0) || (64 <=? y) then None
                    else if c11_type a then Some ((x * 2 ^ y) mod 2 ^ 64)
                    else if (x <? 0) || (INTMAX_MAX <? x * 2 ^ y) then None else Some (x * 2 ^ y)
          | BShr => if (y <? 0) || (64 <=? y) then None else Some (x / 2 ^ y)
          | BEq => bool_val (x' =? y')
          | BNe => bool_val (negb (x' =? y'))
          | BLt => bool_val (x' <? y')
          | BLe => bool_val (x' <=? y')
          | BGt => bool_val (y' <? x')
          | BGe => bool_val (y' <=? x')
          end
      | _, _ => None
      end
  | EAndAnd a b =>
      match c11_eval a with
      | None => None
      | Some x => if x =? 0 then Some 0
                  else match c11_eval b with None => None | Some y => bool_val (negb (y =? 0)) end
      end
  | EOrOr a b =>
      match c11_eval a with
      | None => None
      | Some x => if negb (x =? 0) then Some 1
                  else match c11_eval b with None => None | Some y => bool_val (negb (y =? 0)) end
      end
  | ECond c a b =>
      match c11_eval c with
      | None => None
      | Some x =>
          match (if x =? 0 then c11_eval b else c11_eval a) with
          | None => None
          | Some r => Some (conv (c11_type a || c11_type b) r)
          end
      end
  end.

(* every constant of the expression, evaluated or not, must have a type *)
Fixpoint lits_ok (e : expr) : bool :=
  match e with
  | ELit l => match lit_type l with Some _ => (0 <=? l_val l) | None => false end
  | EChr c => (-128 <=? c) && (c <=? 127)
  | EId => true
  | EUn _ a => lits_ok a
  | EBin _ a b | EAndAnd a b | EOrOr a b => lits_ok a && lits_ok b
  | ECond c a b => lits_ok c && lits_ok a && lits_ok b
  end.

Definition c11_if (e : expr) : option (bool * Z) :=
  if lits_ok e then match c11_eval e with Some z => Some (c11_type e, z) | None => None end else None.

Definition c11_taken (e : expr) : option bool :=
  match c11_if e with Some (_, z) => Some (negb (z =? 0)) | None => None end.

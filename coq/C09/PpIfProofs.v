(* C09: c2mir's #if evaluator (PpIf.eval fixed) computes what C11 prescribes (C11If.c11_eval) on every
   expression C11 gives a value to; the pre-fix evaluator does not (witnesses). *)
From Coq Require Import ZArith Bool List Lia.
From MirV Require Import Base.W64 C07.Limits C09.PpIf C09.C11If.
Local Open Scope Z_scope.

Lemma some_inj (A : Type) (a b : A) : Some a = Some b -> a = b.
Proof. intros H. congruence. Qed.

Lemma p64 : 2 ^ 64 = 18446744073709551616. Proof. reflexivity. Qed.
Lemma p63 : 2 ^ 63 = 9223372036854775808. Proof. reflexivity. Qed.

Ltac consts := unfold INTMAX_MAX, INTMAX_MIN, UINTMAX_MAX, MIR_INT_MAX, MIR_UINT_MAX, MIR_LONG_MAX,
  MIR_ULONG_MAX, MIR_LLONG_MAX, MIR_ULLONG_MAX, MIR_CHAR_MAX in *; rewrite ?p64, ?p63 in *;
  change (2 ^ 31) with 2147483648 in *; change (2 ^ 32) with 4294967296 in *.

Lemma u64_small z : 0 <= z < 2 ^ 64 -> u64 z = z.
Proof. intros. unfold u64, uwrap. apply Z.mod_small; assumption. Qed.

Lemma s64_small z : - 2 ^ 63 <= z < 2 ^ 63 -> s64 z = z.
Proof. intros. unfold s64. apply swrap_id; [lia|]. unfold in_s. change (64 - 1) with 63. lia. Qed.

Lemma fits_u z : fits true z = true <-> 0 <= z < 2 ^ 64.
Proof. unfold fits. consts. rewrite andb_true_iff, !Z.leb_le. lia. Qed.

Lemma fits_s z : fits false z = true <-> - 2 ^ 63 <= z < 2 ^ 63.
Proof. unfold fits. consts. rewrite andb_true_iff, !Z.leb_le. lia. Qed.

Lemma wrap_fits t z : fits t z = true -> wrap t z = z.
Proof.
  destruct t; unfold wrap; intros H.
  - apply u64_small, fits_u, H.
  - apply s64_small, fits_s, H.
Qed.

Lemma result_wrap t z r : result t z = Some r -> wrap t z = r.
Proof.
  unfold result. destruct t.
  - intros H; inversion H. reflexivity.
  - destruct (fits false z) eqn:F; [|discriminate]. intros H; inversion H; subst. apply wrap_fits, F.
Qed.

Lemma result_fits t z r : result t z = Some r -> fits t r = true.
Proof.
  unfold result. destruct t.
  - intros H; inversion H. apply fits_u. apply Z.mod_pos_bound. reflexivity.
  - destruct (fits false z) eqn:F; [|discriminate]. intros H; inversion H; subst. exact F.
Qed.

Lemma conv_fits t z : fits t z = true -> conv t z = z.
Proof. destruct t; unfold conv; intros H; [|reflexivity]. apply Z.mod_small, fits_u, H. Qed.

Lemma conv_or_fits ta tb z : fits ta z = true -> fits (ta || tb) (conv (ta || tb) z) = true.
Proof.
  intros H. destruct ta.
  - change (true || tb) with true. rewrite conv_fits; assumption.
  - change (false || tb) with tb. destruct tb; [|exact H].
    apply fits_u. unfold conv. apply Z.mod_pos_bound. reflexivity.
Qed.

(* ---- eval_binop_operands implements the usual arithmetic conversions ---- *)
Lemma operands_conv ta tb x y : fits ta x = true -> fits tb y = true ->
  binop_operands (mkval ta x) (mkval tb y) = (ta || tb, conv (ta || tb) x, conv (ta || tb) y).
Proof.
  intros Hx Hy. unfold binop_operands, conv, u64, uwrap. cbn [uns_p bits].
  destruct ta, tb; cbn [andb negb orb];
    try (apply fits_u in Hx); try (apply fits_u in Hy);
    rewrite ?(Z.mod_small x) by assumption; rewrite ?(Z.mod_small y) by assumption; reflexivity.
Qed.

(* ---- ranges of the bitwise operators, by the sign-extension characterisation ---- *)
Lemma s_range_shiftr z : - 2 ^ 63 <= z < 2 ^ 63 <-> (Z.shiftr z 63 = 0 \/ Z.shiftr z 63 = -1).
Proof.
  rewrite Z.shiftr_div_pow2 by lia. rewrite p63.
  pose proof (Z.div_mod z 9223372036854775808 ltac:(lia)).
  pose proof (Z.mod_pos_bound z 9223372036854775808 ltac:(lia)). lia.
Qed.

Lemma u_range_shiftr z : 0 <= z < 2 ^ 64 <-> Z.shiftr z 64 = 0.
Proof.
  rewrite Z.shiftr_div_pow2 by lia. rewrite p64.
  pose proof (Z.div_mod z 18446744073709551616 ltac:(lia)).
  pose proof (Z.mod_pos_bound z 18446744073709551616 ltac:(lia)). lia.
Qed.

Definition bitop (o : binop) : bool := match o with BAnd | BOr | BXor => true | _ => false end.

Lemma bitop_fits o t x y : bitop o = true -> fits t x = true -> fits t y = true -> fits t (arith o x y) = true.
Proof.
  intros Ho Hx Hy. destruct t.
  - apply fits_u in Hx. apply fits_u in Hy. apply fits_u. apply u_range_shiftr in Hx. apply u_range_shiftr in Hy.
    apply u_range_shiftr.
    destruct o; try discriminate; simpl;
      rewrite ?Z.shiftr_land, ?Z.shiftr_lor, ?Z.shiftr_lxor, Hx, Hy; reflexivity.
  - apply fits_s in Hx. apply fits_s in Hy. apply fits_s. apply s_range_shiftr in Hx. apply s_range_shiftr in Hy.
    apply s_range_shiftr.
    destruct o; try discriminate; simpl;
      rewrite ?Z.shiftr_land, ?Z.shiftr_lor, ?Z.shiftr_lxor;
      destruct Hx as [-> | ->], Hy as [-> | ->]; simpl; auto.
Qed.

(* ---- typing of constants ---- *)
Lemma lit_uns_eq_c11 l t : 0 <= l_val l -> lit_type l = Some t -> lit_uns fixed l = t.
Proof.
  intros Hnn. unfold lit_type, lit_uns, int_node. destruct l as [dec u lg v]; simpl in *.
  assert (Hu : forall w, 0 <= w <= UINTMAX_MAX -> u64 w = w).
  { intros w Hw. apply u64_small. consts. lia. }
  destruct u; simpl.
  - destruct (v <=? UINTMAX_MAX) eqn:E; [|discriminate]. intros H; inversion H; subst.
    apply Z.leb_le in E. rewrite (Hu v) by lia.
    destruct (lg =? 2); [reflexivity|]. destruct (lg =? 1).
    + destruct (v <=? MIR_ULONG_MAX); reflexivity.
    + destruct (v <=? MIR_UINT_MAX); [reflexivity|]. destruct (v <=? MIR_ULONG_MAX); reflexivity.
  - destruct (v <=? INTMAX_MAX) eqn:E.
    + intros H; inversion H; subst. apply Z.leb_le in E.
      rewrite (Hu v) by (consts; lia).
      assert (E1 : (v <=? MIR_LLONG_MAX) = true) by (apply Z.leb_le; consts; lia).
      assert (E2 : (v <=? MIR_LONG_MAX) = true) by (apply Z.leb_le; consts; lia).
      rewrite E1, E2, !orb_true_r. simpl.
      destruct (lg =? 2); [reflexivity|]. destruct (lg =? 1); [reflexivity|].
      destruct (v <=? MIR_INT_MAX); [reflexivity|].
      destruct (negb dec && (v <=? MIR_UINT_MAX)); reflexivity.
    + destruct dec; [discriminate|]. destruct (v <=? UINTMAX_MAX) eqn:E'; [|discriminate].
      intros H; inversion H; subst. apply Z.leb_le in E'. apply Z.leb_gt in E.
      rewrite (Hu v) by lia.
      assert (E1 : (v <=? MIR_LLONG_MAX) = false) by (apply Z.leb_gt; consts; lia).
      assert (E2 : (v <=? MIR_LONG_MAX) = false) by (apply Z.leb_gt; consts; lia).
      assert (E3 : (v <=? MIR_ULONG_MAX) = true) by (apply Z.leb_le; consts; lia).
      assert (E4 : (v <=? MIR_INT_MAX) = false) by (apply Z.leb_gt; consts; lia).
      assert (E5 : (v <=? MIR_UINT_MAX) = false) by (apply Z.leb_gt; consts; lia).
      rewrite E1, E2, E3, E4, E5. simpl.
      destruct (lg =? 2); [reflexivity|]. destruct (lg =? 1); reflexivity.
Qed.

Lemma lit_type_fits l t : 0 <= l_val l -> lit_type l = Some t -> fits t (l_val l) = true.
Proof.
  intros Hnn. unfold lit_type. destruct (l_u l).
  - destruct (l_val l <=? UINTMAX_MAX) eqn:E; [|discriminate]. intros H; inversion H.
    apply Z.leb_le in E. apply fits_u. consts. lia.
  - destruct (l_val l <=? INTMAX_MAX) eqn:E.
    + intros H; inversion H. apply Z.leb_le in E. apply fits_s. consts. lia.
    + destruct (l_dec l); [discriminate|]. destruct (l_val l <=? UINTMAX_MAX) eqn:E'; [|discriminate].
      intros H; inversion H. apply Z.leb_le in E'. apply fits_u. consts. lia.
Qed.

(* ---- the static type computed by pre_unsigned_p is the C11 type ---- *)
Lemma type_eq_c11 e : lits_ok e = true -> pre_unsigned_p fixed e = c11_type e.
Proof.
  induction e as [l|c| |o a IH|o a IHa b IHb|a IHa b IHb|a IHa b IHb|c IHc a IHa b IHb]; simpl; intros H;
    try reflexivity.
  - destruct (lit_type l) as [t|] eqn:E; [|discriminate]. apply Z.leb_le in H. apply lit_uns_eq_c11; assumption.
  - destruct o; auto.
  - apply andb_true_iff in H as [Ha Hb]. destruct o; simpl; rewrite ?IHa, ?IHb; auto.
  - apply andb_true_iff in H as [H Hb]. apply andb_true_iff in H as [Hc Ha]. rewrite IHa, IHb; auto.
Qed.

(* ---- values C11 assigns are in the range of the C11 type ---- *)
Lemma bool_val_fits b z : bool_val b = Some z -> fits false z = true.
Proof. unfold bool_val. intros H; inversion H. destruct b; reflexivity. Qed.

Lemma c11_range e : lits_ok e = true -> forall z, c11_eval e = Some z -> fits (c11_type e) z = true.
Proof.
  induction e as [l|c| |o a IH|o a IHa b IHb|a IHa b IHb|a IHa b IHb|c IHc a IHa b IHb]; cbn [c11_eval c11_type lits_ok]; intros H z Hz.
  - destruct (lit_type l) as [t|] eqn:E; [|discriminate]. apply some_inj in Hz; subst z.
    apply Z.leb_le in H. apply lit_type_fits; assumption.
  - apply some_inj in Hz; subst z. apply andb_true_iff in H as [H1 H2]. apply Z.leb_le in H1, H2. apply fits_s. rewrite p63. lia.
  - apply some_inj in Hz; subst z. reflexivity.
  - destruct (c11_eval a) as [x|] eqn:Ea; [|discriminate]. specialize (IH H x eq_refl).
    destruct o; cbn [c11_type].
    + apply some_inj in Hz; subst z. exact IH.
    + eapply result_fits; eassumption.
    + destruct (c11_type a); apply some_inj in Hz; subst z.
      * apply fits_u in IH. apply fits_u. consts. lia.
      * apply fits_s in IH. apply fits_s. lia.
    + eapply bool_val_fits; eassumption.
  - apply andb_true_iff in H as [Ha Hb].
    destruct (c11_eval a) as [x|] eqn:Ea; [|discriminate].
    destruct (c11_eval b) as [y|] eqn:Eb; [|discriminate].
    specialize (IHa Ha x eq_refl). specialize (IHb Hb y eq_refl).
    pose proof (conv_or_fits (c11_type a) (c11_type b) x IHa) as Fx.
    pose proof (conv_or_fits (c11_type b) (c11_type a) y IHb) as Fy. rewrite orb_comm in Fy.
    set (t := c11_type a || c11_type b) in *.
    destruct o; cbn [c11_type]; fold t;
      try (eapply result_fits; eassumption);
      try (eapply bool_val_fits; eassumption).
    + destruct (conv t y =? 0); [discriminate|]. eapply result_fits; eassumption.
    + destruct (conv t y =? 0); [discriminate|].
      destruct (negb t && (conv t x =? INTMAX_MIN) && (conv t y =? -1)); [discriminate|].
      eapply result_fits; eassumption.
    + apply some_inj in Hz; subst z. apply (bitop_fits BAnd); auto.
    + apply some_inj in Hz; subst z. apply (bitop_fits BOr); auto.
    + apply some_inj in Hz; subst z. apply (bitop_fits BXor); auto.
    + destruct ((y <? 0) || (64 <=? y)) eqn:Ey; [discriminate|].
      destruct (c11_type a).
      * apply some_inj in Hz; subst z. apply fits_u. apply Z.mod_pos_bound. reflexivity.
      * destruct ((x <? 0) || (INTMAX_MAX <? x * 2 ^ y)) eqn:Ex; [discriminate|]. apply some_inj in Hz; subst z.
        apply orb_false_iff in Ex as [Ex1 Ex2]. apply Z.ltb_ge in Ex1, Ex2.
        apply fits_s. consts. assert (0 <= 2 ^ y) by (apply Z.pow_nonneg; lia). nia.
    + destruct ((y <? 0) || (64 <=? y)) eqn:Ey; [discriminate|]. apply some_inj in Hz; subst z.
      apply orb_false_iff in Ey as [Ey1 Ey2]. apply Z.ltb_ge in Ey1. apply Z.leb_gt in Ey2.
      assert (P : 0 < 2 ^ y) by (apply Z.pow_pos_nonneg; lia).
      pose proof (Z.div_mod x (2 ^ y) ltac:(lia)) as D. pose proof (Z.mod_pos_bound x (2 ^ y) P) as M.
      destruct (c11_type a).
      * apply fits_u in IHa. apply fits_u. split; [apply Z.div_pos; lia|].
        apply Z.le_lt_trans with x; [|lia]. apply Z.div_le_upper_bound; nia.
      * apply fits_s in IHa. apply fits_s. split.
        -- apply Z.div_le_lower_bound; nia.
        -- apply Z.div_lt_upper_bound; nia.
  - destruct (c11_eval a) as [x|]; [|discriminate]. destruct (x =? 0); [apply some_inj in Hz; subst z; reflexivity|].
    destruct (c11_eval b) as [y|]; [|discriminate]. eapply bool_val_fits; eassumption.
  - destruct (c11_eval a) as [x|]; [|discriminate]. destruct (negb (x =? 0)); [apply some_inj in Hz; subst z; reflexivity|].
    destruct (c11_eval b) as [y|]; [|discriminate]. eapply bool_val_fits; eassumption.
  - apply andb_true_iff in H as [H Hb]. apply andb_true_iff in H as [Hc Ha].
    destruct (c11_eval c) as [x|]; [|discriminate].
    destruct (x =? 0).
    + destruct (c11_eval b) as [r|] eqn:Eb; [|discriminate]. apply some_inj in Hz; subst z.
      rewrite orb_comm. apply conv_or_fits. apply IHb; auto.
    + destruct (c11_eval a) as [r|] eqn:Ea; [|discriminate]. apply some_inj in Hz; subst z.
      apply conv_or_fits. apply IHa; auto.
Qed.

(* ---- the main theorem ---- *)
Ltac Zify.zify_post_hook ::= Z.div_mod_to_equations.

Lemma lnot_u x : 0 <= x < 2 ^ 64 -> u64 (Z.lnot x) = UINTMAX_MAX - x.
Proof.
  intros H. unfold Z.lnot, u64, uwrap, UINTMAX_MAX. rewrite p64 in *.
  replace (Z.pred (- x)) with ((18446744073709551616 - 1 - x) + (-1) * 18446744073709551616) by lia.
  rewrite Z.mod_add by lia. apply Z.mod_small. lia.
Qed.

Lemma count_ok tb y : fits tb y = true -> (y <? 0) || (64 <=? y) = false ->
  to_u (mkval tb y) mod 64 = y.
Proof.
  intros F H. apply orb_false_iff in H as [H1 H2]. apply Z.ltb_ge in H1. apply Z.leb_gt in H2.
  unfold to_u; cbn [uns_p bits]. destruct tb.
  - apply Z.mod_small; lia.
  - rewrite u64_small by (rewrite p64; lia). apply Z.mod_small; lia.
Qed.

Lemma nonzero_mk t x : nonzero (mkval t x) = negb (x =? 0).
Proof. reflexivity. Qed.

Theorem eval_eq_c11 e : lits_ok e = true -> forall z, c11_eval e = Some z ->
  eval fixed e = (mkval (c11_type e) z, false).
Proof.
  induction e as [l|c| |o a IH|o a IHa b IHb|a IHa b IHb|a IHa b IHb|c IHc a IHa b IHb];
    intros H z Hz.
  - cbn [c11_eval c11_type lits_ok eval] in *.
    destruct (lit_type l) as [t|] eqn:E; [|discriminate]. apply some_inj in Hz; subst z.
    apply Z.leb_le in H. unfold lit_val. rewrite (lit_uns_eq_c11 l t H E).
    pose proof (wrap_fits t _ (lit_type_fits l t H E)) as W. unfold wrap in W. rewrite W. reflexivity.
  - cbn [c11_eval c11_type eval] in *. apply some_inj in Hz; subst z. reflexivity.
  - cbn [c11_eval c11_type eval] in *. apply some_inj in Hz; subst z. reflexivity.
  - cbn [c11_eval lits_ok] in *. destruct (c11_eval a) as [x|] eqn:Ea; [|discriminate].
    pose proof (c11_range a H x Ea) as F.
    cbn [eval]. rewrite (IH H x eq_refl). cbn [uns_p bits].
    destruct o; cbn [c11_type].
    + apply some_inj in Hz; subst z. reflexivity.
    + rewrite (result_wrap _ _ _ Hz). reflexivity.
    + destruct (c11_type a); apply some_inj in Hz; subst z; unfold wrap.
      * rewrite lnot_u by (apply fits_u, F). reflexivity.
      * apply fits_s in F. rewrite s64_small by (unfold Z.lnot; lia). unfold Z.lnot. replace (Z.pred (- x)) with (- x - 1) by lia. reflexivity.
    + unfold bool_val in Hz. apply some_inj in Hz; subst z. cbn [q_not_uns fixed]. reflexivity.
  - cbn [c11_eval lits_ok] in *. apply andb_true_iff in H as [Ha Hb].
    destruct (c11_eval a) as [x|] eqn:Ea; [|discriminate].
    destruct (c11_eval b) as [y|] eqn:Eb; [|discriminate].
    pose proof (c11_range a Ha x Ea) as Fa. pose proof (c11_range b Hb y Eb) as Fb.
    cbn [eval]. rewrite (IHa Ha x eq_refl), (IHb Hb y eq_refl). cbn [orb uns_p bits].
    pose proof (conv_or_fits (c11_type a) (c11_type b) x Fa) as Fx.
    pose proof (conv_or_fits (c11_type b) (c11_type a) y Fb) as Fy. rewrite orb_comm in Fy.
    destruct (is_shift o) eqn:Sh.
    + cbn [q_shift_conv fixed negb andb].
      destruct o; try discriminate; cbn [c11_type];
        destruct ((y <? 0) || (64 <=? y)) eqn:Ey; try discriminate;
        unfold shift; rewrite (count_ok _ _ Fb Ey).
      * destruct (c11_type a).
        -- apply some_inj in Hz; subst z. reflexivity.
        -- destruct ((x <? 0) || (INTMAX_MAX <? x * 2 ^ y)) eqn:Ex; [discriminate|].
           apply some_inj in Hz; subst z.
           apply orb_false_iff in Ex as [Ex1 Ex2]. apply Z.ltb_ge in Ex1, Ex2.
           unfold wrap. rewrite s64_small; [reflexivity|].
           unfold INTMAX_MAX in Ex2. rewrite p63 in *.
           apply orb_false_iff in Ey as [Ey1 Ey2]. apply Z.ltb_ge in Ey1.
           assert (0 <= 2 ^ y) by (apply Z.pow_nonneg; lia). nia.
      * apply some_inj in Hz; subst z. reflexivity.
    + cbn [andb]. rewrite (operands_conv _ _ _ _ Fa Fb).
      set (t := c11_type a || c11_type b) in *.
      destruct o; try discriminate; cbn [is_shift is_cmp c11_type q_cmp_uns fixed arith cmp]; fold t;
        try (rewrite (result_wrap _ _ _ Hz); reflexivity);
        try (unfold bool_val in Hz; apply some_inj in Hz; subst z; reflexivity).
      * destruct (conv t y =? 0); [discriminate|]. unfold cdiv. rewrite (result_wrap _ _ _ Hz). reflexivity.
      * destruct (conv t y =? 0); [discriminate|].
        destruct (negb t && (conv t x =? INTMAX_MIN) && (conv t y =? -1)); [discriminate|].
        unfold crem. rewrite (result_wrap _ _ _ Hz). reflexivity.
      * apply some_inj in Hz; subst z. rewrite wrap_fits; [reflexivity|]. apply (bitop_fits BAnd); auto.
      * apply some_inj in Hz; subst z. rewrite wrap_fits; [reflexivity|]. apply (bitop_fits BOr); auto.
      * apply some_inj in Hz; subst z. rewrite wrap_fits; [reflexivity|]. apply (bitop_fits BXor); auto.
  - cbn [c11_eval lits_ok c11_type] in *. apply andb_true_iff in H as [Ha Hb].
    destruct (c11_eval a) as [x|] eqn:Ea; [|discriminate].
    cbn [eval]. rewrite (IHa Ha x eq_refl). rewrite nonzero_mk.
    destruct (x =? 0); cbn [negb].
    + apply some_inj in Hz; subst z. reflexivity.
    + destruct (c11_eval b) as [y|] eqn:Eb; [|discriminate].
      rewrite (IHb Hb y eq_refl). rewrite nonzero_mk.
      unfold bool_val in Hz. apply some_inj in Hz; subst z. reflexivity.
  - cbn [c11_eval lits_ok c11_type] in *. apply andb_true_iff in H as [Ha Hb].
    destruct (c11_eval a) as [x|] eqn:Ea; [|discriminate].
    cbn [eval]. rewrite (IHa Ha x eq_refl). rewrite nonzero_mk.
    destruct (x =? 0); cbn [negb].
    + destruct (c11_eval b) as [y|] eqn:Eb; [|discriminate].
      rewrite (IHb Hb y eq_refl). rewrite nonzero_mk.
      unfold bool_val in Hz. apply some_inj in Hz; subst z. reflexivity.
    + apply some_inj in Hz; subst z. reflexivity.
  - pose proof (type_eq_c11 (ECond c a b) H) as TY.
    cbn [c11_eval lits_ok] in *. apply andb_true_iff in H as [H Hb]. apply andb_true_iff in H as [Hc Ha].
    destruct (c11_eval c) as [x|] eqn:Ec; [|discriminate].
    cbn [eval]. rewrite (IHc Hc x eq_refl). rewrite nonzero_mk. rewrite TY. cbn [c11_type q_cond_noconv fixed negb andb orb].
    destruct (x =? 0); cbn [negb].
    + destruct (c11_eval b) as [r|] eqn:Eb; [|discriminate]. apply some_inj in Hz; subst z.
      rewrite (IHb Hb r eq_refl). cbn [uns_p bits].
      pose proof (c11_range b Hb r Eb) as F.
      destruct (c11_type b); cbn [negb andb].
      * rewrite orb_true_r. rewrite conv_fits by exact F. reflexivity.
      * rewrite orb_false_r. destruct (c11_type a); [reflexivity|]. reflexivity.
    + destruct (c11_eval a) as [r|] eqn:Ea; [|discriminate]. apply some_inj in Hz; subst z.
      rewrite (IHa Ha r eq_refl). cbn [uns_p bits].
      pose proof (c11_range a Ha r Ea) as F.
      destruct (c11_type a); cbn [negb andb orb].
      * rewrite conv_fits by exact F. reflexivity.
      * destruct (c11_type b); reflexivity.
Qed.

(* ---- corollaries at the level the directive observes ---- *)
Theorem if_group_eq_c11 e b : c11_taken e = Some b -> if_taken fixed e = b.
Proof.
  unfold c11_taken, c11_if, if_taken. destruct (lits_ok e) eqn:L; [|discriminate].
  destruct (c11_eval e) as [z|] eqn:E; [|discriminate]. intros H. apply some_inj in H. subst b.
  rewrite (eval_eq_c11 e L z E). reflexivity.
Qed.

Theorem error_only_if_undefined e : lits_ok e = true -> snd (eval fixed e) = true -> c11_eval e = None.
Proof.
  intros L H. destruct (c11_eval e) as [z|] eqn:E; [|reflexivity].
  rewrite (eval_eq_c11 e L z E) in H. discriminate.
Qed.

(* ---- the evaluator as it was before fixes/C09-1.patch: one witness per defect ---- *)
Definition dlit (v : Z) : expr := ELit (mklit true false 0 v).
Definition ulit (v : Z) : expr := ELit (mklit true true 0 v).
Definition xlit (v : Z) : expr := ELit (mklit false false 0 v).

Definition disagrees (q : quirks) (e : expr) : Prop :=
  lits_ok e = true /\ exists b, c11_taken e = Some b /\ if_taken q e <> b.

(* #if (1u == 1u) > -1 *)
Lemma cmp_keeps_unsigned_refuted : disagrees (mkq true false false false false)
  (EBin BGt (EBin BEq (ulit 1) (ulit 1)) (EUn UNeg (dlit 1))).
Proof. split; [reflexivity|]. exists true. split; [reflexivity|]. vm_compute. discriminate. Qed.

(* #if !0u > -1 *)
Lemma not_keeps_unsigned_refuted : disagrees (mkq false true false false false)
  (EBin BGt (EUn ULnot (ulit 0)) (EUn UNeg (dlit 1))).
Proof. split; [reflexivity|]. exists true. split; [reflexivity|]. vm_compute. discriminate. Qed.

(* #if (1 ? -1 : 0u) < 0 *)
Lemma cond_unconverted_refuted : disagrees (mkq false false true false false)
  (EBin BLt (ECond (dlit 1) (EUn UNeg (dlit 1)) (ulit 0)) (dlit 0)).
Proof. split; [reflexivity|]. exists false. split; [reflexivity|]. vm_compute. discriminate. Qed.

(* #if (-1 >> 1u) < 0 *)
Lemma shift_converts_left_refuted : disagrees (mkq false false false true false)
  (EBin BLt (EBin BShr (EUn UNeg (dlit 1)) (ulit 1)) (dlit 0)).
Proof. split; [reflexivity|]. exists true. split; [reflexivity|]. vm_compute. discriminate. Qed.

(* #if -0x80000000 < 0 *)
Lemma hex_uint_constant_refuted : disagrees (mkq false false false false true)
  (EBin BLt (EUn UNeg (xlit 2147483648)) (dlit 0)).
Proof. split; [reflexivity|]. exists true. split; [reflexivity|]. vm_compute. discriminate. Qed.

(* ---- non-vacuity: C11 gives values to interesting expressions, and refuses others ---- *)
Example defined_example :
  c11_if (ECond (EBin BLt (EUn UNeg (dlit 1)) (ulit 0)) (dlit 1)
                (EBin BDiv (dlit 1) (dlit 0))) = None /\
  c11_if (ECond (EBin BLt (EUn UNeg (dlit 1)) (dlit 0)) (EUn UNeg (dlit 7))
                (EBin BDiv (ulit 1) (dlit 0))) = Some (true, 2 ^ 64 - 7) /\
  c11_if (EAndAnd (dlit 0) (EBin BDiv (dlit 1) (dlit 0))) = Some (false, 0) /\
  c11_if (EBin BAdd (dlit 9223372036854775807) (dlit 1)) = None /\
  c11_if (EBin BAdd (ulit 18446744073709551615) (dlit 1)) = Some (true, 0) /\
  c11_if (dlit 9223372036854775808) = None /\
  c11_if (xlit 9223372036854775808) = Some (true, 9223372036854775808).
Proof. repeat split; vm_compute; reflexivity. Qed.

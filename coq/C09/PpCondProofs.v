(* C09: c2mir's conditional-directive machine (PpCond.dstep) selects the groups C11 6.10.1p6
   selects, for every nesting; proofs. *)
From Coq Require Import List Arith Bool Lia.
From MirV Require Import C09.PpCond.
Import ListNotations.

Scheme elem_mind := Induction for elem Sort Prop
  with elems_mind := Induction for elems Sort Prop
  with tail_mind := Induction for tail Sort Prop.
Combined Scheme cond_mutind from elem_mind, elems_mind, tail_mind.

Lemma drun_app : forall a b s,
  drun s (a ++ b) = match drun s a with Some s' => drun s' b | None => None end.
Proof.
  induction a as [|l a IH]; intros b s; cbn [drun app]; [reflexivity|].
  destruct (dstep s l); [apply IH|reflexivity].
Qed.

(* skip_if_part_p always repeats the skip_p of the innermost open #if: the invariant the code relies on *)
Definition consistent (s : cstate) : Prop := skip s = top_skip (ifs s).

Lemma dstep_consistent : forall s l s', consistent s -> dstep s l = Some s' -> consistent s'.
Proof.
  unfold consistent; intros [fs sk e o] l s' H; cbn in H; subst sk.
  destruct l; cbn; intros E;
    repeat match type of E with
           | context [if ?b then _ else _] => destruct b eqn:?
           | context [match ?x with _ => _ end] => destruct x eqn:?
           end; try discriminate; inversion E; subst; cbn; auto.
Qed.

(* what the lines of a structure do to a state:
   - while skipping: nothing at all (conditions are not evaluated, nested sections are ignored);
   - otherwise: exactly what C11 says, the conditional stack is as before;
   - the rest of an if-section after one of its groups was taken: only the #endif has an effect;
   - the rest of an if-section none of whose groups was taken so far: as C11 says. *)
Definition P_elem (x : elem) : Prop := forall s, consistent s ->
  (skip s = true -> drun s (flat_elem x) = Some s) /\
  (skip s = false ->
   drun s (flat_elem x) = match sem_elem (cenv s) x with
                          | Some (e', o) => Some (mkcs (ifs s) false e' (rev o ++ outp s))
                          | None => None
                          end).
Definition P_elems (xs : elems) : Prop := forall s, consistent s ->
  (skip s = true -> drun s (flat_elems xs) = Some s) /\
  (skip s = false ->
   drun s (flat_elems xs) = match sem_elems (cenv s) xs with
                            | Some (e', o) => Some (mkcs (ifs s) false e' (rev o ++ outp s))
                            | None => None
                            end).
Definition P_tail (t : tail) : Prop := forall i r sk e o, else_p i = false ->
  (true_p i = true -> sk = skip_p i ->
   drun (mkcs (i :: r) sk e o) (flat_tail t) = Some (mkcs r (top_skip r) e o)) /\
  (true_p i = false -> skip_p i = true -> sk = true -> top_skip r = false ->
   drun (mkcs (i :: r) sk e o) (flat_tail t) = match sem_tail e t with
                                               | Some (e', o') => Some (mkcs r false e' (rev o' ++ o))
                                               | None => None
                                               end).

Lemma cond_all : (forall x, P_elem x) /\ (forall xs, P_elems xs) /\ (forall t, P_tail t).
Proof.
  apply cond_mutind.
  - (* EText *) intros k [fs sk e o] Hc; cbn in *; split; intros ->; reflexivity.
  - intros n v [fs sk e o] Hc; cbn in *; split; intros ->; reflexivity.
  - intros n [fs sk e o] Hc; cbn in *; split; intros ->; reflexivity.
  - (* ESec *)
    intros h b IHb t IHt [fs sk e o] Hc. unfold consistent in Hc; cbn in Hc. split; cbn [skip]; intros Hs; rewrite Hs in Hc |- *; clear Hs sk.
    + (* skipping: the whole section is ignored *)
      cbn [flat_elem]. change (head_line h :: flat_elems b ++ flat_tail t) with ([head_line h] ++ flat_elems b ++ flat_tail t).
      rewrite drun_app.
      assert (E : drun (mkcs fs true e o) [head_line h] = Some (mkcs (mkif true true false :: fs) true e o)).
      { destruct h; cbn; rewrite <- Hc; reflexivity. }
      rewrite E, drun_app.
      destruct (IHb (mkcs (mkif true true false :: fs) true e o)) as [Hb _]; [reflexivity|].
      rewrite (Hb eq_refl).
      destruct (IHt (mkif true true false) fs true e o eq_refl) as [Ht _].
      rewrite (Ht eq_refl eq_refl). rewrite <- Hc. reflexivity.
    + cbn [flat_elem cenv sem_elem]. change (head_line h :: flat_elems b ++ flat_tail t) with ([head_line h] ++ flat_elems b ++ flat_tail t).
      rewrite drun_app.
      assert (E : drun (mkcs fs false e o) [head_line h] =
                  match eval_head e h with
                  | Some v => Some (mkcs (mkif (negb v) v false :: fs) (negb v) e o)
                  | None => None
                  end).
      { destruct h; cbn; rewrite <- Hc; cbn.
        - destruct (evalc e c); reflexivity.
        - destruct (defined e n); reflexivity.
        - destruct (defined e n); reflexivity. }
      rewrite E. destruct (eval_head e h) as [[|]|]; [| |reflexivity]; cbn [negb]; rewrite drun_app.
      * (* the first group is taken *)
        destruct (IHb (mkcs (mkif false true false :: fs) false e o)) as [_ Hb]; [reflexivity|].
        rewrite (Hb eq_refl); cbn [cenv ifs outp].
        destruct (sem_elems e b) as [[e' o']|]; [|reflexivity].
        destruct (IHt (mkif false true false) fs false e' (rev o' ++ o) eq_refl) as [Ht _].
        rewrite (Ht eq_refl eq_refl). rewrite <- Hc. reflexivity.
      * (* the first group is skipped *)
        destruct (IHb (mkcs (mkif true false false :: fs) true e o)) as [Hb _]; [reflexivity|].
        rewrite (Hb eq_refl).
        destruct (IHt (mkif true false false) fs true e o eq_refl) as [_ Ht].
        rewrite (Ht eq_refl eq_refl eq_refl (eq_sym Hc)). reflexivity.
  - (* ENil *) intros s Hc; split; intros Hs; cbn; [reflexivity|]. destruct s; cbn in *; subst; reflexivity.
  - (* ECons *)
    intros x IHx r IHr s Hc. split; intros Hs; cbn [flat_elems sem_elems]; rewrite drun_app.
    + destruct (IHx s Hc) as [H1 _]. rewrite (H1 Hs). destruct (IHr s Hc) as [H2 _]. exact (H2 Hs).
    + destruct (IHx s Hc) as [_ H1]. rewrite (H1 Hs).
      destruct (sem_elem (cenv s) x) as [[e1 o1]|]; [|reflexivity].
      destruct (IHr (mkcs (ifs s) false e1 (rev o1 ++ outp s))) as [_ H2].
      { unfold consistent in *; cbn. rewrite <- Hc. exact (eq_sym Hs). }
      rewrite (H2 eq_refl); cbn [cenv ifs outp].
      destruct (sem_elems e1 r) as [[e2 o2]|]; [|reflexivity].
      rewrite rev_app_distr, app_assoc. reflexivity.
  - (* TEnd *)
    intros i r sk e o He; split.
    + intros Ht ->. reflexivity.
    + intros Ht Hs -> Hr. cbn. rewrite Hr. reflexivity.
  - (* TElif *)
    intros c b IHb t IHt i r sk e o He; split.
    + intros Ht ->. cbn [flat_tail]. change (LElif c :: flat_elems b ++ flat_tail t) with ([LElif c] ++ flat_elems b ++ flat_tail t).
      rewrite drun_app. cbn [drun dstep ifs]. rewrite He, Ht. cbn [cenv outp]. rewrite drun_app.
      destruct (IHb (mkcs (mkif true true false :: r) true e o)) as [Hb _]; [reflexivity|].
      rewrite (Hb eq_refl).
      destruct (IHt (mkif true true false) r true e o eq_refl) as [H1 _]. exact (H1 eq_refl eq_refl).
    + intros Ht Hs -> Hr. cbn [flat_tail sem_tail]. change (LElif c :: flat_elems b ++ flat_tail t) with ([LElif c] ++ flat_elems b ++ flat_tail t).
      rewrite drun_app. cbn [drun dstep ifs]. rewrite He, Ht. cbn [cenv outp].
      destruct (evalc e c) as [[|]|]; [| |reflexivity]; cbn [negb]; rewrite drun_app.
      * destruct (IHb (mkcs (mkif false true false :: r) false e o)) as [_ Hb]; [reflexivity|].
        rewrite (Hb eq_refl); cbn [cenv ifs outp].
        destruct (sem_elems e b) as [[e' o']|]; [|reflexivity].
        destruct (IHt (mkif false true false) r false e' (rev o' ++ o) eq_refl) as [H1 _].
        rewrite (H1 eq_refl eq_refl), Hr. reflexivity.
      * destruct (IHb (mkcs (mkif true false false :: r) true e o)) as [Hb _]; [reflexivity|].
        rewrite (Hb eq_refl).
        destruct (IHt (mkif true false false) r true e o eq_refl) as [_ H1].
        exact (H1 eq_refl eq_refl eq_refl Hr).
  - (* TElse *)
    intros b IHb i r sk e o He; split.
    + intros Ht ->. cbn [flat_tail]. change (LElse :: flat_elems b ++ [LEndif]) with ([LElse] ++ flat_elems b ++ [LEndif]).
      rewrite drun_app. cbn [drun dstep ifs]. rewrite He, Ht. cbn [cenv outp]. rewrite drun_app.
      destruct (IHb (mkcs (mkif true true false :: r) true e o)) as [Hb _]; [reflexivity|].
      rewrite (Hb eq_refl). reflexivity.
    + intros Ht Hs -> Hr. cbn [flat_tail sem_tail]. change (LElse :: flat_elems b ++ [LEndif]) with ([LElse] ++ flat_elems b ++ [LEndif]).
      rewrite drun_app. cbn [drun dstep ifs]. rewrite He, Ht. cbn [cenv outp]. rewrite drun_app.
      destruct (IHb (mkcs (mkif false true false :: r) false e o)) as [_ Hb]; [reflexivity|].
      rewrite (Hb eq_refl); cbn [cenv ifs outp].
      destruct (sem_elems e b) as [[e' o']|]; [|reflexivity].
      cbn. rewrite Hr. reflexivity.
Qed.

(* every well-nested conditional text: c2mir passes on exactly the lines, and ends with exactly the
   macro state, that C11 6.10.1p6 prescribes; an error is reported exactly when a condition that C11
   evaluates has no value *)
Lemma cond_groups_eq_c11_lemma : forall xs e, c2m_cond e (flat_elems xs) = sem_elems e xs.
Proof.
  intros xs e. unfold c2m_cond.
  destruct cond_all as [_ [H _]]. destruct (H xs (cinit e)) as [_ H1]; [reflexivity|].
  rewrite (H1 eq_refl). cbn [cinit cenv ifs outp].
  destruct (sem_elems e xs) as [[e' o]|]; [|reflexivity].
  cbn. rewrite app_nil_r, rev_involutive. reflexivity.
Qed.

(* inside a skipped group nothing happens, whatever is nested there: no line is passed on, no
   #define/#undef is executed, no condition is evaluated (no error can arise), and the conditional
   stack is restored *)
Lemma skipped_group_ignored_lemma : forall xs s, consistent s -> skip s = true -> drun s (flat_elems xs) = Some s.
Proof. intros xs s Hc Hs. destruct cond_all as [_ [H _]]. exact (proj1 (H xs s Hc) Hs). Qed.

(* once a group of an if-section was taken, the remaining #elif/#else groups of that section are
   skipped and the section ends in the state before it *)
Lemma later_groups_skipped_lemma : forall t i r e o, else_p i = false -> true_p i = true ->
  drun (mkcs (i :: r) (skip_p i) e o) (flat_tail t) = Some (mkcs r (top_skip r) e o).
Proof. intros t i r e o He Ht. destruct cond_all as [_ [_ H]]. exact (proj1 (H t i r (skip_p i) e o He) Ht eq_refl). Qed.

(* exactly one group: the meaning of a section is the meaning of one of its groups (the first whose
   condition holds, else the #else group), or nothing when no condition holds and there is no #else *)
Fixpoint tail_choice (e : env) (t : tail) : option (option elems) :=
  match t with
  | TEnd => Some None
  | TElif c b t' => match evalc e c with Some true => Some (Some b) | Some false => tail_choice e t' | None => None end
  | TElse b => Some (Some b)
  end.
Definition sec_choice (e : env) (h : head) (b : elems) (t : tail) : option (option elems) :=
  match eval_head e h with Some true => Some (Some b) | Some false => tail_choice e t | None => None end.

Lemma sem_tail_choice : forall e t, sem_tail e t = match tail_choice e t with
                                                  | Some (Some g) => sem_elems e g
                                                  | Some None => Some (e, [])
                                                  | None => None
                                                  end.
Proof. induction t as [|c b t IH|b]; cbn; [reflexivity| |reflexivity]. destruct (evalc e c) as [[|]|]; auto. Qed.

Lemma exactly_one_group_lemma : forall e h b t,
  c2m_cond e (flat_elem (ESec h b t)) =
  match sec_choice e h b t with
  | Some (Some g) => c2m_cond e (flat_elems g)
  | Some None => Some (e, [])
  | None => None
  end.
Proof.
  intros e h b t.
  replace (flat_elem (ESec h b t)) with (flat_elems (ECons (ESec h b t) ENil)) by (cbn [flat_elems]; apply app_nil_r).
  rewrite cond_groups_eq_c11_lemma. unfold sec_choice. cbn [sem_elems sem_elem].
  destruct (eval_head e h) as [[|]|]; [| |reflexivity].
  - rewrite cond_groups_eq_c11_lemma. destruct (sem_elems e b) as [[e1 o1]|]; [|reflexivity].
    cbn. rewrite app_nil_r. reflexivity.
  - rewrite sem_tail_choice. destruct (tail_choice e t) as [[g|]|]; [| |reflexivity].
    + rewrite cond_groups_eq_c11_lemma. destruct (sem_elems e g) as [[e1 o1]|]; [|reflexivity].
      cbn. rewrite app_nil_r. reflexivity.
    + reflexivity.
Qed.

(* the behaviour seeded mutation C09-m2 introduces (an #elif after a taken group sets only the
   global flag) breaks [consistent]: witness that the invariant is not vacuous and is needed *)
Example consistent_needed :
  let s := mkcs [mkif false true false] true [] [] in   (* skip flag set, stack entry says "not skipping" *)
  ~ consistent s /\ drun s (flat_elem (ESec (HIf (CConst true)) (ECons (EText 7) ENil) TEnd)) <> Some s.
Proof. cbn. split; [discriminate|]. intros H; inversion H. Qed.

(* non-vacuity: a three-level nesting with #elif after a taken group and an erroneous condition in a skipped group *)
Example cond_example :
  c2m_cond [] (flat_elems
    (ECons (ESec (HIf (CConst true))
                 (ECons (EText 1) (ECons (EDefine 5 2) ENil))
                 (TElif CErr (ECons (ESec (HIf CErr) (ECons (EText 2) ENil) (TElse (ECons (EText 3) ENil))) ENil)
                        (TElse (ECons (EText 4) ENil))))
     (ECons (ESec (HIfdef 5) (ECons (EText 6) ENil) TEnd) ENil)))
  = Some ([(5, 2)], [1; 6]).
Proof. reflexivity. Qed.

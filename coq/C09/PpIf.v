(* C09: c2mir's #if evaluator.  Transcription of c2mir/c2mir.c:
     get_int_node_from_repr (typing of an integer pp-number),
     the token loop of eval_expr (identifiers -> 0, unsuffixed N_U constants -> signed),
     eval_binop_operands, pre_unsigned_p and eval (struct val = {uns_p; i_val/u_val}).
   Definitions only.  A [quirks] record switches on the behaviours the evaluator had before
   fixes/C09-1.patch (each one refuted against C11 in PpIfProofs.v); [fixed] = all off = the code
   as it is after the fix, and this is what the correspondence run ties to `c2m -E`. *)
From Coq Require Import ZArith Bool List.
From MirV Require Import Base.W64 C07.Limits.
Local Open Scope Z_scope.

(* ---------- syntax shared by the implementation model and the C11 specification ---------- *)

(* an integer constant as the lexer sees it: radix class, suffix, value of the digit string *)
Record lit := mklit { l_dec : bool;   (* decimal (true) or octal/hex/binary (false) *)
                      l_u : bool;     (* has a u/U suffix *)
                      l_long : Z;     (* 0: none, 1: l/L, 2: ll/LL *)
                      l_val : Z }.    (* mathematical value of the digits, >= 0 *)

Inductive unop := UPlus | UNeg | UBnot | ULnot.
Inductive binop := BAdd | BSub | BMul | BDiv | BMod | BAnd | BOr | BXor | BShl | BShr
                 | BEq | BNe | BLt | BLe | BGt | BGe.

Inductive expr :=
| ELit (l : lit)
| EChr (c : Z)                 (* plain character constant, value already reduced to char *)
| EId                          (* identifier left after macro expansion: replaced by 0 *)
| EUn (o : unop) (a : expr)
| EBin (o : binop) (a b : expr)
| EAndAnd (a b : expr)
| EOrOr (a b : expr)
| ECond (c a b : expr).

(* ---------- struct val ---------- *)
Record val := mkval { uns_p : bool; bits : Z }.   (* bits: canonical s64 or u64 representative *)

Record quirks := mkq { q_cmp_uns : bool;      (* comparison result keeps operands' unsignedness *)
                       q_not_uns : bool;      (* !e keeps the operand's unsignedness *)
                       q_cond_noconv : bool;  (* ?: returns the selected arm unconverted *)
                       q_shift_conv : bool;   (* shifts apply the usual arithmetic conversions *)
                       q_lit_u : bool }.      (* unsuffixed constant in (INT_MAX, UINT_MAX] is unsigned *)
Definition fixed : quirks := mkq false false false false false.
Definition prefix : quirks := mkq true true true true true.

(* ---------- get_int_node_from_repr: which node code a constant gets ---------- *)
Inductive ncode := N_I | N_L | N_LL | N_U | N_UL | N_ULL.

Definition int_node (l : lit) : ncode :=
  let ull := u64 (l_val l) in   (* strtoull result; values above ULLONG_MAX saturate + errno: excluded by guards *)
  let uns := l_u l in let dec := l_dec l in
  if l_long l =? 2 then
    if negb uns && (dec || (ull <=? MIR_LLONG_MAX)) then N_LL else N_ULL
  else if l_long l =? 1 then
    if negb uns && (ull <=? MIR_LONG_MAX) then N_L
    else if ull <=? MIR_ULONG_MAX then N_UL
    else if negb uns && (dec || (ull <=? MIR_LLONG_MAX)) then N_LL else N_ULL
  else if uns then
    if ull <=? MIR_UINT_MAX then N_U else if ull <=? MIR_ULONG_MAX then N_UL else N_ULL
  else if ull <=? MIR_INT_MAX then N_I
  else if negb dec && (ull <=? MIR_UINT_MAX) then N_U
  else if ull <=? MIR_LONG_MAX then N_L
  else if ull <=? MIR_ULONG_MAX then N_UL
  else if dec || (ull <=? MIR_LLONG_MAX) then N_LL else N_ULL.

Definition ncode_uns (c : ncode) : bool :=
  match c with N_I | N_L | N_LL => false | N_U | N_UL | N_ULL => true end.

(* eval_expr token loop + eval's constant cases: unsignedness and value of a constant *)
Definition lit_uns (q : quirks) (l : lit) : bool :=
  match int_node l with
  | N_U => if l_u l then true else q_lit_u q
  | c => ncode_uns c
  end.

Definition lit_val (q : quirks) (l : lit) : val :=
  let u := lit_uns q l in
  mkval u (if u then u64 (l_val l) else s64 (l_val l)).

(* ---------- eval_binop_operands ---------- *)
Definition to_u (v : val) : Z := if uns_p v then bits v else u64 (bits v).

Definition binop_operands (v1 v2 : val) : bool * Z * Z :=
  if uns_p v1 && negb (uns_p v2) then (true, bits v1, u64 (bits v2))
  else if negb (uns_p v1) && uns_p v2 then (true, u64 (bits v1), bits v2)
  else (uns_p v1, bits v1, bits v2).

Definition wrap (u : bool) (z : Z) : Z := if u then u64 z else s64 z.
Definition b2z (b : bool) : Z := if b then 1 else 0.
Definition nonzero (v : val) : bool := negb (bits v =? 0).

(* the machine operation of BINOP(op) on already converted operands; the compiled C wraps *)
Definition arith (o : binop) (x y : Z) : Z :=
  match o with
  | BAdd => x + y | BSub => x - y | BMul => x * y
  | BAnd => Z.land x y | BOr => Z.lor x y | BXor => Z.lxor x y
  | BDiv => cdiv x y | BMod => crem x y
  | _ => 0
  end.

Definition cmp (o : binop) (x y : Z) : bool :=
  match o with
  | BEq => x =? y | BNe => negb (x =? y) | BLt => x <? y | BLe => x <=? y
  | BGt => y <? x | BGe => y <=? x | _ => false
  end.

Definition is_cmp (o : binop) : bool :=
  match o with BEq | BNe | BLt | BLe | BGt | BGe => true | _ => false end.
Definition is_shift (o : binop) : bool := match o with BShl | BShr => true | _ => false end.

(* x86-64 shift of a 64-bit register: count taken modulo 64 (only relevant outside C11's domain) *)
Definition shift (o : binop) (u : bool) (x cnt : Z) : Z :=
  let c := cnt mod 64 in
  match o with
  | BShl => wrap u (x * 2 ^ c)
  | _ => x / 2 ^ c            (* logical on the unsigned representative, arithmetic on the signed one *)
  end.

(* pre_unsigned_p: static type of a preprocessor expression *)
Fixpoint pre_unsigned_p (q : quirks) (e : expr) : bool :=
  match e with
  | ELit l => lit_uns q l
  | EChr _ => negb char_signed || (MIR_INT_MAX <? MIR_CHAR_MAX)
  | EId => false
  | EUn ULnot _ => false
  | EUn _ a => pre_unsigned_p q a
  | EBin o a b =>
      if is_cmp o then false
      else if is_shift o then pre_unsigned_p q a
      else pre_unsigned_p q a || pre_unsigned_p q b
  | EAndAnd _ _ | EOrOr _ _ => false
  | ECond _ a b => pre_unsigned_p q a || pre_unsigned_p q b
  end.

(* eval: result and "an error was reported" (division by zero in an evaluated operand) *)
Fixpoint eval (q : quirks) (e : expr) : val * bool :=
  match e with
  | ELit l => (lit_val q l, false)
  | EChr c => (mkval (negb char_signed || (MIR_INT_MAX <? MIR_CHAR_MAX)) c, false)
  | EId => (mkval false 0, false)
  | EUn o a =>
      let '(v, er) := eval q a in
      match o with
      | UPlus => (v, er)
      | UNeg => (mkval (uns_p v) (wrap (uns_p v) (- bits v)), er)
      | UBnot => (mkval (uns_p v) (wrap (uns_p v) (Z.lnot (bits v))), er)
      | ULnot => (mkval (if q_not_uns q then uns_p v else false) (b2z (bits v =? 0)), er)
      end
  | EBin o a b =>
      let '(v1, er1) := eval q a in
      let '(v2, er2) := eval q b in
      let er := er1 || er2 in
      if is_shift o && negb (q_shift_conv q) then
        (mkval (uns_p v1) (shift o (uns_p v1) (bits v1) (to_u v2)), er)
      else
        let '(u, x, y) := binop_operands v1 v2 in
        if is_shift o then (mkval u (shift o u x y), er)
        else if is_cmp o then (mkval (if q_cmp_uns q then u else false) (b2z (cmp o x y)), er)
        else match o with
             | BDiv | BMod => if y =? 0 then (mkval u 1, true) else (mkval u (wrap u (arith o x y)), er)
             | _ => (mkval u (wrap u (arith o x y)), er)
             end
  | EAndAnd a b =>
      let '(v1, er1) := eval q a in
      if nonzero v1 then let '(v2, er2) := eval q b in (mkval false (b2z (nonzero v2)), er1 || er2)
      else (mkval false 0, er1)
  | EOrOr a b =>
      let '(v1, er1) := eval q a in
      if nonzero v1 then (mkval false 1, er1)
      else let '(v2, er2) := eval q b in (mkval false (b2z (nonzero v2)), er1 || er2)
  | ECond c a b =>
      let '(vc, erc) := eval q c in
      let '(r, er) := eval q (if nonzero vc then a else b) in
      if negb (q_cond_noconv q) && negb (uns_p r) && pre_unsigned_p q e
      then (mkval true (u64 (bits r)), erc || er)
      else (r, erc || er)
  end.

(* the group after `#if e` is kept iff the value is non-zero *)
Definition if_taken (q : quirks) (e : expr) : bool := nonzero (fst (eval q e)).

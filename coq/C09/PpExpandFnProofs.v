(* C09: proofs about the function-like macro expansion model PpExpandFn. *)
From Coq Require Import String Ascii List Arith Bool Lia.
From MirV Require Import C09.PpExpandFn.
Import ListNotations.
Local Open Scope nat_scope.

(* ====================================================================================== *)
(* Part 1: an argument is completely macro-replaced before substitution (C11 6.10.3.1)     *)
(* ====================================================================================== *)

(* [run_end]: the state in which the main loop finds the end of its input *)
Fixpoint run_end (q : quirks) (d : defs) (fuel : nat) (s : state) : option state :=
  match fuel with
  | O => None
  | S f => match step q d s with
           | Done => Some s
           | Next s' => run_end q d f s'
           | Bad _ => None
           end
  end.

Lemma run_end_run : forall q d fuel s sF, run_end q d fuel s = Some sF -> run q d fuel s = Out (rev (out sF)).
Proof.
  induction fuel as [|f IH]; intros s sF H; cbn in *; [discriminate|].
  destruct (step q d s) eqn:E; try discriminate.
  - inversion H; subst; reflexivity.
  - apply IH; assumption.
Qed.

Lemma run_run_end : forall q d fuel s l, run q d fuel s = Out l -> exists sF, run_end q d fuel s = Some sF /\ l = rev (out sF).
Proof.
  induction fuel as [|f IH]; intros s l H; cbn in *; [discriminate|].
  destruct (step q d s) eqn:E; try discriminate.
  - inversion H; subst. eexists; split; reflexivity.
  - apply IH; assumption.
Qed.

(* exactly n iterations of the loop *)
Fixpoint steps (q : quirks) (d : defs) (n : nat) (s : state) : option state :=
  match n with
  | O => Some s
  | S k => match step q d s with Next s' => steps q d k s' | _ => None end
  end.

(* a state seen from inside an argument: more input behind the T_EOA, more output before the T_BOA,
   more macro calls below *)
Definition frame (sfx outF : list tok) (csF : list mcall) (s : state) : state :=
  mkst (inp s ++ sfx) (out s ++ outF) (calls s ++ csF) (ign s) (nl s).

Section Frame.
Variable q : quirks.
Variable d : defs.
Variables (rest outF : list tok) (csF : list mcall).
Let sfx := TEoa :: rest.

Lemma pop_call_frame : forall cs ig cs' ig',
  pop_call cs ig = Some (cs', ig') -> pop_call (cs ++ csF) ig = Some (cs' ++ csF, ig').
Proof. intros [|mc cs] ig cs' ig' H; cbn in *; [discriminate|]. inversion H; subst; reflexivity. Qed.

Lemma skip_frame : forall i cs ig ws i' cs' ig' ws',
  skip_to_paren i cs ig ws = Some (i', cs', ig', ws') ->
  skip_to_paren (i ++ sfx) (cs ++ csF) ig ws = Some (i' ++ sfx, cs' ++ csF, ig', ws').
Proof.
  induction i as [|t i IH]; intros cs ig ws i' cs' ig' ws' H.
  - cbn in H. inversion H; subst. reflexivity.
  - destruct t; cbn [skip_to_paren app] in *; try (inversion H; subst; reflexivity).
    + apply IH; assumption.
    + apply IH; assumption.
    + destruct (pop_call cs ig) as [[cs1 ig1]|] eqn:E; [|discriminate].
      rewrite (pop_call_frame _ _ _ _ E). apply IH; assumption.
Qed.

Lemma find_args_frame : forall i cs ig plen var level va_p args arg nlp es r cs' ig' a,
  find_args q i cs ig plen var level va_p args arg nlp es = FaOk r cs' ig' a ->
  find_args q (i ++ sfx) (cs ++ csF) ig plen var level va_p args arg nlp es = FaOk (r ++ sfx) (cs' ++ csF) ig' a.
Proof.
  induction i as [|t i IH]; intros cs ig plen var level va_p args arg nlp es r cs' ig' a H; [discriminate|].
  destruct t; cbn [find_args app] in *;
    try discriminate;
    try (repeat match type of H with
                | context [if ?b then _ else _] => destruct b eqn:?
                | context [match fa_finish ?a ?b ?c with _ => _ end] => destruct (fa_finish a b c) eqn:?
                end; try discriminate;
         first [ inversion H; subst; reflexivity | apply IH; assumption ]).
  (* TEor *)
  destruct (q_single_eor q && es); [discriminate|].
  destruct (pop_call cs ig) as [[cs1 ig1]|] eqn:E; [|discriminate].
  rewrite (pop_call_frame _ _ _ _ E). apply IH; assumption.
Qed.

Lemma split_boa_frame : forall o acc a o', split_boa o acc = Some (a, o') -> split_boa (o ++ outF) acc = Some (a, o' ++ outF).
Proof.
  induction o as [|t o IH]; intros acc a o' H; [discriminate|].
  destruct t; cbn [split_boa app] in *; try (apply IH; assumption).
  inversion H; subst; reflexivity.
Qed.

Lemma run_repl_frame : forall r out0 mc cs ig s',
  run_repl q r out0 mc cs ig = Next s' ->
  run_repl q (r ++ sfx) (out0 ++ outF) mc (cs ++ csF) ig = Next (frame sfx outF csF s').
Proof.
  unfold run_repl; intros r out0 mc cs ig s' H.
  destruct (proc_repl _ _ _ _ _ _) as [args buf|i prev rs args buf].
  - destruct (do_concat _ buf); [|discriminate]. inversion H; subst. unfold frame; cbn.
    rewrite <- app_assoc. reflexivity.
  - inversion H; subst. unfold frame; cbn. rewrite <- app_assoc. reflexivity.
Qed.

Lemma frame_inp_cons : forall s t r, inp s = t :: r -> inp (frame sfx outF csF s) = t :: (r ++ sfx).
Proof. intros s t r H; unfold frame; cbn; rewrite H; reflexivity. Qed.

(* one iteration inside the frame is the same iteration *)
Lemma step_frame : forall s s', step q d s = Next s' -> step q d (frame sfx outF csF s) = Next (frame sfx outF csF s').
Proof.
  intros [i o cs ig n] s' H. unfold step in *. cbn [inp out calls ign nl frame] in *.
  destruct i as [|t r]; [discriminate|]. cbn [app].
  destruct (n && is_punct sharp t); [discriminate|].
  destruct t.
  - (* identifier *)
    destruct painted.
    + inversion H; subst; reflexivity.
    + destruct (d s) as [m|]; [|inversion H; subst; reflexivity].
      destruct (ignored ig s); [inversion H; subst; reflexivity|].
      destruct (m_params m) as [ps|].
      * destruct (skip_to_paren r cs ig None) as [[[[i1 cs1] ig1] ws1]|] eqn:E; [|discriminate].
        rewrite (skip_frame _ _ _ _ _ _ _ _ E).
        destruct i1 as [|t1 i1].
        { inversion H; subst. unfold frame; cbn. destruct ws1; reflexivity. }
        cbn [app tl]. cbn [tl] in H.
        destruct (is_punct lparen t1).
        -- destruct (find_args q i1 cs1 ig1 _ _ _ _ _ _ _ _) as [rr cs2 ig2 a|w] eqn:F; [|discriminate].
           rewrite (find_args_frame _ _ _ _ _ _ _ _ _ _ _ _ _ _ _ F).
           apply run_repl_frame; assumption.
        -- inversion H; subst. unfold frame; cbn. destruct ws1; reflexivity.
      * destruct (do_concat _ (add_tokens [] (m_body m))); [|discriminate].
        inversion H; subst. unfold frame; cbn. rewrite <- app_assoc. reflexivity.
  - inversion H; subst; reflexivity.
  - inversion H; subst; reflexivity.
  - inversion H; subst; reflexivity.
  - inversion H; subst; reflexivity.
  - inversion H; subst; reflexivity.
  - inversion H; subst; reflexivity.
  - (* TEoa *)
    destruct cs as [|mc cs]; [discriminate|]. cbn [app].
    destruct (split_boa o []) as [[a o0]|] eqn:E; [|discriminate].
    rewrite (split_boa_frame _ _ _ _ E). apply run_repl_frame; assumption.
  - (* TEor *)
    destruct (pop_call cs ig) as [[cs1 ig1]|] eqn:E; [|discriminate].
    rewrite (pop_call_frame _ _ _ _ E). inversion H; subst; reflexivity.
Qed.

Lemma step_done_inp : forall s, step q d s = Done -> inp s = [].
Proof.
  intros [i o cs ig n] H. unfold step in H; cbn in H. destruct i as [|t r]; [reflexivity|exfalso].
  destruct (n && is_punct sharp t); [discriminate|].
  repeat match type of H with
         | context [match ?x with _ => _ end] => destruct x eqn:?; try discriminate
         end.
  all: unfold run_repl in *;
    repeat match goal with
           | H : context [match ?x with _ => _ end] |- _ => destruct x eqn:?; try discriminate
           end.
Qed.

Lemma frame_run_end : forall fuel s sF, run_end q d fuel s = Some sF ->
  inp sF = [] /\ exists n, n < fuel /\ steps q d n (frame sfx outF csF s) = Some (frame sfx outF csF sF).
Proof.
  induction fuel as [|f IH]; intros s sF H; cbn in H; [discriminate|].
  destruct (step q d s) as [|s1|w] eqn:E; try discriminate.
  - inversion H; subst. split; [apply step_done_inp; assumption|]. exists 0; split; [lia|reflexivity].
  - destruct (IH _ _ H) as [Hi [n [Hn Hs]]]. split; [assumption|].
    exists (S n); split; [lia|]. cbn. rewrite (step_frame _ _ E). assumption.
Qed.

End Frame.

Lemma split_boa_app : forall o acc outF, ~ In TBoa o -> split_boa (o ++ TBoa :: outF) acc = Some (rev o ++ acc, outF).
Proof.
  induction o as [|t o IH]; intros acc outF Hn; cbn; [reflexivity|].
  assert (Ht : t <> TBoa) by (intros ->; apply Hn; left; reflexivity).
  assert (Ho : ~ In TBoa o) by (intros Hi; apply Hn; right; assumption).
  destruct t; try congruence; rewrite IH by assumption; rewrite <- app_assoc; reflexivity.
Qed.

(* C11 6.10.3.1: "A parameter in the replacement list, unless preceded by a # or ## preprocessing token or
   followed by a ## preprocessing token, is replaced by the corresponding argument after all macros contained
   therein have been expanded.  Before being substituted, each argument's preprocessing tokens are completely
   macro replaced as if they formed the rest of the preprocessing file; no other preprocessing tokens are
   available."

   (1) process_replacement asks for the expansion of an argument exactly for such parameters, and passes the
       argument on unexpanded (stringified / as ## operand) for the others: [proc_repl_param] below.
   (2) When it asks (state: T_BOA arg T_EOA rest, the call mc on the stack), the loop works on the argument
       exactly as it works on a file consisting of the argument alone -- whatever follows the argument, whatever
       was output before, whichever calls are active below -- and what is appended to mc's repl_buffer at the
       T_EOA is the output of that isolated run. *)
Theorem arg_expanded_in_isolation : forall q d fuel arg ig sF rest out0 mc cs nl0,
  run_end q d fuel (mkst arg [] [] ig false) = Some sF ->       (* the argument alone, as a file *)
  calls sF = [] -> ~ In TBoa (out sF) ->
  exists n,
    steps q d (S n) (mkst (TBoa :: arg ++ TEoa :: rest) out0 (mc :: cs) ig nl0)
    = Some (mkst (TEoa :: rest) (out sF ++ TBoa :: out0) (mc :: cs) (ign sF) (nl sF))
    /\ step q d (mkst (TEoa :: rest) (out sF ++ TBoa :: out0) (mc :: cs) (ign sF) (nl sF))
       = run_repl q rest out0 (mkmc (mc_name mc) (mc_params mc) (mc_prev mc) (mc_rest mc) (mc_args mc)
                                    (add_tokens (mc_buf mc) (rev (out sF)))) cs (ign sF).
Proof.
  intros q d fuel arg ig sF rest out0 mc cs nl0 H Hc Hb.
  destruct (frame_run_end q d rest (TBoa :: out0) (mc :: cs) _ _ _ H) as [Hi [n [_ Hs]]].
  exists n. split.
  - cbn [steps]. unfold step at 1; cbn [inp nl out calls ign].
    replace (nl0 && is_punct sharp TBoa) with false by (destruct nl0; reflexivity).
    unfold out_tok; cbn [out calls ign]. unfold frame in Hs; cbn in Hs.
    rewrite Hs. rewrite Hi, Hc. reflexivity.
  - unfold step; cbn [inp nl out calls ign].
    replace (nl sF && is_punct sharp TEoa) with false by (destruct (nl sF); reflexivity).
    rewrite split_boa_app by assumption. rewrite app_nil_r. reflexivity.
Qed.

(* (1): which parameters are expanded first.  One unfolding of the loop of process_replacement at a parameter. *)
Lemma proc_repl_param : forall old ps prev rest' shp args buf s i,
  find_param ps s = Some i ->
  proc_repl old ps prev (TIdent false s :: rest') shp args buf =
  match shp with
  | Some p =>                                                   (* # parameter: the spelling of the argument *)
      proc_repl old ps (TIdent false s :: prev) rest' None (set_nth i (strip_ws old (nth i args [])) args)
                (add_token (firstn p buf) (stringify_toks old (strip_ws old (nth i args []))))
  | None =>
      if paste_operand prev rest' then                          (* operand of ##: the argument as it is *)
        if empty_arg (nth i args []) then proc_repl old ps (TIdent false s :: prev) rest' None args (add_token buf TPlm)
        else proc_repl old ps (TIdent false s :: prev) rest' None args (add_tokens buf (nth i args []))
      else PrArg i (TIdent false s :: prev) rest' args buf      (* otherwise: expand the argument first *)
  end.
Proof. intros old ps prev rest' shp args buf s i H. cbn [proc_repl]. rewrite H. reflexivity. Qed.

(* ====================================================================================== *)
(* Part 2: the painting discipline -- stack, markers and ignore flags stay in step          *)
(* ====================================================================================== *)

Lemma speq_eq : forall a b, speq a b = true <-> a = b.
Proof.
  induction a as [|x a IH]; destruct b as [|y b]; cbn; split; intros H; try discriminate; try reflexivity.
  - apply andb_true_iff in H as [H1 H2]. apply Nat.eqb_eq in H1. apply IH in H2. subst; reflexivity.
  - inversion H; subst. rewrite Nat.eqb_refl. cbn. apply IH; reflexivity.
Qed.
Lemma speq_refl : forall a, speq a a = true. Proof. intros; apply speq_eq; reflexivity. Qed.

Lemma ignored_In : forall ig n, ignored ig n = true <-> In n ig.
Proof.
  intros ig n; unfold ignored; rewrite existsb_exists; split.
  - intros [x [Hx E]]. apply speq_eq in E; subst; assumption.
  - intros H; exists n; split; [assumption|apply speq_refl].
Qed.

Lemma unignore_incl : forall n ig x, In x (unignore n ig) -> In x ig.
Proof. intros n ig x H; unfold unignore in H; apply filter_In in H; tauto. Qed.

Lemma unignore_head : forall n ig, NoDup (n :: ig) -> unignore n (n :: ig) = ig.
Proof.
  intros n ig H. inversion H as [|? ? Hn Hd]; subst. unfold unignore; cbn. rewrite speq_refl; cbn.
  clear H Hd. induction ig as [|x ig IH]; cbn; [reflexivity|].
  destruct (speq n x) eqn:E.
  - apply speq_eq in E; subst. exfalso; apply Hn; left; reflexivity.
  - cbn. f_equal. apply IH. intros Hi; apply Hn; right; assumption.
Qed.

(* not one of the two markers that correspond to entries of macro_call_stack *)
Definition nm (t : tok) : bool := match t with TBoa | TEoa | TEor => false | _ => true end.
Definition clean (l : list tok) : Prop := forallb nm l = true.
(* the output buffer holds T_BOA markers, but never one of the other two *)
Definition nmo (t : tok) : bool := match t with TEoa | TEor => false | _ => true end.
Definition cleano (l : list tok) : Prop := forallb nmo l = true.
Lemma nm_nmo : forall t, nm t = true -> nmo t = true. Proof. intros t; destruct t; cbn; congruence. Qed.
Lemma cleano_cons : forall t l, cleano (t :: l) <-> nmo t = true /\ cleano l.
Proof. intros; unfold cleano; cbn; rewrite andb_true_iff; tauto. Qed.

(* T_BOA markers / calls waiting for the expansion of an argument *)
Definition is_boa (t : tok) : bool := match t with TBoa => true | _ => false end.
Definition cb (l : list tok) : nat := length (filter is_boa l).
Lemma cb_app : forall a b, cb (a ++ b) = cb a + cb b.
Proof. intros; unfold cb; rewrite filter_app, app_length; reflexivity. Qed.
Lemma cb_nm_cons : forall t l, nm t = true -> cb (t :: l) = cb l.
Proof. intros t l H; destruct t; cbn in *; try discriminate; reflexivity. Qed.

(* the markers of the pending input, innermost first: true = T_EOR, false = T_EOA *)
Fixpoint markers (i : list tok) : list bool :=
  match i with
  | [] => []
  | TEor :: r => true :: markers r
  | TEoa :: r => false :: markers r
  | _ :: r => markers r
  end.

Lemma markers_app : forall a b, markers (a ++ b) = markers a ++ markers b.
Proof. induction a as [|t a IH]; intros b; cbn; [reflexivity|]. destruct t; cbn; rewrite ?IH; reflexivity. Qed.
Lemma markers_clean : forall l, clean l -> markers l = [].
Proof.
  unfold clean; induction l as [|t l IH]; cbn; intros H; [reflexivity|].
  apply andb_true_iff in H as [H1 H2]. destruct t; cbn in *; try discriminate; auto.
Qed.
Lemma markers_nmo_cons : forall t r, nmo t = true -> markers (t :: r) = markers r.
Proof. intros t r H; destruct t; cbn in *; try discriminate; reflexivity. Qed.
Lemma markers_nm_cons : forall t r, nm t = true -> markers (t :: r) = markers r.
Proof. intros t r H; apply markers_nmo_cons, nm_nmo, H. Qed.

Lemma cb_clean : forall l, clean l -> cb l = 0.
Proof.
  unfold clean; induction l as [|t l IH]; intros H; [reflexivity|]. cbn in H. apply andb_true_iff in H as [H1 H2].
  rewrite cb_nm_cons by exact H1. auto.
Qed.
Lemma clean_app : forall a b, clean (a ++ b) <-> clean a /\ clean b.
Proof. intros; unfold clean; rewrite forallb_app, andb_true_iff; tauto. Qed.
Lemma clean_cons : forall t l, clean (t :: l) <-> nm t = true /\ clean l.
Proof. intros; unfold clean; cbn; rewrite andb_true_iff; tauto. Qed.
Lemma clean_rev : forall l, clean l -> clean (rev l).
Proof. induction l as [|t l IH]; cbn; intros H; [exact H|]. apply clean_cons in H as [H1 H2]. apply clean_app; split; [auto|]. apply clean_cons; split; [assumption|reflexivity]. Qed.
Lemma clean_firstn : forall n l, clean l -> clean (firstn n l).
Proof. induction n as [|n IH]; intros [|t l] H; cbn; try reflexivity. apply clean_cons in H as [H1 H2]. apply clean_cons; auto. Qed.

Lemma add_token_clean : forall l t, clean l -> nm t = true -> clean (add_token l t).
Proof. intros l t Hl Ht; unfold add_token. destruct (is_ws t && last_ws l); [assumption|]. apply clean_app; split; [assumption|]. apply clean_cons; split; [assumption|reflexivity]. Qed.
Lemma add_tokens_clean : forall from to, clean to -> clean from -> clean (add_tokens to from).
Proof.
  unfold add_tokens; induction from as [|t from IH]; intros to Ht Hf; cbn; [assumption|].
  apply clean_cons in Hf as [H1 H2]. apply IH; [apply add_token_clean|]; assumption.
Qed.
Lemma strip_ws1_clean : forall l, clean l -> clean (strip_ws1 l).
Proof.
  intros l H; unfold strip_ws1.
  set (l1 := match l with t :: r => if is_ws t then r else l | [] => [] end).
  assert (H1 : clean l1).
  { subst l1; destruct l as [|t r]; [reflexivity|]. destruct (is_ws t); [apply clean_cons in H; tauto|assumption]. }
  destruct (rev l1) as [|t r] eqn:E; [reflexivity|].
  destruct (is_ws t); [|assumption].
  apply clean_rev in H1. rewrite E in H1. apply clean_cons in H1 as [_ H1]. apply clean_rev; assumption.
Qed.

Lemma drop_ws_clean : forall l, clean l -> clean (drop_ws l).
Proof. induction l as [|t l IH]; cbn; intros H; [exact H|]. destruct (is_ws t); [apply IH; apply clean_cons in H; tauto|exact H]. Qed.
Lemma strip_ws_clean : forall old l, clean l -> clean (strip_ws old l).
Proof.
  intros [|] l H; unfold strip_ws; [apply strip_ws1_clean; exact H|].
  apply clean_rev, drop_ws_clean, clean_rev, drop_ws_clean; exact H.
Qed.

Definition cleans (a : list (list tok)) : Prop := Forall clean a.
Lemma nth_cleans : forall a i, cleans a -> clean (nth i a []).
Proof. induction a as [|x a IH]; intros [|i] H; cbn; try reflexivity; inversion H; subst; auto. Qed.
Lemma set_nth_cleans : forall a i x, cleans a -> clean x -> cleans (set_nth i x a).
Proof. induction a as [|y a IH]; intros [|i] x H Hx; cbn; try constructor; inversion H; subst; auto. apply IH; assumption. Qed.

(* token_concat never produces a marker *)
Lemma classify_nm : forall s t, classify s = Some t -> nm t = true.
Proof.
  intros s t H; unfold classify in H. destruct s as [|c r]; [discriminate|].
  repeat match type of H with context [if ?b then _ else _] => destruct b end; try discriminate; inversion H; reflexivity.
Qed.

Lemma skip1_clean : forall l, clean l -> clean (skip1 l).
Proof. intros [|w l] H; cbn; [assumption|]. destruct (is_ws w); [apply clean_cons in H; tauto|assumption]. Qed.
Lemma skip1_length : forall l, length (skip1 l) <= length l.
Proof. intros [|w l]; cbn; [lia|]. destruct (is_ws w); cbn; lia. Qed.

Lemma dc_clean : forall old n todo done l, length todo <= n -> clean todo -> clean done -> dc old todo done = Some l -> clean l.
Proof.
  intros old. induction n as [|n IH]; intros todo done l Hn Ht Hd H.
  - destruct todo; [|cbn in Hn; lia]. cbn in H; inversion H; subst; assumption.
  - destruct todo as [|t todo]; [cbn in H; inversion H; subst; assumption|].
    cbn in Hn. apply clean_cons in Ht as [Ht1 Ht2].
    assert (Hother : dc old todo (t :: done) = Some l -> clean l).
    { intros H'. eapply IH; [| |apply clean_cons; split|exact H']; try eassumption; lia. }
    destruct t; cbn [dc] in H; try (apply Hother; exact H). clear Hother.
    pose proof (skip1_clean _ Hd) as Hd1.
    remember (skip1 done) as sd eqn:Esd. destruct sd as [|tj r]; [discriminate|]. apply clean_cons in Hd1 as [Hj Hr].
    pose proof (skip1_clean _ Ht2) as Hl1. pose proof (skip1_length todo) as Hlen.
    remember (skip1 todo) as st eqn:El. destruct st as [|tk l2]; [discriminate|]. apply clean_cons in Hl1 as [Hk Hl2]. cbn in Hlen.
    pose proof (skip1_length l2). pose proof (skip1_clean _ Hl2). pose proof (skip1_clean _ Hr).
    destruct (is_plm tk).
    + destruct (is_plm tj).
      * destruct old; (eapply IH; [| | |exact H]; [lia|assumption|apply clean_cons; split; [reflexivity|assumption]]).
      * destruct old; (eapply IH; [| | |exact H]; [lia|assumption|apply clean_cons; split; assumption]).
    + destruct (is_plm tj).
      * destruct old; (eapply IH; [| | |exact H]; [cbn; lia|apply clean_cons; split; assumption|assumption]).
      * destruct (token_concat tk tj) as [t'|] eqn:Ec; [|discriminate].
        eapply IH; [| | |exact H]; [lia|assumption|].
        apply clean_cons; split; [|assumption]. unfold token_concat in Ec. eapply classify_nm; eassumption.
Qed.

Lemma do_concat_clean : forall old l l', clean l -> do_concat old l = Some l' -> clean l'.
Proof.
  intros old l l' H E; unfold do_concat in E. destruct (dc old (rev l) []) as [x|] eqn:D; [|discriminate]. inversion E; subst.
  assert (Hx : clean x).
  { apply (dc_clean old (length (rev l)) (rev l) [] x); [apply le_n|apply clean_rev; exact H|reflexivity|exact D]. }
  clear D E. induction x as [|t x IH]; [reflexivity|]. apply clean_cons in Hx as [H1 H2]. cbn.
  apply clean_cons; split; [destruct t; cbn in *; congruence|auto].
Qed.

(* a call whose replacement list is being rescanned has no replacement tokens left to read and nothing read
   (run_repl builds it so); a call waiting for the expansion of an argument has read the parameter *)
Definition in_rescan (mc : mcall) : bool := match mc_prev mc with [] => true | _ => false end.
Definition names_R (cs : list mcall) : list spelling := map mc_name (filter in_rescan cs).

Lemma names_R_cons_R : forall mc cs, in_rescan mc = true -> names_R (mc :: cs) = mc_name mc :: names_R cs.
Proof. intros mc cs H; unfold names_R; cbn; rewrite H; reflexivity. Qed.
Lemma names_R_cons_A : forall mc cs, in_rescan mc = false -> names_R (mc :: cs) = names_R cs.
Proof. intros mc cs H; unfold names_R; cbn; rewrite H; reflexivity. Qed.

Definition mc_clean (mc : mcall) : Prop := clean (mc_buf mc) /\ cleans (mc_args mc) /\ clean (mc_rest mc).
Definition table_clean (d : defs) : Prop := forall n m, d n = Some m -> clean (m_body m).

Definition cA (cs : list mcall) : nat := length (filter (fun mc => negb (in_rescan mc)) cs).
Lemma cA_cons_R : forall mc cs, in_rescan mc = true -> cA (mc :: cs) = cA cs.
Proof. intros mc cs H; unfold cA; cbn; rewrite H; reflexivity. Qed.
Lemma cA_cons_A : forall mc cs, in_rescan mc = false -> cA (mc :: cs) = S (cA cs).
Proof. intros mc cs H; unfold cA; cbn; rewrite H; reflexivity. Qed.

Section Inv.
(* [ig0]: the names that are ignored from the start and stay so (none for a file; the macros being rescanned
   around it for an argument expanded in isolation) *)
Variable ig0 : list spelling.

Fixpoint a_ok (cs : list mcall) : Prop :=
  match cs with
  | [] => True
  | mc :: r => (in_rescan mc = false -> ~ In (mc_name mc) (names_R r ++ ig0)) /\ a_ok r
  end.

Record cinv (i : list tok) (cs : list mcall) (ig : list spelling) : Prop := mkcinv {
  c_mark : markers i = map in_rescan cs;       (* one T_EOR / T_EOA per call, in stack order *)
  c_ign : ig = names_R cs ++ ig0;              (* ignore_p is set exactly for the calls being rescanned *)
  c_nodup : NoDup ig;                          (* ... which are calls of pairwise different macros *)
  c_aok : a_ok cs;
  c_clean : Forall mc_clean cs }.

(* ... the output buffer has no T_EOA/T_EOR, and one T_BOA (on the input for a moment, then in the output buffer)
   per call that waits for the expansion of an argument *)
Definition no_boa_but_head (i : list tok) : Prop := cb (match i with TBoa :: r => r | _ => i end) = 0.
Definition inv (s : state) : Prop :=
  cinv (inp s) (calls s) (ign s) /\ cleano (out s) /\ cb (inp s) + cb (out s) = cA (calls s) /\
  no_boa_but_head (inp s).

Lemma nbh_tail : forall t r, no_boa_but_head (t :: r) -> cb r = 0.
Proof. intros t r H; unfold no_boa_but_head in H. destruct t; try exact H; unfold cb in *; cbn in H; try lia; try exact H. Qed.
Lemma nbh_zero : forall i, cb i = 0 -> no_boa_but_head i.
Proof. intros i H; unfold no_boa_but_head. destruct i as [|t r]; [exact H|]. destruct t; try exact H. unfold cb in H; cbn in H; discriminate. Qed.

Lemma cinv_nmo_cons : forall t r cs ig, nmo t = true -> cinv (t :: r) cs ig -> cinv r cs ig.
Proof. intros t r cs ig Ht [H1 H2 H3 H4 H5]; constructor; try assumption. rewrite <- H1. symmetry; apply markers_nmo_cons; assumption. Qed.
Lemma cinv_nm_cons : forall t r cs ig, nm t = true -> cinv (t :: r) cs ig -> cinv r cs ig.
Proof. intros t r cs ig Ht; apply cinv_nmo_cons, nm_nmo, Ht. Qed.
Lemma cinv_nm_cons' : forall t r cs ig, nm t = true -> cinv r cs ig -> cinv (t :: r) cs ig.
Proof. intros t r cs ig Ht [H1 H2 H3 H4 H5]; constructor; try assumption. rewrite <- H1. apply markers_nm_cons; assumption. Qed.

Lemma cinv_pop : forall r cs ig, cinv (TEor :: r) cs ig ->
  exists cs' ig', pop_call cs ig = Some (cs', ig') /\ cinv r cs' ig' /\ (forall x, In x ig' -> In x ig) /\ cA cs' = cA cs.
Proof.
  intros r cs ig [H1 H2 H3 H4 H5]. cbn in H1. destruct cs as [|mc cs]; [discriminate|].
  cbn in H1. inversion H1 as [[Hm Hr]]. exists cs, (unignore (mc_name mc) ig). split; [reflexivity|].
  rewrite (cA_cons_R mc cs (eq_sym Hm)).
  rewrite names_R_cons_R in H2 by (symmetry; exact Hm). cbn [app] in H2.
  split; [|split; [intros x; apply unignore_incl|reflexivity]].
  subst ig. rewrite unignore_head by assumption.
  constructor; [exact Hr|reflexivity|inversion H3; assumption|exact (proj2 H4)|inversion H5; assumption].
Qed.

Lemma skip_inv : forall i cs ig ws, cinv i cs ig ->
  exists i' cs' ig' ws', skip_to_paren i cs ig ws = Some (i', cs', ig', ws') /\ cinv i' cs' ig' /\
                         (forall x, In x ig' -> In x ig) /\ cb i' = cb i /\ cA cs' = cA cs.
Proof.
  induction i as [|t i IH]; intros cs ig ws H.
  - exists [], cs, ig, ws. cbn. auto.
  - destruct t; cbn [skip_to_paren];
      try (do 4 eexists; split; [reflexivity|split; [exact H|auto]]).
    + destruct (IH cs ig (Some TSp)) as [i' [cs' [ig' [ws' [E [Hc [Hi [Hb Ha]]]]]]]]; [eapply cinv_nm_cons; [|exact H]; reflexivity|].
      exists i', cs', ig', ws'. rewrite cb_nm_cons by reflexivity. auto.
    + destruct (IH cs ig (Some TNl)) as [i' [cs' [ig' [ws' [E [Hc [Hi [Hb Ha]]]]]]]]; [eapply cinv_nm_cons; [|exact H]; reflexivity|].
      exists i', cs', ig', ws'. rewrite cb_nm_cons by reflexivity. auto.
    + destruct (cinv_pop _ _ _ H) as [cs1 [ig1 [E [Hc [Hi Ha1]]]]]. rewrite E.
      destruct (IH cs1 ig1 ws Hc) as [i' [cs' [ig' [ws' [E2 [Hc2 [Hi2 [Hb2 Ha2]]]]]]]].
      exists i', cs', ig', ws'. split; [exact E2|]. split; [exact Hc2|].
      split; [auto|]. split; [exact Hb2|congruence].
Qed.

Lemma skip_ws_nm : forall i cs ig ws i' cs' ig' ws',
  (forall w, ws = Some w -> nm w = true) ->
  skip_to_paren i cs ig ws = Some (i', cs', ig', ws') -> forall w, ws' = Some w -> nm w = true.
Proof.
  induction i as [|t i IH]; intros cs ig ws i' cs' ig' ws' Hw E; cbn in E.
  - inversion E; subst; exact Hw.
  - destruct t; try (inversion E; subst; exact Hw).
    + eapply IH; [|exact E]. intros w Hs; inversion Hs; reflexivity.
    + eapply IH; [|exact E]. intros w Hs; inversion Hs; reflexivity.
    + destruct (pop_call cs ig) as [[a b]|]; [|discriminate]. eapply IH; [exact Hw|exact E].
Qed.

Lemma fa_finish_cleans : forall q plen a a', cleans a -> fa_finish q plen a = Some a' -> cleans a'.
Proof.
  intros q plen a a' H E; unfold fa_finish in E.
  destruct plen; [destruct a as [|x [|y a]]|];
    repeat match type of E with context [if ?b then _ else _] => destruct b end;
    try discriminate; inversion E; subst; try assumption; constructor.
Qed.

Lemma find_args_inv : forall q i cs ig plen var level va_p args arg nlp es,
  cinv i cs ig -> cleans args -> clean arg ->
  match find_args q i cs ig plen var level va_p args arg nlp es with
  | FaOk r cs' ig' a => cinv r cs' ig' /\ (forall x, In x ig' -> In x ig) /\ cleans a /\ cb r = cb i /\ cA cs' = cA cs
  | FaBad w => w <> 12 /\ 10 <= w
  end.
Proof.
  induction i as [|t i IH]; intros cs ig plen var level va_p args arg nlp es H Ha Hg; [cbn; split; [discriminate|lia]|].
  assert (Hfin : match fa_finish q plen (rev (rev arg :: args)) with
                 | Some a => cleans a
                 | None => True
                 end).
  { destruct (fa_finish q plen (rev (rev arg :: args))) eqn:E; [|exact I].
    eapply fa_finish_cleans; [|exact E]. unfold cleans. apply Forall_rev. constructor; [apply clean_rev; assumption|assumption]. }
  assert (Hgen : forall t', nm t' = true -> cinv (t' :: i) cs ig ->
     match (if nlp && is_punct sharp t' then FaBad 14
            else if (level =? 0) && is_punct rparen t' then
                   match fa_finish q plen (rev (rev arg :: args)) with
                   | Some a => FaOk i cs ig a
                   | None => FaBad 15
                   end
            else if (level =? 0) && negb va_p && is_punct comma t' then
                   find_args q i cs ig plen var level ((length args + 1 =? plen - 1) && var) (rev arg :: args) [] false false
            else find_args q i cs ig plen var
                           (if is_punct rparen t' then level - 1 else if is_punct lparen t' then level + 1 else level)
                           va_p args (t' :: arg) (match t' with TNl => true | _ => false end) false) with
     | FaOk r cs' ig' a => cinv r cs' ig' /\ (forall x, In x ig' -> In x ig) /\ cleans a /\ cb r = cb (t' :: i) /\ cA cs' = cA cs
     | FaBad w => w <> 12 /\ 10 <= w
     end).
  { intros t' Hn Hc. apply cinv_nm_cons in Hc; [|assumption]. rewrite cb_nm_cons by exact Hn.
    destruct (nlp && is_punct sharp t'); [split; [discriminate|lia]|].
    destruct ((level =? 0) && is_punct rparen t').
    - destruct (fa_finish q plen (rev (rev arg :: args))); [|split; [discriminate|lia]]. auto.
    - destruct ((level =? 0) && negb va_p && is_punct comma t').
      + apply IH; [assumption| |reflexivity]. constructor; [apply clean_rev; assumption|assumption].
      + apply IH; [assumption|assumption|]. apply clean_cons; split; assumption. }
  destruct t; cbn [find_args]; try (apply Hgen; [reflexivity|exact H]); try (split; [discriminate|lia]).
  (* TEor *)
  destruct (q_single_eor q && es); [split; [discriminate|lia]|].
  destruct (cinv_pop _ _ _ H) as [cs1 [ig1 [E [Hc [Hi Ha1]]]]]. rewrite E.
  specialize (IH cs1 ig1 plen var level va_p args arg nlp true Hc Ha Hg).
  destruct (find_args q i cs1 ig1 plen var level va_p args arg nlp true); [|exact IH].
  destruct IH as [I1 [I2 [I3 [I4 I5]]]]. split; [exact I1|]. split; [auto|]. split; [exact I3|]. split; [exact I4|congruence].
Qed.

Inductive pr_ok : pr_result -> Prop :=
| pr_ok_end : forall args buf, cleans args -> clean buf -> pr_ok (PrEnd args buf)
| pr_ok_arg : forall i prev rest args buf, cleans args -> clean buf -> clean rest -> prev <> [] -> pr_ok (PrArg i prev rest args buf).

Lemma proc_repl_ok : forall old ps rest prev shp args buf,
  clean rest -> cleans args -> clean buf -> pr_ok (proc_repl old ps prev rest shp args buf).
Proof.
  intros old ps. induction rest as [|t rest IH]; intros prev shp args buf Hr Ha Hb; cbn [proc_repl]; [constructor; assumption|].
  apply clean_cons in Hr as [Ht Hr].
  assert (Hdef : forall sh, pr_ok (proc_repl old ps (t :: prev) rest sh args (add_token buf t))).
  { intros sh. apply IH; [assumption|assumption|apply add_token_clean; assumption]. }
  destruct t; try apply Hdef.
  destruct painted; [apply Hdef|].
  destruct (find_param ps s) as [i|]; [|apply Hdef].
  destruct shp as [p|].
  - apply IH; [assumption| |].
    + apply set_nth_cleans; [assumption|]. apply strip_ws_clean, nth_cleans; assumption.
    + apply add_token_clean; [apply clean_firstn; assumption|reflexivity].
  - destruct (paste_operand prev rest).
    + destruct (empty_arg (nth i args [])).
      * apply IH; [assumption|assumption|apply add_token_clean; [assumption|reflexivity]].
      * apply IH; [assumption|assumption|apply add_tokens_clean; [assumption|apply nth_cleans; assumption]].
    + constructor; try assumption. discriminate.
Qed.

Lemma run_repl_inv : forall q r out0 mc cs ig s',
  cinv r cs ig -> mc_clean mc -> cleano out0 -> ~ In (mc_name mc) ig -> cb r + cb out0 = cA cs -> cb r = 0 ->
  run_repl q r out0 mc cs ig = Next s' -> inv s'.
Proof.
  intros q r out0 mc cs ig s' [H1 H2 H3 H4 H5] [Hb [Ha Hr]] Ho Hn Hcnt Hz E. unfold run_repl in E.
  pose proof (proc_repl_ok (q_plm_ws q) (mc_params mc) (mc_rest mc) (mc_prev mc) None (mc_args mc) (mc_buf mc) Hr Ha Hb) as Hp.
  destruct (proc_repl _ _ _ _ _ _) as [args buf|i prev rest args buf];
    [inversion Hp as [? ? Hca Hcb|]|inversion Hp as [|? ? ? ? ? Hca Hcb Hcr Hpn]]; subst.
  - destruct (do_concat _ buf) as [l|] eqn:D; [|discriminate]. inversion E; subst. clear E.
    pose proof (do_concat_clean _ _ _ Hcb D) as Hl.
    split; [|split; [exact Ho|split]]; cbn [inp out calls ign].
    + constructor.
      * rewrite markers_app, (markers_clean _ Hl). cbn. rewrite H1. reflexivity.
      * rewrite names_R_cons_R by reflexivity. reflexivity.
      * constructor; assumption.
      * cbn. split; [discriminate|assumption].
      * constructor; [|assumption]. repeat split; cbn; try assumption; try reflexivity.
    + rewrite cb_app, (cb_clean _ Hl). rewrite cA_cons_R by reflexivity. cbn. exact Hcnt.
    + apply nbh_zero. rewrite cb_app, (cb_clean _ Hl). exact Hz.
  - inversion E; subst. clear E.
    assert (Hph : in_rescan (mkmc (mc_name mc) (mc_params mc) prev rest args buf) = false).
    { unfold in_rescan; cbn. destruct prev; [congruence|reflexivity]. }
    split; [|split; [exact Ho|split]]; cbn [inp out calls ign].
    3:{ unfold no_boa_but_head. rewrite cb_app, (cb_clean _ (nth_cleans _ i Hca)). exact Hz. }
    + constructor.
      * cbn. rewrite markers_app, (markers_clean _ (nth_cleans _ i Hca)). cbn. rewrite H1, Hph. reflexivity.
      * rewrite names_R_cons_A by exact Hph. reflexivity.
      * assumption.
      * cbn. split; [intros _; exact Hn|assumption].
      * constructor; [|assumption]. repeat split; cbn; try assumption; try reflexivity.
    + rewrite cA_cons_A by exact Hph.
      change (cb (TBoa :: nth i args [] ++ TEoa :: r)) with (S (cb (nth i args [] ++ TEoa :: r))).
      rewrite cb_app, (cb_clean _ (nth_cleans _ i Hca)). cbn [plus]. change (cb (TEoa :: r)) with (cb r). lia.
Qed.

Lemma split_boa_clean : forall o acc a o', cleano o -> clean acc -> split_boa o acc = Some (a, o') ->
  clean a /\ cleano o' /\ cb o = S (cb o').
Proof.
  induction o as [|t o IH]; intros acc a o' Ho Hacc E; [discriminate|].
  apply cleano_cons in Ho as [Ht Ho].
  assert (Hrec : forall t', nm t' = true -> split_boa o (t' :: acc) = Some (a, o') ->
                            clean a /\ cleano o' /\ cb (t' :: o) = S (cb o')).
  { intros t' Hn E'. assert (Hacc' : clean (t' :: acc)) by (apply clean_cons; split; assumption).
    destruct (IH _ _ _ Ho Hacc' E') as [I1 [I2 I3]]. rewrite cb_nm_cons by exact Hn. auto. }
  destruct t; cbn [split_boa] in E; try (cbn in Ht; discriminate); try (apply Hrec; [reflexivity|exact E]).
  inversion E; subst. repeat split; assumption.
Qed.

(* the invariant is kept by every iteration of the main loop, and the checks for an empty stack never fire *)
Lemma step_inv : forall q d s, table_clean d -> inv s ->
  match step q d s with
  | Next s' => inv s'
  | Bad w => w <> 2 /\ w <> 3 /\ w <> 4 /\ w <> 5 /\ w <> 12
  | Done => True
  end.
Proof.
  intros q d [i o cs ig n] Ht [Hc [Ho [Hcnt Hj]]]. cbn [inp out calls ign] in *. unfold step; cbn [inp out calls ign nl].
  destruct i as [|t r]; [exact I|].
  destruct (n && is_punct sharp t); [repeat split; discriminate|].
  pose proof (nbh_tail _ _ Hj) as Hz.
  assert (Hout : forall t' n', nmo t' = true -> cb r + cb (t' :: o) = cb (t :: r) + cb o ->
                               cinv (t' :: r) cs ig -> inv (out_tok (mkst (t :: r) o cs ig n) r t' n')).
  { intros t' n' Hn He Hc'. split; [|split; [|split]]; unfold out_tok; cbn [inp out calls ign].
    - eapply cinv_nmo_cons; eassumption.
    - apply cleano_cons; split; assumption.
    - rewrite He. exact Hcnt.
    - apply nbh_zero; exact Hz. }
  assert (Hmove : cb r + cb (t :: o) = cb (t :: r) + cb o).
  { unfold cb; cbn [filter]. destruct (is_boa t); cbn [length]; lia. }
  destruct t; try (apply Hout; [reflexivity|apply Hmove|exact Hc]).
  - (* identifier *)
    assert (Hcnt' : cb r + cb o = cA cs) by (rewrite cb_nm_cons in Hcnt by reflexivity; exact Hcnt).
    destruct painted; [apply Hout; [reflexivity|apply Hmove|exact Hc]|].
    destruct (d s) as [m|] eqn:Ed; [|apply Hout; [reflexivity|apply Hmove|exact Hc]].
    destruct (ignored ig s) eqn:Ei.
    { split; [|split; [|split]]; unfold out_tok; cbn [inp out calls ign];
        [eapply cinv_nm_cons; [|exact Hc]; reflexivity|apply cleano_cons; split; [reflexivity|assumption]| |apply nbh_zero; exact Hz].
      rewrite cb_nm_cons by reflexivity. exact Hcnt'. }
    assert (Hni : ~ In s ig) by (intros Hi; apply ignored_In in Hi; congruence).
    apply cinv_nm_cons in Hc; [|reflexivity].
    destruct (m_params m) as [ps|].
    + destruct (skip_inv r cs ig None Hc) as [i1 [cs1 [ig1 [ws1 [E [Hc1 [Hi1 [Hb1 Ha1]]]]]]]]. rewrite E.
      assert (Hnc : inv (mkst (match ws1 with Some w => w :: i1 | None => i1 end) (TIdent false s :: o) cs1 ig1 false)).
      { assert (Hw : forall w, ws1 = Some w -> nm w = true).
        { eapply (skip_ws_nm _ _ _ _ _ _ _ _ (fun w (Hs : None = Some w) => ltac:(discriminate)) E). }
        split; [|split; [|split]]; cbn [inp out calls ign].
        - destruct ws1 as [w|]; [apply cinv_nm_cons'; [apply Hw; reflexivity|assumption]|assumption].
        - apply cleano_cons; split; [reflexivity|assumption].
        - rewrite (cb_nm_cons (TIdent false s)) by reflexivity. rewrite Ha1, <- Hcnt', <- Hb1.
          destruct ws1 as [w|]; [rewrite cb_nm_cons by (apply Hw; reflexivity)|]; reflexivity.
        - apply nbh_zero. destruct ws1 as [w|]; [rewrite cb_nm_cons by (apply Hw; reflexivity)|]; congruence. }
      destruct i1 as [|t1 i1]; cbn [tl]; [exact Hnc|].
      destruct (is_punct lparen t1) eqn:Ep; [|exact Hnc]. clear Hnc.
      assert (Hn1 : nm t1 = true) by (destruct t1; cbn in *; congruence).
      apply cinv_nm_cons in Hc1; [|exact Hn1]. rewrite cb_nm_cons in Hb1 by exact Hn1.
      pose proof (find_args_inv q i1 cs1 ig1 (length ps) (variadic ps) 0 ((length ps =? 1) && variadic ps) [] [] false false Hc1
                                (Forall_nil _) eq_refl) as Hf.
      destruct (find_args q i1 cs1 ig1 _ _ _ _ _ _ _ _) as [rest cs2 ig2 a|w];
        [|destruct Hf as [Hf1 Hf2]; repeat split; try assumption; lia].
      destruct Hf as [Hc2 [Hi2 [Ha [Hb2 Ha2]]]].
      destruct (run_repl q rest o (mkmc s ps [] (m_body m) a []) cs2 ig2) as [|s'|w] eqn:Er.
      * exact I.
      * eapply run_repl_inv; [exact Hc2| |exact Ho| | | |exact Er].
        -- repeat split; cbn; try assumption; try reflexivity; try exact (Ht _ _ Ed).
        -- cbn. intros Hi. apply Hni. auto.
        -- congruence.
        -- congruence.
      * unfold run_repl in Er.
        destruct (proc_repl _ _ _ _ _ _); [destruct (do_concat _); [discriminate|]|discriminate].
        inversion Er; subst. repeat split; discriminate.
    + destruct (do_concat _ (add_tokens [] (m_body m))) as [l|] eqn:D; [|repeat split; discriminate].
      assert (Hl : clean l).
      { eapply do_concat_clean; [|exact D]. apply add_tokens_clean; [reflexivity|exact (Ht _ _ Ed)]. }
      destruct Hc as [H1 H2 H3 H4 H5]. split; [|split; [exact Ho|split]]; cbn [inp out calls ign].
      * constructor.
        -- rewrite markers_app, (markers_clean _ Hl). cbn. rewrite H1. reflexivity.
        -- rewrite names_R_cons_R by reflexivity. cbn [app mc_name]. rewrite H2. reflexivity.
        -- constructor; assumption.
        -- cbn. split; [discriminate|assumption].
        -- constructor; [|assumption]. repeat split; cbn; try reflexivity; constructor.
      * rewrite cb_app, (cb_clean _ Hl). rewrite cA_cons_R by reflexivity. cbn. exact Hcnt'.
      * apply nbh_zero. rewrite cb_app, (cb_clean _ Hl). exact Hz.
  - (* TEoa *)
    destruct Hc as [H1 H2 H3 H4 H5]. cbn in H1. destruct cs as [|mc cs]; [discriminate|].
    cbn in H1. inversion H1 as [[Hm Hr]]. symmetry in Hm.
    rewrite (cA_cons_A mc cs Hm) in Hcnt. change (cb (TEoa :: r)) with (cb r) in Hcnt.
    destruct (split_boa o []) as [[a o0]|] eqn:Es.
    2:{ (* impossible: the T_BOA of the waiting call is in the output buffer *)
        exfalso. assert (Hno : forall x acc, split_boa x acc = None -> cb x = 0).
        { induction x as [|y x IHx]; intros acc Hx; [reflexivity|].
          destruct y; cbn [split_boa] in Hx; try discriminate; unfold cb; cbn [filter is_boa]; apply (IHx _ Hx). }
        rewrite (Hno _ _ Es), Hz in Hcnt. discriminate. }
    destruct (split_boa_clean o [] a o0 Ho (eq_refl : clean []) Es) as [Ha [Ho0 Hcb]].
    inversion H5 as [|? ? [Hb [Hargs Hrest]] H5']; subst.
    rewrite names_R_cons_A in H3 |- * by exact Hm.
    destruct (run_repl q r o0 _ cs (names_R cs ++ ig0)) as [|s'|w] eqn:Er.
    + exact I.
    + eapply run_repl_inv; [| | | | | |exact Er].
      * constructor; [exact Hr|reflexivity|exact H3|exact (proj2 H4)|exact H5'].
      * repeat split; cbn; try assumption; apply add_tokens_clean; assumption.
      * exact Ho0.
      * cbn. exact (proj1 H4 Hm).
      * lia.
      * exact Hz.
    + unfold run_repl in Er.
      destruct (proc_repl _ _ _ _ _ _); [destruct (do_concat _); [discriminate|]|discriminate].
      inversion Er; subst. repeat split; discriminate.
  - (* TEor *)
    destruct (cinv_pop _ _ _ Hc) as [cs1 [ig1 [E [Hc1 [_ Ha1]]]]]. rewrite E.
    split; [assumption|split; [assumption|split]]; cbn [inp out calls];
      [change (cb (TEor :: r)) with (cb r) in Hcnt; congruence|apply nbh_zero; exact Hz].
Qed.

End Inv.

(* ---------- reachable states ---------- *)
Inductive reach (q : quirks) (d : defs) : state -> Prop :=
| reach_init : forall input, clean input -> reach q d (init input)
| reach_step : forall s s', reach q d s -> step q d s = Next s' -> reach q d s'.

Lemma init_inv : forall input, clean input -> inv [] (init input).
Proof.
  intros input H; split; [|split; [reflexivity|split]]; cbn [init inp out calls ign].
  - constructor; cbn; try constructor. apply markers_clean; assumption.
  - rewrite (cb_clean _ H). reflexivity.
  - apply nbh_zero, cb_clean, H.
Qed.

Lemma reach_inv : forall q d s, table_clean d -> reach q d s -> inv [] s.
Proof.
  intros q d s Ht H; induction H as [input Hi|s s' Hr IH E]; [apply init_inv; assumption|].
  pose proof (step_inv [] q d s Ht IH) as Hs. rewrite E in Hs. exact Hs.
Qed.

(* the calls on the stack are calls of macros of the table *)
Definition suffix (a b : list mcall) : Prop := exists pre, b = pre ++ a.
Lemma suffix_refl : forall a, suffix a a. Proof. intros a; exists []; reflexivity. Qed.
Lemma suffix_trans : forall a b c, suffix a b -> suffix b c -> suffix a c.
Proof. intros a b c [p1 H1] [p2 H2]; subst. exists (p2 ++ p1). rewrite app_assoc; reflexivity. Qed.
Lemma pop_suffix : forall cs ig cs' ig', pop_call cs ig = Some (cs', ig') -> suffix cs' cs.
Proof. intros [|mc cs] ig cs' ig' H; cbn in H; [discriminate|]. inversion H; subst. exists [mc]; reflexivity. Qed.
Lemma skip_suffix : forall i cs ig ws i' cs' ig' ws', skip_to_paren i cs ig ws = Some (i', cs', ig', ws') -> suffix cs' cs.
Proof.
  induction i as [|t i IH]; intros cs ig ws i' cs' ig' ws' E; cbn in E.
  - inversion E; subst; apply suffix_refl.
  - destruct t; try (inversion E; subst; apply suffix_refl); try (eapply IH; exact E).
    destruct (pop_call cs ig) as [[a b]|] eqn:P; [|discriminate].
    eapply suffix_trans; [eapply IH; exact E|eapply pop_suffix; exact P].
Qed.
Lemma find_args_suffix : forall q i cs ig plen var level va_p args arg nlp es r cs' ig' a,
  find_args q i cs ig plen var level va_p args arg nlp es = FaOk r cs' ig' a -> suffix cs' cs.
Proof.
  induction i as [|t i IH]; intros cs ig plen var level va_p args arg nlp es r cs' ig' a E; [discriminate|].
  destruct t; cbn [find_args] in E; try discriminate;
    try (repeat match type of E with
                | context [if ?b then _ else _] => destruct b
                | context [match fa_finish ?x ?y ?z with _ => _ end] => destruct (fa_finish x y z)
                end; try discriminate;
         first [inversion E; subst; apply suffix_refl | eapply IH; exact E]).
  destruct (q_single_eor q && es); [discriminate|].
  destruct (pop_call cs ig) as [[c1 g1]|] eqn:P; [|discriminate].
  eapply suffix_trans; [eapply IH; exact E|eapply pop_suffix; exact P].
Qed.

Definition in_table (d : defs) (cs : list mcall) : Prop := Forall (fun mc => d (mc_name mc) <> None) cs.
Lemma in_table_suffix : forall d a b, suffix a b -> in_table d b -> in_table d a.
Proof. intros d a b [p H] Hb; subst. unfold in_table in *. apply Forall_app in Hb; tauto. Qed.

Lemma run_repl_in_table : forall q d r o mc cs ig s', d (mc_name mc) <> None -> in_table d cs ->
  run_repl q r o mc cs ig = Next s' -> in_table d (calls s').
Proof.
  intros q d r o mc cs ig s' Hm Hc E; unfold run_repl in E.
  destruct (proc_repl _ _ _ _ _ _); [destruct (do_concat _); [|discriminate]|]; inversion E; subst; cbn;
    constructor; assumption.
Qed.

Lemma step_in_table : forall q d s s', in_table d (calls s) -> step q d s = Next s' -> in_table d (calls s').
Proof.
  intros q d [i o cs ig n] s' H E. unfold step in E; cbn [inp out calls ign nl] in *.
  destruct i as [|t r]; [discriminate|].
  destruct (n && is_punct sharp t); [discriminate|].
  destruct t; try (inversion E; subst; exact H).
  - destruct painted; [inversion E; subst; exact H|].
    destruct (d s) as [m|] eqn:Ed; [|inversion E; subst; exact H].
    destruct (ignored ig s); [inversion E; subst; exact H|].
    destruct (m_params m) as [ps|].
    + destruct (skip_to_paren r cs ig None) as [[[[i1 cs1] ig1] ws1]|] eqn:Es; [|discriminate].
      pose proof (in_table_suffix d _ _ (skip_suffix _ _ _ _ _ _ _ _ Es) H) as H1.
      destruct (match i1 with t1 :: _ => is_punct lparen t1 | [] => false end).
      * destruct (find_args q (tl i1) cs1 ig1 _ _ _ _ _ _ _ _) as [rest cs2 ig2 a|w] eqn:Ef; [|discriminate].
        eapply run_repl_in_table; [| |exact E]; [cbn; congruence|].
        eapply in_table_suffix; [eapply find_args_suffix; exact Ef|exact H1].
      * inversion E; subst; exact H1.
    + destruct (do_concat _); [|discriminate]. inversion E; subst; cbn. constructor; [cbn; congruence|exact H].
  - destruct cs as [|mc cs]; [discriminate|]. destruct (split_boa o []) as [[a o0]|]; [|discriminate].
    inversion H; subst. eapply run_repl_in_table; [| |exact E]; assumption.
  - destruct (pop_call cs ig) as [[c1 g1]|] eqn:P; [|discriminate]. inversion E; subst; cbn.
    eapply in_table_suffix; [eapply pop_suffix; exact P|exact H].
Qed.

Lemma reach_in_table : forall q d s, reach q d s -> in_table d (calls s).
Proof. intros q d s H; induction H as [|s s' _ IH E]; [constructor|eapply step_in_table; eassumption]. Qed.

Lemma names_R_incl : forall cs x, In x (names_R cs) -> exists mc, In mc cs /\ mc_name mc = x.
Proof.
  intros cs x H; unfold names_R in H. apply in_map_iff in H as [mc [E Hi]]. apply filter_In in Hi as [Hi _]. eauto.
Qed.

(* The painting discipline of function-like macros.  In every reachable state:
   - the names whose ignore_p flag is set are exactly the macros of the calls whose replacement list is being
     rescanned, no macro twice: a macro is never re-entered while its replacement is rescanned, so the depth of
     nested rescanning never exceeds the number of macros of the table;
   - the T_EOR / T_EOA markers in the pending input correspond one to one, in order, to the entries of
     macro_call_stack: pop_macro_call never finds the stack empty (the [Bad] codes 2, 4, 5, 12 of the model). *)
Lemma painting_discipline_lemma : forall q d s names, table_clean d -> (forall n, d n <> None -> In n names) ->
  reach q d s ->
  NoDup (ign s) /\ ign s = names_R (calls s) /\ length (ign s) <= length names /\
  markers (inp s) = map in_rescan (calls s).
Proof.
  intros q d s names Ht Hn Hr. destruct (reach_inv q d s Ht Hr) as [[H1 H2 H3 H4 H5] [Ho [Hcnt Hj]]]. rewrite app_nil_r in H2.
  repeat split; try assumption.
  apply NoDup_incl_length; [assumption|]. intros x Hx. apply Hn. rewrite H2 in Hx.
  destruct (names_R_incl _ _ Hx) as [mc [Hi E]]. pose proof (reach_in_table q d s Hr) as Hd.
  unfold in_table in Hd. rewrite Forall_forall in Hd. rewrite <- E. apply Hd; assumption.
Qed.

Lemma no_stack_underflow_lemma : forall q d s w, table_clean d -> reach q d s -> step q d s = Bad w ->
  w <> 2 /\ w <> 3 /\ w <> 4 /\ w <> 5 /\ w <> 12.
Proof. intros q d s w Ht Hr E. pose proof (step_inv [] q d s Ht (reach_inv q d s Ht Hr)) as H. rewrite E in H. exact H. Qed.

(* a name whose flag is set is not expanded but painted, and a painted identifier stays as it is, for ever *)
Lemma ignored_painted_lemma : forall q d o cs ig n s r m, d s = Some m -> ignored ig s = true ->
  step q d (mkst (TIdent false s :: r) o cs ig n) = Next (mkst r (TIdent true s :: o) cs ig false).
Proof. intros q d o cs ig n s r m Hd Hi. unfold step; cbn [inp nl out calls ign is_punct]. rewrite andb_false_r, Hd, Hi. reflexivity. Qed.

Lemma painted_not_expanded_lemma : forall q d o cs ig n s r,
  step q d (mkst (TIdent true s :: r) o cs ig n) = Next (mkst r (TIdent true s :: o) cs ig false).
Proof. intros. unfold step; cbn [inp nl out calls ign is_punct]. rewrite andb_false_r. reflexivity. Qed.

(* ====================================================================================== *)
(* Part 3: structure of the results of # and ##                                            *)
(* ====================================================================================== *)

(* ---------- # ---------- *)
(* destringizing as C11 6.10.9 words it: backslash-quote becomes a quote, two backslashes one *)
Fixpoint unesc (s : spelling) : spelling :=
  match s with
  | [] => []
  | c :: r => match r with
              | c' :: r' => if (c =? bs) && ((c' =? bs) || (c' =? dq)) then c' :: unesc r' else c :: unesc r
              | [] => [c]
              end
  end.

(* a string literal body is closed: no unescaped quote, no dangling backslash *)
Fixpoint str_closed (s : spelling) : bool :=
  match s with
  | [] => true
  | c :: r => if c =? dq then false
              else if c =? bs then match r with _ :: r' => str_closed r' | [] => false end
              else str_closed r
  end.

Definition plain (s : spelling) : bool := forallb (fun c => negb ((c =? dq) || (c =? bs))) s.
(* identifiers, numbers and punctuators contain neither a double quote nor a backslash; literals may contain anything *)
Definition strfy_ok (t : tok) : bool :=
  match t with TTok KStr _ | TTok KChr _ => true | _ => plain (spell t) end.
(* the spelling of a token list: the tokens, each run of white space as one space ([old]: one per token) *)
Fixpoint str_plain (old prev_ws : bool) (ts : list tok) : spelling :=
  match ts with
  | [] => []
  | t :: r => if is_ws t then (if negb old && prev_ws then [] else [32]) ++ str_plain old true r
              else spell t ++ str_plain old false r
  end.

Lemma unesc_cons_plain : forall c r, (c =? bs) = false -> unesc (c :: r) = c :: unesc r.
Proof. intros c r H; cbn [unesc]. destruct r as [|c' r']; [reflexivity|]. rewrite H; reflexivity. Qed.

Lemma unesc_escape_app : forall s r, unesc (escape s ++ r) = s ++ unesc r.
Proof.
  induction s as [|c s IH]; intros r; cbn [escape app]; [reflexivity|].
  destruct ((c =? dq) || (c =? bs)) eqn:E.
  - cbn [app unesc]. rewrite Nat.eqb_refl. cbn [andb]. rewrite orb_comm, E. rewrite IH. reflexivity.
  - cbn [app]. apply orb_false_iff in E as [_ E2]. rewrite unesc_cons_plain by exact E2. rewrite IH. reflexivity.
Qed.

Lemma unesc_plain_app : forall s r, plain s = true -> unesc (s ++ r) = s ++ unesc r.
Proof.
  induction s as [|c s IH]; intros r H; cbn [app]; [reflexivity|].
  cbn in H. apply andb_true_iff in H as [H1 H2]. apply negb_true_iff, orb_false_iff in H1 as [_ H1].
  rewrite unesc_cons_plain by exact H1. rewrite IH by exact H2. reflexivity.
Qed.

Lemma str_closed_escape_app : forall s r, str_closed (escape s ++ r) = str_closed r.
Proof.
  induction s as [|c s IH]; intros r; cbn [escape app]; [reflexivity|].
  destruct ((c =? dq) || (c =? bs)) eqn:E.
  - cbn [app str_closed]. cbn. apply IH.
  - cbn [app str_closed]. apply orb_false_iff in E as [E1 E2]. rewrite E1, E2. apply IH.
Qed.

Lemma str_closed_plain_app : forall s r, plain s = true -> str_closed (s ++ r) = str_closed r.
Proof.
  induction s as [|c s IH]; intros r H; cbn [app]; [reflexivity|].
  cbn in H. apply andb_true_iff in H as [H1 H2]. apply negb_true_iff, orb_false_iff in H1 as [E1 E2].
  cbn [str_closed]. rewrite E1, E2. apply IH; exact H2.
Qed.

(* C11 6.10.3.2p2: the result of # is ONE well-formed character string literal -- every double quote and backslash of a
   string literal or character constant of the argument is escaped, each run of white space between the
   argument's tokens is one space -- and it spells the argument: destringizing gives back the spelling of
   the argument's tokens. *)
Lemma stringify_spec : forall old ts, forallb strfy_ok ts = true ->
  exists body, stringify_toks old ts = TTok KStr (dq :: body ++ [dq]) /\
               str_closed body = true /\ unesc body = str_plain old false ts.
Proof.
  intros old ts H. exists (str_body old false ts). split; [reflexivity|].
  generalize false. induction ts as [|t ts IH]; intros pw; [split; reflexivity|].
  cbn in H. apply andb_true_iff in H as [Ht Hts]. cbn [str_body str_plain].
  destruct (is_ws t) eqn:Ew.
  - destruct (IH Hts true) as [I1 I2]. destruct (negb old && pw); cbn [app]; [split; assumption|].
    split; [cbn; exact I1|]. rewrite unesc_cons_plain by reflexivity. rewrite I2. reflexivity.
  - destruct (IH Hts false) as [I1 I2].
    destruct t as [p s|k s| | | | | | |]; cbn in Ew; try discriminate; unfold str_piece;
      try (cbn [spell]; split; [exact I1|rewrite I2; reflexivity]);
      try (cbn [strfy_ok spell] in Ht; split; [rewrite str_closed_plain_app by exact Ht; exact I1
                                              |rewrite unesc_plain_app by exact Ht; rewrite I2; reflexivity]).
    destruct k; cbn [strfy_ok spell] in Ht |- *;
      try (split; [rewrite str_closed_plain_app by exact Ht; exact I1
                  |rewrite unesc_plain_app by exact Ht; rewrite I2; reflexivity]);
      (split; [rewrite str_closed_escape_app; exact I1|rewrite unesc_escape_app, I2; reflexivity]).
Qed.

(* ---------- ## ---------- *)
Definition is_rdblno (t : tok) : bool := match t with TRDblNo => true | _ => false end.

Lemma classify_spell : forall s t, classify s = Some t -> spell t = s /\ is_rdblno t = false /\ is_plm t = false /\ is_ws t = false.
Proof.
  intros s t H; unfold classify in H. destruct s as [|c r]; [discriminate|].
  repeat match type of H with context [if ?b then _ else _] => destruct b end; try discriminate; inversion H; subst; cbn; auto.
Qed.

(* the token made by ## is spelled as its operands put together *)
Lemma token_concat_spell : forall a b t, token_concat a b = Some t -> spell t = spell a ++ spell b.
Proof. intros a b t H; unfold token_concat in H. apply classify_spell in H; tauto. Qed.

(* a property of tokens that placemarkers and pasted tokens have is kept by do_concat's loop *)
Lemma dc_pres : forall (old : bool) (P : tok -> bool), P TPlm = true ->
  (forall a b t, token_concat a b = Some t -> P t = true) ->
  forall n todo done l, length todo <= n ->
    forallb (fun t => P t || is_rdblno t) todo = true -> forallb P done = true ->
    dc old todo done = Some l -> forallb P l = true.
Proof.
  intros old P Hplm Hcat. induction n as [|n IH]; intros todo done l Hn Ht Hd H.
  - destruct todo; [|cbn in Hn; lia]. cbn in H; inversion H; subst; assumption.
  - destruct todo as [|t todo]; [cbn in H; inversion H; subst; assumption|].
    cbn in Hn. cbn [forallb] in Ht. apply andb_true_iff in Ht as [Ht1 Ht2].
    assert (Hsk : forall x, forallb (fun t => P t || is_rdblno t) x = true -> forallb (fun t => P t || is_rdblno t) (skip1 x) = true).
    { intros [|w x] Hx; cbn; [reflexivity|]. destruct (is_ws w); [cbn in Hx; apply andb_true_iff in Hx; tauto|exact Hx]. }
    assert (Hsk' : forall x, forallb P x = true -> forallb P (skip1 x) = true).
    { intros [|w x] Hx; cbn; [reflexivity|]. destruct (is_ws w); [cbn in Hx; apply andb_true_iff in Hx; tauto|exact Hx]. }
    assert (Hother : is_rdblno t = false -> dc old todo (t :: done) = Some l -> forallb P l = true).
    { intros Hr H'. eapply IH; [| | |exact H']; [lia|exact Ht2|]. cbn. rewrite Hr, orb_false_r in Ht1. rewrite Ht1; exact Hd. }
    destruct t; cbn [dc] in H; try (apply Hother; [reflexivity|exact H]). clear Hother.
    pose proof (Hsk' _ Hd) as Hd1.
    remember (skip1 done) as sd eqn:Esd. destruct sd as [|tj r]; [discriminate|].
    cbn in Hd1. apply andb_true_iff in Hd1 as [Hj Hr].
    pose proof (Hsk _ Ht2) as Hl1. pose proof (skip1_length todo) as Hlen.
    remember (skip1 todo) as st eqn:El. destruct st as [|tk l2]; [discriminate|].
    cbn in Hl1. apply andb_true_iff in Hl1 as [Hk Hl2]. cbn in Hlen.
    pose proof (skip1_length l2). pose proof (Hsk _ Hl2). pose proof (Hsk' _ Hr).
    destruct (is_plm tk).
    + destruct (is_plm tj).
      * destruct old; (eapply IH; [| | |exact H]; [lia|assumption|cbn; rewrite Hplm; assumption]).
      * destruct old; (eapply IH; [| | |exact H]; [lia|assumption|cbn; rewrite Hj; assumption]).
    + destruct (is_plm tj).
      * destruct old; (eapply IH; [| | |exact H]; [cbn; lia|cbn; rewrite Hk; assumption|assumption]).
      * destruct (token_concat tk tj) as [t'|] eqn:Ec; [|discriminate].
        eapply IH; [| | |exact H]; [lia|assumption|]. cbn. rewrite (Hcat _ _ _ Ec). assumption.
Qed.

(* whatever the buffer: the result of do_concat contains no ## and no placemarker any more *)
Lemma do_concat_no_paste_left : forall old l l', do_concat old l = Some l' ->
  forallb (fun t => negb (is_rdblno t) && negb (is_plm t)) l' = true.
Proof.
  intros old l l' E; unfold do_concat in E. destruct (dc old (rev l) []) as [x|] eqn:D; [|discriminate]. inversion E; subst.
  assert (Hx : forallb (fun t => negb (is_rdblno t)) x = true).
  { apply (dc_pres old (fun t => negb (is_rdblno t)) eq_refl) with (n := length (rev l)) (todo := rev l) (done := []);
      [|apply le_n| |reflexivity|exact D].
    - intros a b t H. unfold token_concat in H. apply classify_spell in H. destruct H as [_ [H _]]. rewrite H; reflexivity.
    - clear. induction (rev l) as [|t r IH]; [reflexivity|]. cbn. rewrite IH. destruct t; reflexivity. }
  clear D E. induction x as [|t x IH]; [reflexivity|]. cbn in Hx. apply andb_true_iff in Hx as [H1 H2].
  cbn. rewrite (IH H2). destruct t; cbn in *; try discriminate; reflexivity.
Qed.

(* a buffer without ## is only copied (placemarkers cannot be there: they are made for ## operands only) *)
Lemma dc_no_paste : forall old todo done, forallb (fun t => negb (is_rdblno t)) todo = true -> dc old todo done = Some (rev todo ++ done).
Proof.
  intros old. induction todo as [|t todo IH]; intros done H; [reflexivity|].
  cbn in H. apply andb_true_iff in H as [H1 H2].
  destruct t; cbn [dc]; try discriminate; rewrite IH by exact H2; cbn; rewrite <- app_assoc; reflexivity.
Qed.
Lemma do_concat_no_paste : forall old l, forallb (fun t => negb (is_rdblno t) && negb (is_plm t)) l = true -> do_concat old l = Some l.
Proof.
  intros old l H. unfold do_concat. rewrite dc_no_paste.
  - rewrite rev_involutive, app_nil_r. f_equal. induction l as [|t l IH]; [reflexivity|].
    cbn in H. apply andb_true_iff in H as [H1 H2]. cbn. rewrite (IH H2). destruct t; cbn in *; try discriminate; reflexivity.
  - rewrite forallb_forall in *. intros x Hx. apply in_rev in Hx. specialize (H x Hx). apply andb_true_iff in H; tauto.
Qed.

(* the algebra of one ## (C11 6.10.3.3p2-3): a placemarker operand disappears, two of them make one
   (which ends as nothing), two tokens are put together *)
Definition ord (t : tok) : bool := negb (is_rdblno t) && negb (is_plm t) && negb (is_ws t).
Lemma paste_two : forall a b, ord a = true -> ord b = true ->
  do_concat false [a; TRDblNo; b] = match token_concat a b with Some t => Some [t] | None => None end.
Proof.
  intros a b Ha Hb. unfold do_concat. cbn [rev app].
  destruct b; cbn in Hb; try discriminate; cbn [dc skip1 is_ws];
    destruct a; cbn in Ha; try discriminate; cbn [is_plm is_ws skip1];
    destruct (token_concat _ _) as [t|] eqn:E; try reflexivity;
    cbn; apply classify_spell in E; destruct E as [_ [_ [E _]]]; destruct t; cbn in *; try discriminate; reflexivity.
Qed.
Lemma paste_right_empty : forall a, ord a = true -> do_concat false [a; TRDblNo; TPlm] = Some [a].
Proof. intros a Ha. unfold do_concat. destruct a; cbn in Ha; try discriminate; reflexivity. Qed.
Lemma paste_left_empty : forall b, ord b = true -> do_concat false [TPlm; TRDblNo; b] = Some [b].
Proof. intros b Hb. unfold do_concat. destruct b; cbn in Hb; try discriminate; reflexivity. Qed.
Lemma paste_both_empty : do_concat false [TPlm; TRDblNo; TPlm] = Some [TSp].
Proof. reflexivity. Qed.

(* ---------- the answer does not depend on the fuel ---------- *)
Lemma run_fuel_mono : forall q d fuel k s, run q d fuel s <> OutOfFuel -> run q d (fuel + k) s = run q d fuel s.
Proof.
  induction fuel as [|f IH]; intros k s H; cbn in *; [congruence|].
  destruct (step q d s); try reflexivity. apply IH; exact H.
Qed.

(* ---------- the argument theorem without side conditions ---------- *)
Lemma run_end_inv : forall ig0 q d fuel s sF, table_clean d -> inv ig0 s -> run_end q d fuel s = Some sF ->
  inv ig0 sF /\ step q d sF = Done.
Proof.
  induction fuel as [|f IH]; intros s sF Ht Hi H; cbn in H; [discriminate|].
  destruct (step q d s) as [|s1|w] eqn:E; try discriminate.
  - inversion H; subst; split; assumption.
  - apply (IH s1 sF Ht); [|exact H]. pose proof (step_inv ig0 q d s Ht Hi) as Hs. rewrite E in Hs. exact Hs.
Qed.

Lemma iso_inv : forall arg ig, clean arg -> NoDup ig -> inv ig (mkst arg [] [] ig false).
Proof.
  intros arg ig Ha Hn. split; [|split; [reflexivity|split]]; cbn [inp out calls ign].
  - constructor; cbn; try constructor; [apply markers_clean; assumption|assumption].
  - rewrite (cb_clean _ Ha). reflexivity.
  - apply nbh_zero, cb_clean, Ha.
Qed.

Lemma cb_zero_notin : forall l, cb l = 0 -> ~ In TBoa l.
Proof.
  induction l as [|t l IH]; intros H Hi; [exact Hi|]. destruct Hi as [->|Hi]; [discriminate|].
  apply IH; [|exact Hi]. destruct t; cbn in H; try discriminate; exact H.
Qed.

Lemma done_complete : forall ig0 q d s, inv ig0 s -> step q d s = Done -> calls s = [] /\ ~ In TBoa (out s).
Proof.
  intros ig0 q d s [[H1 _ _ _ _] [_ [Hc _]]] E. pose proof (step_done_inp q d s E) as Hi. rewrite Hi in *. cbn in H1, Hc.
  assert (Hcs : calls s = []) by (destruct (calls s); [reflexivity|discriminate]).
  split; [exact Hcs|]. rewrite Hcs in Hc. cbn in Hc. apply cb_zero_notin; exact Hc.
Qed.

(* C11 6.10.3.1 for every table and every argument (a token list without markers): if the loop, run on the
   argument alone as if it were the file -- with the same macros being ignored -- reaches its end, then the run
   inside T_BOA ... T_EOA does the same iterations whatever follows the argument, whatever was output before and
   whichever calls are open, and what is appended to the call's repl_buffer at the T_EOA is the output of that run. *)
Theorem arg_expanded_in_isolation_full : forall q d fuel arg ig sF rest out0 mc cs nl0,
  table_clean d -> clean arg -> NoDup ig ->
  run_end q d fuel (mkst arg [] [] ig false) = Some sF ->
  exists n,
    steps q d (S n) (mkst (TBoa :: arg ++ TEoa :: rest) out0 (mc :: cs) ig nl0)
    = Some (mkst (TEoa :: rest) (out sF ++ TBoa :: out0) (mc :: cs) (ign sF) (nl sF))
    /\ step q d (mkst (TEoa :: rest) (out sF ++ TBoa :: out0) (mc :: cs) (ign sF) (nl sF))
       = run_repl q rest out0 (mkmc (mc_name mc) (mc_params mc) (mc_prev mc) (mc_rest mc) (mc_args mc)
                                    (add_tokens (mc_buf mc) (rev (out sF)))) cs (ign sF).
Proof.
  intros q d fuel arg ig sF rest out0 mc cs nl0 Ht Ha Hn H.
  destruct (run_end_inv ig q d fuel _ _ Ht (iso_inv arg ig Ha Hn) H) as [Hi Hd].
  destruct (done_complete ig q d sF Hi Hd) as [Hc Hb].
  eapply arg_expanded_in_isolation; eassumption.
Qed.

Lemma run_end_complete : forall ig0 q d fuel s sF, table_clean d -> inv ig0 s ->
  run_end q d fuel s = Some sF -> calls sF = [] /\ ~ In TBoa (out sF).
Proof.
  intros ig0 q d fuel s sF Ht Hi H. destruct (run_end_inv ig0 q d fuel s sF Ht Hi H) as [H1 H2].
  exact (done_complete ig0 q d sF H1 H2).
Qed.

(* ====================================================================================== *)
(* Part 4: start-of-line state after a function-like macro name that is not invoked        *)
(* ====================================================================================== *)
(* try_param_macro_call skips white space and end-of-replacement markers while it looks for `(`.  When there is no `(`
   the LAST skipped white-space token goes back in front of the input, so the main loop sees it: a new-line sets
   newln_p, and a `#` that follows starts a directive; a space does not. *)
Definition starts_with (c : nat) (i : list tok) : bool :=
  match i with t :: _ => is_punct c t | [] => false end.

Lemma step_uninvoked_name : forall q d s name m ps rest i cs ig ws,
  inp s = TIdent false name :: rest ->
  d name = Some m -> m_params m = Some ps -> ignored (ign s) name = false ->
  skip_to_paren rest (calls s) (ign s) None = Some (i, cs, ig, ws) ->
  starts_with lparen i = false ->
  step q d s = Next (mkst (match ws with Some w => w :: i | None => i end) (TIdent false name :: out s) cs ig false).
Proof.
  intros q d s name m ps rest i cs ig ws Hi Hd Hp Hg Hs Hl.
  unfold step. rewrite Hi. cbn [is_punct]. rewrite andb_false_r.
  rewrite Hd, Hg, Hp, Hs. unfold starts_with in Hl. rewrite Hl. reflexivity.
Qed.

Lemma skip_to_paren_ws : forall rest cs ig w0 i cs' ig' ws,
  skip_to_paren rest cs ig w0 = Some (i, cs', ig', ws) ->
  (ws = None \/ ws = Some TSp \/ ws = Some TNl) \/ ws = w0.
Proof.
  induction rest as [|t r IH]; intros cs ig w0 i cs' ig' ws H; cbn in H.
  - inversion H; subst; right; reflexivity.
  - destruct t; try (inversion H; subst; right; reflexivity).
    + apply IH in H. destruct H as [H|H]; [left; exact H|left; right; left; exact H].
    + apply IH in H. destruct H as [H|H]; [left; exact H|left; right; right; exact H].
    + destruct (pop_call cs ig) as [[cs1 ig1]|]; [|discriminate]. apply IH in H. exact H.
Qed.

(* the name, then a run of white space / end-of-replacement markers whose last white-space token is a new-line, then `#`:
   the `#` is taken as the start of a directive (the model leaves its domain with [Bad 1]) -- whatever the run was *)
Theorem directive_after_uninvoked_name_l : forall q d s name m ps rest r cs ig fuel,
  inp s = TIdent false name :: rest ->
  d name = Some m -> m_params m = Some ps -> ignored (ign s) name = false ->
  skip_to_paren rest (calls s) (ign s) None = Some (TTok KPunct [sharp] :: r, cs, ig, Some TNl) ->
  run q d (3 + fuel) s = Err 1.
Proof.
  intros q d s name m ps rest r cs ig fuel Hi Hd Hp Hg Hs.
  cbn [plus run].
  rewrite (step_uninvoked_name q d s name m ps rest _ cs ig (Some TNl) Hi Hd Hp Hg Hs eq_refl).
  cbn. reflexivity.
Qed.

(* ... and when the last skipped white-space token is a space (or there is none) the `#` is an ordinary token: it is
   sent to the output and the loop goes on with what follows it *)
Theorem no_directive_after_uninvoked_name_on_the_same_line_l : forall q d s name m ps rest r cs ig ws,
  inp s = TIdent false name :: rest ->
  d name = Some m -> m_params m = Some ps -> ignored (ign s) name = false ->
  skip_to_paren rest (calls s) (ign s) None = Some (TTok KPunct [sharp] :: r, cs, ig, ws) ->
  ws <> Some TNl ->
  exists k o, (forall fuel, run q d (k + fuel) s = run q d fuel (mkst r (TTok KPunct [sharp] :: o) cs ig false))
              /\ (o = TIdent false name :: out s \/ o = TSp :: TIdent false name :: out s).
Proof.
  intros q d s name m ps rest r cs ig ws Hi Hd Hp Hg Hs Hw.
  pose proof (skip_to_paren_ws _ _ _ _ _ _ _ _ Hs) as Hc.
  pose proof (step_uninvoked_name q d s name m ps rest _ cs ig ws Hi Hd Hp Hg Hs eq_refl) as E.
  destruct Hc as [[Hc|[Hc|Hc]]|Hc]; subst ws; try congruence.
  - exists 2; eexists; split; [|left; reflexivity]. intro fuel. cbn [plus run]. rewrite E. reflexivity.
  - exists 3; eexists; split; [|right; reflexivity]. intro fuel. cbn [plus run]. rewrite E. reflexivity.
  - exists 2; eexists; split; [|left; reflexivity]. intro fuel. cbn [plus run]. rewrite E. reflexivity.
Qed.

(* the new-line that was pushed back is the next thing the loop sees, and it is passed on to the output *)
Theorem uninvoked_name_keeps_the_newline_l : forall q d s name m ps rest i cs ig,
  inp s = TIdent false name :: rest ->
  d name = Some m -> m_params m = Some ps -> ignored (ign s) name = false ->
  skip_to_paren rest (calls s) (ign s) None = Some (i, cs, ig, Some TNl) ->
  starts_with lparen i = false ->
  exists s1 s2, step q d s = Next s1 /\ step q d s1 = Next s2 /\
                inp s2 = i /\ out s2 = TNl :: TIdent false name :: out s /\ nl s2 = true /\ calls s2 = cs /\ ign s2 = ig.
Proof.
  intros q d s name m ps rest i cs ig Hi Hd Hp Hg Hs Hl.
  eexists; eexists; split; [eapply step_uninvoked_name; eauto|].
  cbn. repeat split; reflexivity.
Qed.

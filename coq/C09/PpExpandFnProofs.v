(* C09: proofs about the function-like macro expansion model PpExpandFn. *)
From Coq Require Import String Ascii List Arith Bool Lia.
From MirV Require Import C09.PpExpandFn.
Import ListNotations.
Local Open Scope nat_scope.

(* ====================================================================================== *)
(* Part 1: an argument is completely macro-replaced before substitution (C11 6.10.3.1)     *)
(* ====================================================================================== *)

(* [run_end]: the state in which the main loop finds the end of its input *)
Fixpoint run_end (q : quirks) (d : defs) (fuel : nat) (s : state) : option state :=
  match fuel with
  | O => None
  | S f => match step q d s with
           | Done => Some s
           | Next s' => run_end q d f s'
           | Bad _ => None
           end
  end.

Lemma run_end_run : forall q d fuel s sF, run_end q d fuel s = Some sF -> run q d fuel s = Out (rev (out sF)).
Proof.
  induction fuel as [|f IH]; intros s sF H; cbn in *; [discriminate|].
  destruct (step q d s) eqn:E; try discriminate.
  - inversion H; subst; reflexivity.
  - apply IH; assumption.
Qed.

Lemma run_run_end : forall q d fuel s l, run q d fuel s = Out l -> exists sF, run_end q d fuel s = Some sF /\ l = rev (out sF).
Proof.
  induction fuel as [|f IH]; intros s l H; cbn in *; [discriminate|].
  destruct (step q d s) eqn:E; try discriminate.
  - inversion H; subst. eexists; split; reflexivity.
  - apply IH; assumption.
Qed.

(* exactly n iterations of the loop *)
Fixpoint steps (q : quirks) (d : defs) (n : nat) (s : state) : option state :=
  match n with
  | O => Some s
  | S k => match step q d s with Next s' => steps q d k s' | _ => None end
  end.

(* a state seen from inside an argument: more input behind the T_EOA, more output before the T_BOA,
   more macro calls below *)
Definition frame (sfx outF : list tok) (csF : list mcall) (s : state) : state :=
  mkst (inp s ++ sfx) (out s ++ outF) (calls s ++ csF) (ign s) (nl s).

Section Frame.
Variable q : quirks.
Variable d : defs.
Variables (rest outF : list tok) (csF : list mcall).
Let sfx := TEoa :: rest.

Lemma pop_call_frame : forall cs ig cs' ig',
  pop_call cs ig = Some (cs', ig') -> pop_call (cs ++ csF) ig = Some (cs' ++ csF, ig').
Proof. intros [|mc cs] ig cs' ig' H; cbn in *; [discriminate|]. inversion H; subst; reflexivity. Qed.

Lemma skip_frame : forall i cs ig ws i' cs' ig' ws',
  skip_to_paren i cs ig ws = Some (i', cs', ig', ws') ->
  skip_to_paren (i ++ sfx) (cs ++ csF) ig ws = Some (i' ++ sfx, cs' ++ csF, ig', ws').
Proof.
  induction i as [|t i IH]; intros cs ig ws i' cs' ig' ws' H.
  - cbn in H. inversion H; subst. reflexivity.
  - destruct t; cbn [skip_to_paren app] in *; try (inversion H; subst; reflexivity).
    + apply IH; assumption.
    + apply IH; assumption.
    + destruct (pop_call cs ig) as [[cs1 ig1]|] eqn:E; [|discriminate].
      rewrite (pop_call_frame _ _ _ _ E). apply IH; assumption.
Qed.

Lemma find_args_frame : forall i cs ig plen var level va_p args arg nlp es r cs' ig' a,
  find_args q i cs ig plen var level va_p args arg nlp es = FaOk r cs' ig' a ->
  find_args q (i ++ sfx) (cs ++ csF) ig plen var level va_p args arg nlp es = FaOk (r ++ sfx) (cs' ++ csF) ig' a.
Proof.
  induction i as [|t i IH]; intros cs ig plen var level va_p args arg nlp es r cs' ig' a H; [discriminate|].
  destruct t; cbn [find_args app] in *;
    try discriminate;
    try (repeat match type of H with
                | context [if ?b then _ else _] => destruct b eqn:?
                | context [match fa_finish ?a ?b ?c with _ => _ end] => destruct (fa_finish a b c) eqn:?
                end; try discriminate;
         first [ inversion H; subst; reflexivity | apply IH; assumption ]).
  (* TEor *)
  destruct (q_single_eor q && es); [discriminate|].
  destruct (pop_call cs ig) as [[cs1 ig1]|] eqn:E; [|discriminate].
  rewrite (pop_call_frame _ _ _ _ E). apply IH; assumption.
Qed.

Lemma split_boa_frame : forall o acc a o', split_boa o acc = Some (a, o') -> split_boa (o ++ outF) acc = Some (a, o' ++ outF).
Proof.
  induction o as [|t o IH]; intros acc a o' H; [discriminate|].
  destruct t; cbn [split_boa app] in *; try (apply IH; assumption).
  inversion H; subst; reflexivity.
Qed.

Lemma run_repl_frame : forall r out0 mc cs ig s',
  run_repl r out0 mc cs ig = Next s' ->
  run_repl (r ++ sfx) (out0 ++ outF) mc (cs ++ csF) ig = Next (frame sfx outF csF s').
Proof.
  unfold run_repl; intros r out0 mc cs ig s' H.
  destruct (proc_repl _ _ _ _ _ _) as [args buf|i prev rs args buf].
  - destruct (do_concat buf); [|discriminate]. inversion H; subst. unfold frame; cbn.
    rewrite <- app_assoc. reflexivity.
  - inversion H; subst. unfold frame; cbn. rewrite <- app_assoc. reflexivity.
Qed.

Lemma frame_inp_cons : forall s t r, inp s = t :: r -> inp (frame sfx outF csF s) = t :: (r ++ sfx).
Proof. intros s t r H; unfold frame; cbn; rewrite H; reflexivity. Qed.

(* one iteration inside the frame is the same iteration *)
Lemma step_frame : forall s s', step q d s = Next s' -> step q d (frame sfx outF csF s) = Next (frame sfx outF csF s').
Proof.
  intros [i o cs ig n] s' H. unfold step in *. cbn [inp out calls ign nl frame] in *.
  destruct i as [|t r]; [discriminate|]. cbn [app].
  destruct (n && is_punct sharp t); [discriminate|].
  destruct t.
  - (* identifier *)
    destruct painted.
    + inversion H; subst; reflexivity.
    + destruct (d s) as [m|]; [|inversion H; subst; reflexivity].
      destruct (ignored ig s); [inversion H; subst; reflexivity|].
      destruct (m_params m) as [ps|].
      * destruct (skip_to_paren r cs ig None) as [[[[i1 cs1] ig1] ws1]|] eqn:E; [|discriminate].
        rewrite (skip_frame _ _ _ _ _ _ _ _ E).
        destruct i1 as [|t1 i1].
        { inversion H; subst. unfold frame; cbn. destruct ws1; reflexivity. }
        cbn [app tl]. cbn [tl] in H.
        destruct (is_punct lparen t1).
        -- destruct (find_args q i1 cs1 ig1 _ _ _ _ _ _ _ _) as [rr cs2 ig2 a|w] eqn:F; [|discriminate].
           rewrite (find_args_frame _ _ _ _ _ _ _ _ _ _ _ _ _ _ _ F).
           apply run_repl_frame; assumption.
        -- inversion H; subst. unfold frame; cbn. destruct ws1; reflexivity.
      * destruct (do_concat (add_tokens [] (m_body m))); [|discriminate].
        inversion H; subst. unfold frame; cbn. rewrite <- app_assoc. reflexivity.
  - inversion H; subst; reflexivity.
  - inversion H; subst; reflexivity.
  - inversion H; subst; reflexivity.
  - inversion H; subst; reflexivity.
  - inversion H; subst; reflexivity.
  - inversion H; subst; reflexivity.
  - (* TEoa *)
    destruct cs as [|mc cs]; [discriminate|]. cbn [app].
    destruct (split_boa o []) as [[a o0]|] eqn:E; [|discriminate].
    rewrite (split_boa_frame _ _ _ _ E). apply run_repl_frame; assumption.
  - (* TEor *)
    destruct (pop_call cs ig) as [[cs1 ig1]|] eqn:E; [|discriminate].
    rewrite (pop_call_frame _ _ _ _ E). inversion H; subst; reflexivity.
Qed.

Lemma step_done_inp : forall s, step q d s = Done -> inp s = [].
Proof.
  intros [i o cs ig n] H. unfold step in H; cbn in H. destruct i as [|t r]; [reflexivity|exfalso].
  destruct (n && is_punct sharp t); [discriminate|].
  repeat match type of H with
         | context [match ?x with _ => _ end] => destruct x eqn:?; try discriminate
         end.
  all: unfold run_repl in *;
    repeat match goal with
           | H : context [match ?x with _ => _ end] |- _ => destruct x eqn:?; try discriminate
           end.
Qed.

Lemma frame_run_end : forall fuel s sF, run_end q d fuel s = Some sF ->
  inp sF = [] /\ exists n, n < fuel /\ steps q d n (frame sfx outF csF s) = Some (frame sfx outF csF sF).
Proof.
  induction fuel as [|f IH]; intros s sF H; cbn in H; [discriminate|].
  destruct (step q d s) as [|s1|w] eqn:E; try discriminate.
  - inversion H; subst. split; [apply step_done_inp; assumption|]. exists 0; split; [lia|reflexivity].
  - destruct (IH _ _ H) as [Hi [n [Hn Hs]]]. split; [assumption|].
    exists (S n); split; [lia|]. cbn. rewrite (step_frame _ _ E). assumption.
Qed.

End Frame.

Lemma split_boa_app : forall o acc outF, ~ In TBoa o -> split_boa (o ++ TBoa :: outF) acc = Some (rev o ++ acc, outF).
Proof.
  induction o as [|t o IH]; intros acc outF Hn; cbn; [reflexivity|].
  assert (Ht : t <> TBoa) by (intros ->; apply Hn; left; reflexivity).
  assert (Ho : ~ In TBoa o) by (intros Hi; apply Hn; right; assumption).
  destruct t; try congruence; rewrite IH by assumption; rewrite <- app_assoc; reflexivity.
Qed.

(* C11 6.10.3.1: "A parameter in the replacement list, unless preceded by a # or ## preprocessing token or
   followed by a ## preprocessing token, is replaced by the corresponding argument after all macros contained
   therein have been expanded.  Before being substituted, each argument's preprocessing tokens are completely
   macro replaced as if they formed the rest of the preprocessing file; no other preprocessing tokens are
   available."

   (1) process_replacement asks for the expansion of an argument exactly for such parameters, and passes the
       argument on unexpanded (stringified / as ## operand) for the others: [proc_repl_param] below.
   (2) When it asks (state: T_BOA arg T_EOA rest, the call mc on the stack), the loop works on the argument
       exactly as it works on a file consisting of the argument alone -- whatever follows the argument, whatever
       was output before, whichever calls are active below -- and what is appended to mc's repl_buffer at the
       T_EOA is the output of that isolated run. *)
Theorem arg_expanded_in_isolation : forall q d fuel arg ig sF rest out0 mc cs nl0,
  run_end q d fuel (mkst arg [] [] ig false) = Some sF ->       (* the argument alone, as a file *)
  calls sF = [] -> ~ In TBoa (out sF) ->
  exists n,
    steps q d (S n) (mkst (TBoa :: arg ++ TEoa :: rest) out0 (mc :: cs) ig nl0)
    = Some (mkst (TEoa :: rest) (out sF ++ TBoa :: out0) (mc :: cs) (ign sF) (nl sF))
    /\ step q d (mkst (TEoa :: rest) (out sF ++ TBoa :: out0) (mc :: cs) (ign sF) (nl sF))
       = run_repl rest out0 (mkmc (mc_name mc) (mc_params mc) (mc_prev mc) (mc_rest mc) (mc_args mc)
                                  (add_tokens (mc_buf mc) (rev (out sF)))) cs (ign sF).
Proof.
  intros q d fuel arg ig sF rest out0 mc cs nl0 H Hc Hb.
  destruct (frame_run_end q d rest (TBoa :: out0) (mc :: cs) _ _ _ H) as [Hi [n [_ Hs]]].
  exists n. split.
  - cbn [steps]. unfold step at 1; cbn [inp nl out calls ign].
    replace (nl0 && is_punct sharp TBoa) with false by (destruct nl0; reflexivity).
    unfold out_tok; cbn [out calls ign]. unfold frame in Hs; cbn in Hs.
    rewrite Hs. rewrite Hi, Hc. reflexivity.
  - unfold step; cbn [inp nl out calls ign].
    replace (nl sF && is_punct sharp TEoa) with false by (destruct (nl sF); reflexivity).
    rewrite split_boa_app by assumption. rewrite app_nil_r. reflexivity.
Qed.

(* (1): which parameters are expanded first.  One unfolding of the loop of process_replacement at a parameter. *)
Lemma proc_repl_param : forall ps prev rest' shp args buf s i,
  find_param ps s = Some i ->
  proc_repl ps prev (TIdent false s :: rest') shp args buf =
  match shp with
  | Some p =>                                                   (* # parameter: the spelling of the argument *)
      proc_repl ps (TIdent false s :: prev) rest' None (set_nth i (strip_ws1 (nth i args [])) args)
                (add_token (firstn p buf) (stringify_toks (strip_ws1 (nth i args []))))
  | None =>
      if paste_operand prev rest' then                          (* operand of ##: the argument as it is *)
        if empty_arg (nth i args []) then proc_repl ps (TIdent false s :: prev) rest' None args (add_token buf TPlm)
        else proc_repl ps (TIdent false s :: prev) rest' None args (add_tokens buf (nth i args []))
      else PrArg i (TIdent false s :: prev) rest' args buf      (* otherwise: expand the argument first *)
  end.
Proof. intros ps prev rest' shp args buf s i H. cbn [proc_repl]. rewrite H. reflexivity. Qed.

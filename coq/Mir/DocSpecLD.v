(* DocSpecLD: documented semantics of the CONVERSIONS from and to long double (MIR.md "MIR floating point insns":
   I2LD UI2LD F2LD D2LD LD2F LD2D LD2I), on top of Flocq, for the x87 80-bit extended format that `long double` is on
   x86-64 (64-bit significand with an explicit integer bit, 15-bit exponent, bias 16383).  A separate function
   [doc_sem_ld]; [DocSpec.doc_sem] is unchanged (long double ARITHMETIC still has no Coq meaning there).

   Conversions are C-like: integer -> LD and F/D -> LD are exact (every int64/uint64/float/double is an extended
   number); LD -> F / D round ONCE to nearest even (overflow to infinity, gradual underflow); LD -> I truncates
   toward zero, None outside int64, for NaN and infinities.  Patterns the x87 treats as invalid operands (unnormals,
   pseudo-denormals, pseudo-NaN / pseudo-infinity: integer bit inconsistent with the exponent) -> None.
   NaN results are "some NaN" (compare with [ld_is_nan] / is_nan32 / is_nan64). *)
From Coq Require Import ZArith List Bool.
From Flocq Require Import Core.Zaux IEEE754.BinarySingleNaN IEEE754.Binary IEEE754.Bits.
From MirV Require Import Base.W64 Mir.Opcode Mir.DocSpecInt Mir.DocSpecFloat.
Import ListNotations.
Local Open Scope Z_scope.

Lemma prec64 : FLX.Prec_gt_0 64. Proof. reflexivity. Qed.
Lemma emax16384 : Prec_lt_emax 64 16384. Proof. reflexivity. Qed.

Definition binary80 := Binary.binary_float 64 16384.
Definition norm80 (m e : Z) (s : bool) : binary80 := Binary.binary_normalize 64 16384 prec64 emax16384 mode_NE m e s.

Inductive ldval := LDnan | LDinvalid | LDnum (x : binary80).

(* value = significand * 2^(max(e,1) - 16383 - 63); 2^-16445 is the least denormal (= Flocq's emin for (64, 16384)) *)
Definition ld_decode (z : Z) : ldval :=
  let z := uwrap 80 z in
  let s := Z.testbit z 79 in
  let e := Z.land (Z.shiftr z 64) 32767 in
  let m := Z.land z (2 ^ 64 - 1) in
  let j := Z.testbit m 63 in
  if e =? 32767 then
    (if negb j then LDinvalid else if m =? 2 ^ 63 then LDnum (Binary.B754_infinity 64 16384 s) else LDnan)
  else if e =? 0 then
    (if j then LDinvalid else if m =? 0 then LDnum (Binary.B754_zero 64 16384 s)
     else LDnum (norm80 (cond_Zopp s m) (-16445) s))
  else if negb j then LDinvalid
  else LDnum (norm80 (cond_Zopp s m) (e - 16446) s).

Definition ld_sign (s : bool) : Z := if s then 2 ^ 79 else 0.
Definition ld_qnan : Z := 32767 * 2 ^ 64 + 2 ^ 63 + 2 ^ 62.

Definition ld_encode (x : binary80) : Z :=
  match x with
  | Binary.B754_zero _ _ s => ld_sign s
  | Binary.B754_infinity _ _ s => ld_sign s + 32767 * 2 ^ 64 + 2 ^ 63
  | Binary.B754_nan _ _ _ _ _ => ld_qnan
  | Binary.B754_finite _ _ s m e _ =>
      ld_sign s + (if Zpos m <? 2 ^ 63 then 0 else (e + 16446) * 2 ^ 64) + Zpos m
  end.

Definition ld_is_nan (z : Z) : bool := match ld_decode z with LDnan => true | _ => false end.

Definition z2ld (z : Z) : Z := ld_encode (norm80 z 0 false).

Definition f2ld (a : Z) : Z :=
  match f_of a with
  | Binary.B754_zero _ _ s => ld_sign s
  | Binary.B754_infinity _ _ s => ld_sign s + 32767 * 2 ^ 64 + 2 ^ 63
  | Binary.B754_nan _ _ _ _ _ => ld_qnan
  | Binary.B754_finite _ _ s m e _ => ld_encode (norm80 (cond_Zopp s (Zpos m)) e s)
  end.
Definition d2ld (a : Z) : Z :=
  match d_of a with
  | Binary.B754_zero _ _ s => ld_sign s
  | Binary.B754_infinity _ _ s => ld_sign s + 32767 * 2 ^ 64 + 2 ^ 63
  | Binary.B754_nan _ _ _ _ _ => ld_qnan
  | Binary.B754_finite _ _ s m e _ => ld_encode (norm80 (cond_Zopp s (Zpos m)) e s)
  end.

Definition ld2f (a : Z) : option Z :=
  match ld_decode a with
  | LDinvalid => None
  | LDnan => Some (of_f qnan32)
  | LDnum x =>
      Some (of_f (match x with
                  | Binary.B754_zero _ _ s => Binary.B754_zero 24 128 s
                  | Binary.B754_infinity _ _ s => Binary.B754_infinity 24 128 s
                  | Binary.B754_nan _ _ _ _ _ => qnan32
                  | Binary.B754_finite _ _ s m e _ =>
                      Binary.binary_normalize 24 128 prec24 emax128 mode_NE (cond_Zopp s (Zpos m)) e s
                  end))
  end.
Definition ld2d (a : Z) : option Z :=
  match ld_decode a with
  | LDinvalid => None
  | LDnan => Some (of_d qnan64)
  | LDnum x =>
      Some (of_d (match x with
                  | Binary.B754_zero _ _ s => Binary.B754_zero 53 1024 s
                  | Binary.B754_infinity _ _ s => Binary.B754_infinity 53 1024 s
                  | Binary.B754_nan _ _ _ _ _ => qnan64
                  | Binary.B754_finite _ _ s m e _ =>
                      Binary.binary_normalize 53 1024 prec53 emax1024 mode_NE (cond_Zopp s (Zpos m)) e s
                  end))
  end.
Definition ld2i (a : Z) : option Z :=
  match ld_decode a with
  | LDnum x =>
      if Binary.is_finite 64 16384 x then
        let t := Binary.Btrunc 64 16384 x in
        if (- 2 ^ 63 <=? t) && (t <? 2 ^ 63) then Some (u64 t) else None
      else None
  | _ => None
  end.

Definition doc_sem_ld (op : opcode) (args : list Z) : option Z :=
  match op, args with
  | I2LD, [a] => Some (z2ld (s64 a))
  | UI2LD, [a] => Some (z2ld (u64 a))
  | F2LD, [a] => Some (f2ld a)
  | D2LD, [a] => Some (d2ld a)
  | LD2F, [a] => ld2f a
  | LD2D, [a] => ld2d a
  | LD2I, [a] => ld2i a
  | _, _ => None
  end.

(* ---- sanity examples: 1.0, the midpoint of two floats and its two neighbours (the +-1 is in the LAST of the 64
   significand bits: a detour through double loses it and produces the tie), limits of int64, denormal results *)
Example ex_i2ld : doc_sem_ld I2LD [1] = Some 0x3fff8000000000000000.                         Proof. vm_compute. reflexivity. Qed.
Example ex_i2ld_m1 : doc_sem_ld I2LD [-1] = Some 0xbfff8000000000000000.                     Proof. vm_compute. reflexivity. Qed.
Example ex_ui2ld : doc_sem_ld UI2LD [-1] = Some 0x403effffffffffffffff.                      Proof. vm_compute. reflexivity. Qed.
Example ex_f2ld_den : doc_sem_ld F2LD [1] = Some 0x3f6a8000000000000000.                     Proof. vm_compute. reflexivity. Qed.
Example ex_d2ld : doc_sem_ld D2LD [0xc000000000000000] = Some 0xc0008000000000000000.        Proof. vm_compute. reflexivity. Qed.
Example ex_ld2f_tie : doc_sem_ld LD2F [0x3fff8000008000000000] = Some 0x3f800000.            Proof. vm_compute. reflexivity. Qed.
Example ex_ld2f_tie_up : doc_sem_ld LD2F [0x3fff8000008000000001] = Some 0x3f800001.         Proof. vm_compute. reflexivity. Qed.
Example ex_ld2f_tie_dn : doc_sem_ld LD2F [0x3fff8000017fffffffff] = Some 0x3f800001.         Proof. vm_compute. reflexivity. Qed.
Example ex_ld2d_tie_up : doc_sem_ld LD2D [0x3fff8000000000000401] = Some 0x3ff0000000000001. Proof. vm_compute. reflexivity. Qed.
Example ex_ld2d_inf : doc_sem_ld LD2D [0x43feffffffffffffffff] = Some 0x7ff0000000000000.    Proof. vm_compute. reflexivity. Qed.
Example ex_ld2d_den : doc_sem_ld LD2D [0x3bcd8000000000000000] = Some 0x0000000000000001.    Proof. vm_compute. reflexivity. Qed.
Example ex_ld2d_zero : doc_sem_ld LD2D [0x3bcc8000000000000000] = Some 0.                    Proof. vm_compute. reflexivity. Qed.
Example ex_ld2i_min : doc_sem_ld LD2I [0xc03e8000000000000000] = Some (2 ^ 63).              Proof. vm_compute. reflexivity. Qed.
Example ex_ld2i_out : doc_sem_ld LD2I [0x403e8000000000000000] = None.                       Proof. vm_compute. reflexivity. Qed.
Example ex_ld2i_frac : doc_sem_ld LD2I [0xbffeffffffffffffffff] = Some 0.                    Proof. vm_compute. reflexivity. Qed.
Example ex_ld2i_odd : doc_sem_ld LD2I [0x403dfffffffffffffffe] = Some (2 ^ 63 - 1).          Proof. vm_compute. reflexivity. Qed.
Example ex_ld_unnormal : doc_sem_ld LD2D [0x3fff0000000000000001] = None.                    Proof. vm_compute. reflexivity. Qed.
Example ex_ld_nan : ld_is_nan 0x7fffc000000000000000 = true.                                 Proof. vm_compute. reflexivity. Qed.

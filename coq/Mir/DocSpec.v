(* DocSpec: the documented semantics of MIR instructions -- the independent oracle of properties
   C02 / C20 (and the instruction layer of the reference interpreter of C01/C04).  Written only
   from /repo/MIR.md, not from any engine.  Integer part: DocSpecInt.v (axiom-free); single/double
   part: DocSpecFloat.v (Flocq).  This file is the stable interface:

     doc_sem        : opcode -> list Z -> option Z      value of a non-control value instruction
     doc_branch     : opcode -> list Z -> option bool   is a (compare-and-)branch taken
     doc_ovf        : opcode -> list Z -> option (Z * bool * bool)   ADDO.. : result, signed, unsigned flag
     ovf_defined    : opcode -> bool * bool             which flags the insn defines
     doc_ovf_branch : opcode -> bool -> bool -> option bool          BO BNO UBO UBNO
     res_kind / arg_kinds : value kinds of result and input operands
     res_mask       : opcode -> Z                       the result bits MIR.md defines
     eqv            : opcode -> Z -> Z -> bool          equal on the defined bits (NaN ~ NaN for F/D results)
     load_ext / store_trunc : mir_type -> ...           memory operand extension / truncation

   Conventions: values are bit patterns in Z (64-bit integers; F = binary32 pattern; D = binary64
   pattern; LD = opaque 80-bit x87 pattern).  [args] are the *input* operands in instruction order
   (label operands of branches omitted).  Inputs need not be reduced; results are canonical
   (0 <= r < 2^64, resp. 2^32 for F, 2^80 for LD).  None = MIR.md gives no meaning (see
   DocSpecInt/DocSpecFloat headers) or the opcode is not of that class.  Everything is executable
   and extraction-friendly (ExtrOcamlBasic only). *)
From Coq Require Import ZArith List Bool.
From MirV Require Export Base.W64 Mir.Opcode Mir.DocSpecInt Mir.DocSpecFloat.
Import ListNotations.
Local Open Scope Z_scope.

Inductive vkind := KI | KF | KD | KLD.

(* kind of the value an instruction writes to its first operand (None: no value result) *)
Definition res_kind (op : opcode) : option vkind :=
  match op with
  | FMOV | I2F | UI2F | D2F | LD2F | FNEG | FADD | FSUB | FMUL | FDIV => Some KF
  | DMOV | I2D | UI2D | F2D | LD2D | DNEG | DADD | DSUB | DMUL | DDIV => Some KD
  | LDMOV | I2LD | UI2LD | F2LD | D2LD | LDNEG | LDADD | LDSUB | LDMUL | LDDIV => Some KLD
  | F2I | D2I | LD2I
  | FEQ | DEQ | LDEQ | FNE | DNE | LDNE | FLT | DLT | LDLT | FLE | DLE | LDLE
  | FGT | DGT | LDGT | FGE | DGE | LDGE => Some KI
  | _ => match int_class op, ovf_class op with
         | IC_none, None => None
         | _, _ => Some KI
         end
  end.

(* kinds of the input operands (value insns, overflow insns and branches; labels omitted) *)
Definition arg_kinds (op : opcode) : list vkind :=
  match op with
  | FMOV | FNEG | F2I | F2D | F2LD => [KF]
  | DMOV | DNEG | D2I | D2F | D2LD => [KD]
  | LDMOV | LDNEG | LD2I | LD2F | LD2D => [KLD]
  | I2F | I2D | I2LD | UI2F | UI2D | UI2LD => [KI]
  | FADD | FSUB | FMUL | FDIV | FEQ | FNE | FLT | FLE | FGT | FGE
  | FBEQ | FBNE | FBLT | FBLE | FBGT | FBGE => [KF; KF]
  | DADD | DSUB | DMUL | DDIV | DEQ | DNE | DLT | DLE | DGT | DGE
  | DBEQ | DBNE | DBLT | DBLE | DBGT | DBGE => [KD; KD]
  | LDADD | LDSUB | LDMUL | LDDIV | LDEQ | LDNE | LDLT | LDLE | LDGT | LDGE
  | LDBEQ | LDBNE | LDBLT | LDBLE | LDBGT | LDBGE => [KLD; KLD]
  | _ => match int_class op, ovf_class op, int_branch_class op with
         | IC_mov, _, _ | IC_ext _ _, _, _ | IC_neg _, _, _ => [KI]
         | IC_bin _ _, _, _ | IC_cmp _ _ _, _, _ => [KI; KI]
         | _, Some _, _ => [KI; KI]
         | _, _, IB_true _ | _, _, IB_false _ => [KI]
         | _, _, IB_cmp _ _ _ => [KI; KI]
         | _, _, _ => []
         end
  end.

Definition doc_sem (op : opcode) (args : list Z) : option Z :=
  match op, args with
  | LDMOV, [a] => Some (uwrap 80 a)
  | _, _ => match doc_sem_int op args with
            | Some v => Some v
            | None => doc_sem_float op args
            end
  end.

Definition doc_branch (op : opcode) (args : list Z) : option bool :=
  match doc_branch_int op args with
  | Some b => Some b
  | None => doc_branch_float op args
  end.

(* which bits of the result MIR.md defines *)
Definition res_mask (op : opcode) : Z :=
  match res_kind op with
  | Some KF => mask32
  | Some KLD => mask80
  | Some KD => mask64
  | _ => match int_res_width op, ovf_class op with
         | Some W32, _ | _, Some (_, W32) => mask32
         | _, _ => mask64
         end
  end.

(* equality on the defined bits; for F/D results any NaN equals any NaN *)
Definition eqv (op : opcode) (a b : Z) : bool :=
  match res_kind op with
  | Some KF => feqv32 a b
  | Some KD => feqv64 a b
  | _ => Z.land a (res_mask op) =? Z.land b (res_mask op)
  end.

(* instructions whose documented value this file defines (for totality statements) *)
Definition has_doc_sem (op : opcode) : bool :=
  match op with
  | LDMOV => true
  | _ => match int_class op, float_class op with
         | IC_none, FC_none => false
         | _, _ => true
         end
  end.

(* ---- sanity examples (non-vacuity; also pins the conventions for importers) ---- *)
Example ex_adds : doc_sem ADDS [2 ^ 31 - 1; 1] = Some (2 ^ 31).            Proof. reflexivity. Qed.
Example ex_div0 : doc_sem DIV [5; 0] = None.                               Proof. reflexivity. Qed.
Example ex_divmin : doc_sem DIVS [- 2 ^ 31; 2 ^ 32 - 1] = None.            Proof. reflexivity. Qed.
Example ex_rshs : doc_sem RSHS [2 ^ 31; 31] = Some (2 ^ 32 - 1).           Proof. reflexivity. Qed.
Example ex_lsh64 : doc_sem LSH [1; 64] = None.                             Proof. reflexivity. Qed.
Example ex_ext8 : doc_sem EXT8 [255] = Some (2 ^ 64 - 1).                  Proof. reflexivity. Qed.
Example ex_ult : doc_sem ULT [-1; 1] = Some 0.                             Proof. reflexivity. Qed.
Example ex_uge : doc_sem UGE [7; 7] = Some 1.                              Proof. reflexivity. Qed.
Example ex_mulo : doc_ovf MULO [2 ^ 62; 2] = Some (2 ^ 63, true, false).   Proof. reflexivity. Qed.
Example ex_mulo1 : doc_ovf MULOS [2 ^ 31; 1] = Some (2 ^ 31, false, false). Proof. reflexivity. Qed.
Example ex_subo : doc_ovf SUBO [0; 1] = Some (2 ^ 64 - 1, false, true).    Proof. reflexivity. Qed.
Example ex_fadd : doc_sem FADD [0x3f800000; 0x3f800000] = Some 0x40000000. Proof. vm_compute. reflexivity. Qed.
Example ex_dlt_nan : doc_sem DLT [0x7ff8000000000000; 0] = Some 0.         Proof. vm_compute. reflexivity. Qed.
Example ex_dne_nan : doc_sem DNE [0x7ff8000000000000; 0x7ff8000000000000] = Some 1.
Proof. vm_compute. reflexivity. Qed.
Example ex_d2i : doc_sem D2I [0xc004000000000000] = Some (2 ^ 64 - 2).     Proof. vm_compute. reflexivity. Qed.
Example ex_i2d : doc_sem I2D [-1] = Some 0xbff0000000000000.               Proof. vm_compute. reflexivity. Qed.
Example ex_ui2f : doc_sem UI2F [-1] = Some 0x5f800000.                     Proof. vm_compute. reflexivity. Qed.
Example ex_f2d : doc_sem F2D [0x00000001] = Some 0x36a0000000000000.       Proof. vm_compute. reflexivity. Qed.
Example ex_d2f : doc_sem D2F [0x3ff0000010000000] = Some 0x3f800000.       Proof. vm_compute. reflexivity. Qed.
Example ex_load : load_ext T_I16 [0xfe; 0xff] = 2 ^ 64 - 2.                Proof. reflexivity. Qed.
Example ex_store : store_trunc T_U16 (2 ^ 64 - 2) = [0xfe; 0xff].          Proof. reflexivity. Qed.
Example ex_bts : doc_branch BTS [2 ^ 32] = Some false.                     Proof. reflexivity. Qed.
Example ex_fbne : doc_branch FBNE [0x7fc00000; 0] = Some true.             Proof. vm_compute. reflexivity. Qed.

(* DocSpecInt: the integer part of the documented MIR instruction semantics, written ONLY from
   /repo/MIR.md (sections "MIR move insns", "MIR integer insns", "MIR integer overflow insns",
   "MIR branch insns", "MIR branch on overflow insns", "MIR integer comparison and branch insn",
   and the "Memory operands" paragraph), never from the engines.  Flocq-free, so theorems that only
   talk about integer opcodes stay closed under the global context.  The float part is in
   DocSpecFloat.v, the combined interface ([doc_sem], [doc_branch], ...) in DocSpec.v.

   Values are bit patterns in Z.  Inputs of any magnitude/sign are accepted and first reduced to the
   width the instruction looks at (so a caller may pass signed or unsigned representatives).
   Results are canonical unsigned patterns: 0 <= r < 2^64.

   None = "MIR.md gives no meaning" (division by zero, INT_MIN / -1, shift count outside the
   operand width -- MIR.md says nothing there and MIR is "C-like" --, wrong number of operands, not an
   integer value instruction). *)
From Coq Require Import ZArith List Bool.
From MirV Require Import Base.W64 Mir.Opcode.
Import ListNotations.
Local Open Scope Z_scope.

(* ------------------------------------------------------------------ widths *)

Inductive width := W32 | W64.
Definition wbits (w : width) : Z := match w with W32 => 32 | W64 => 64 end.
Definition uw (w : width) (z : Z) : Z := uwrap (wbits w) z.   (* unsigned view of the low part *)
Definition sw (w : width) (z : Z) : Z := swrap (wbits w) z.   (* signed view of the low part *)
Definition smin (w : width) : Z := - 2 ^ (wbits w - 1).
Definition smax (w : width) : Z := 2 ^ (wbits w - 1) - 1.
Definition umax (w : width) : Z := 2 ^ wbits w - 1.

Definition mask32 : Z := 2 ^ 32 - 1.
Definition mask64 : Z := 2 ^ 64 - 1.
Definition mask80 : Z := 2 ^ 80 - 1.

Definition b2z (b : bool) : Z := if b then 1 else 0.

(* ------------------------------------------------------------------ integer binary operations
   "If insn has suffix S ... works with lower 32-bit part"; "prefix U ... treats integer as
   unsigned"; the result is the low [w] bits of the mathematical result (two's complement). *)

Inductive ibinop :=
| IAdd | ISub | IMul                      (* sign-agnostic modulo 2^w *)
| IDiv | IMod                             (* signed, truncating as in C *)
| IUDiv | IUMod                           (* unsigned *)
| IAnd | IOr | IXor
| ILsh | IRsh | IURsh.                    (* left, arithmetic right, logical right *)

Definition ibin (o : ibinop) (w : width) (a b : Z) : option Z :=
  match o with
  | IAdd => Some (uw w (a + b))
  | ISub => Some (uw w (a - b))
  | IMul => Some (uw w (a * b))
  | IDiv => if (sw w b =? 0) || ((sw w a =? smin w) && (sw w b =? -1)) then None
            else Some (uw w (Z.quot (sw w a) (sw w b)))
  | IMod => if (sw w b =? 0) || ((sw w a =? smin w) && (sw w b =? -1)) then None
            else Some (uw w (Z.rem (sw w a) (sw w b)))
  | IUDiv => if uw w b =? 0 then None else Some (uw w a / uw w b)
  | IUMod => if uw w b =? 0 then None else Some (uw w a mod uw w b)
  | IAnd => Some (Z.land (uw w a) (uw w b))
  | IOr => Some (Z.lor (uw w a) (uw w b))
  | IXor => Some (Z.lxor (uw w a) (uw w b))
  | ILsh => if uw w b <? wbits w then Some (uw w (uw w a * 2 ^ uw w b)) else None
  | IRsh => if uw w b <? wbits w then Some (uw w (sw w a / 2 ^ uw w b)) else None
  | IURsh => if uw w b <? wbits w then Some (uw w a / 2 ^ uw w b) else None
  end.

(* comparisons: result is the integer 1 or 0 *)
Inductive icmp := CEq | CNe | CLt | CLe | CGt | CGe.

Definition cmpZ (c : icmp) (x y : Z) : bool :=
  match c with
  | CEq => x =? y | CNe => negb (x =? y)
  | CLt => x <? y | CLe => x <=? y
  | CGt => y <? x | CGe => y <=? x
  end.

(* sg = true: signed comparison, false: unsigned *)
Definition icompare (c : icmp) (sg : bool) (w : width) (a b : Z) : bool :=
  if sg then cmpZ c (sw w a) (sw w b) else cmpZ c (uw w a) (uw w b).

(* sign / zero extension of the lower n bits *)
Definition sext (n : Z) (a : Z) : Z := u64 (swrap n a).
Definition zext (n : Z) (a : Z) : Z := uwrap n a.

(* ------------------------------------------------------------------ classification of opcodes *)

Inductive iclass :=
| IC_mov                                   (* MOV *)
| IC_ext (sg : bool) (n : Z)               (* EXT8.. / UEXT8.. *)
| IC_neg (w : width)
| IC_bin (o : ibinop) (w : width)
| IC_cmp (c : icmp) (sg : bool) (w : width)
| IC_none.

Definition int_class (op : opcode) : iclass :=
  match op with
  | MOV => IC_mov
  | EXT8 => IC_ext true 8 | EXT16 => IC_ext true 16 | EXT32 => IC_ext true 32
  | UEXT8 => IC_ext false 8 | UEXT16 => IC_ext false 16 | UEXT32 => IC_ext false 32
  | NEG => IC_neg W64 | NEGS => IC_neg W32
  | ADD => IC_bin IAdd W64 | ADDS => IC_bin IAdd W32
  | SUB => IC_bin ISub W64 | SUBS => IC_bin ISub W32
  | MUL => IC_bin IMul W64 | MULS => IC_bin IMul W32
  | DIV => IC_bin IDiv W64 | DIVS => IC_bin IDiv W32
  | UDIV => IC_bin IUDiv W64 | UDIVS => IC_bin IUDiv W32
  | MOD => IC_bin IMod W64 | MODS => IC_bin IMod W32
  | UMOD => IC_bin IUMod W64 | UMODS => IC_bin IUMod W32
  | AND => IC_bin IAnd W64 | ANDS => IC_bin IAnd W32
  | OR => IC_bin IOr W64 | ORS => IC_bin IOr W32
  | XOR => IC_bin IXor W64 | XORS => IC_bin IXor W32
  | LSH => IC_bin ILsh W64 | LSHS => IC_bin ILsh W32
  | RSH => IC_bin IRsh W64 | RSHS => IC_bin IRsh W32
  | URSH => IC_bin IURsh W64 | URSHS => IC_bin IURsh W32
  | EQ => IC_cmp CEq true W64 | EQS => IC_cmp CEq true W32
  | NE => IC_cmp CNe true W64 | NES => IC_cmp CNe true W32
  | LT => IC_cmp CLt true W64 | LTS => IC_cmp CLt true W32
  | ULT => IC_cmp CLt false W64 | ULTS => IC_cmp CLt false W32
  | LE => IC_cmp CLe true W64 | LES => IC_cmp CLe true W32
  | ULE => IC_cmp CLe false W64 | ULES => IC_cmp CLe false W32
  | GT => IC_cmp CGt true W64 | GTS => IC_cmp CGt true W32
  | UGT => IC_cmp CGt false W64 | UGTS => IC_cmp CGt false W32
  | GE => IC_cmp CGe true W64 | GES => IC_cmp CGe true W32
  | UGE => IC_cmp CGe false W64 | UGES => IC_cmp CGe false W32
  | _ => IC_none
  end.

(* value of an integer (non-overflow) value instruction; operands = the input operands in order *)
Definition doc_sem_int (op : opcode) (args : list Z) : option Z :=
  match int_class op, args with
  | IC_mov, [a] => Some (u64 a)
  | IC_ext true n, [a] => Some (sext n a)
  | IC_ext false n, [a] => Some (zext n a)
  | IC_neg w, [a] => Some (uw w (- a))
  | IC_bin o w, [a; b] => ibin o w a b
  | IC_cmp c sg w, [a; b] => Some (b2z (icompare c sg w a b))
  | _, _ => None
  end.

(* which result bits MIR.md defines: "The higher part of 32-bit insn result is undefined" *)
Definition int_res_width (op : opcode) : option width :=
  match int_class op with
  | IC_mov | IC_ext _ _ => Some W64
  | IC_neg w | IC_bin _ w | IC_cmp _ _ w => Some w
  | IC_none => None
  end.

(* ------------------------------------------------------------------ overflow instructions
   "All the insns set up an overflow flag which can be checked by branches on overflow":
   signed flag = the exact signed result is not representable in w bits, unsigned flag = the exact
   unsigned result is not representable (carry for addition, borrow for subtraction).
   ADDO/SUBO have no U-variants, so they define both flags; MULO[S] is the *signed* multiplication
   and defines the signed flag only, UMULO[S] the unsigned flag only ([ovf_defined]). *)

Inductive ovfop := OAdd | OSub | OMul | OUMul.

Definition ovf_class (op : opcode) : option (ovfop * width) :=
  match op with
  | ADDO => Some (OAdd, W64) | ADDOS => Some (OAdd, W32)
  | SUBO => Some (OSub, W64) | SUBOS => Some (OSub, W32)
  | MULO => Some (OMul, W64) | MULOS => Some (OMul, W32)
  | UMULO => Some (OUMul, W64) | UMULOS => Some (OUMul, W32)
  | _ => None
  end.

Definition exact_op (o : ovfop) (x y : Z) : Z :=
  match o with OAdd => x + y | OSub => x - y | OMul | OUMul => x * y end.

Definition fits_s (w : width) (z : Z) : bool := (smin w <=? z) && (z <=? smax w).
Definition fits_u (w : width) (z : Z) : bool := (0 <=? z) && (z <=? umax w).

Definition ovf (o : ovfop) (w : width) (a b : Z) : Z * bool * bool :=
  (uw w (exact_op o a b),
   negb (fits_s w (exact_op o (sw w a) (sw w b))),
   negb (fits_u w (exact_op o (uw w a) (uw w b)))).

(* (result, signed-overflow flag, unsigned-overflow flag) *)
Definition doc_ovf (op : opcode) (args : list Z) : option (Z * bool * bool) :=
  match ovf_class op, args with
  | Some (o, w), [a; b] => Some (ovf o w a b)
  | _, _ => None
  end.

(* (signed flag defined?, unsigned flag defined?) after the instruction *)
Definition ovf_defined (op : opcode) : bool * bool :=
  match ovf_class op with
  | Some (OAdd, _) | Some (OSub, _) => (true, true)
  | Some (OMul, _) => (true, false)
  | Some (OUMul, _) => (false, true)
  | None => (false, false)
  end.

(* BO/BNO/UBO/UBNO given the flags left by the preceding overflow insn.  (MIR.md's table line for
   UBNO repeats "is set up"; the name and the BNO line make "not set up" the only sensible reading.) *)
Definition doc_ovf_branch (op : opcode) (signed_ovf unsigned_ovf : bool) : option bool :=
  match op with
  | BO => Some signed_ovf | BNO => Some (negb signed_ovf)
  | UBO => Some unsigned_ovf | UBNO => Some (negb unsigned_ovf)
  | _ => None
  end.

(* ------------------------------------------------------------------ integer branches *)

Inductive ibranch :=
| IB_jmp
| IB_true (w : width) | IB_false (w : width)
| IB_cmp (c : icmp) (sg : bool) (w : width)
| IB_none.

Definition int_branch_class (op : opcode) : ibranch :=
  match op with
  | JMP => IB_jmp
  | BT => IB_true W64 | BTS => IB_true W32 | BF => IB_false W64 | BFS => IB_false W32
  | BEQ => IB_cmp CEq true W64 | BEQS => IB_cmp CEq true W32
  | BNE => IB_cmp CNe true W64 | BNES => IB_cmp CNe true W32
  | BLT => IB_cmp CLt true W64 | BLTS => IB_cmp CLt true W32
  | UBLT => IB_cmp CLt false W64 | UBLTS => IB_cmp CLt false W32
  | BLE => IB_cmp CLe true W64 | BLES => IB_cmp CLe true W32
  | UBLE => IB_cmp CLe false W64 | UBLES => IB_cmp CLe false W32
  | BGT => IB_cmp CGt true W64 | BGTS => IB_cmp CGt true W32
  | UBGT => IB_cmp CGt false W64 | UBGTS => IB_cmp CGt false W32
  | BGE => IB_cmp CGe true W64 | BGES => IB_cmp CGe true W32
  | UBGE => IB_cmp CGe false W64 | UBGES => IB_cmp CGe false W32
  | _ => IB_none
  end.

(* is the branch taken?  operands = the non-label operands *)
Definition doc_branch_int (op : opcode) (args : list Z) : option bool :=
  match int_branch_class op, args with
  | IB_jmp, [] => Some true
  | IB_true w, [a] => Some (negb (uw w a =? 0))
  | IB_false w, [a] => Some (uw w a =? 0)
  | IB_cmp c sg w, [a; b] => Some (icompare c sg w a b)
  | _, _ => None
  end.

(* the value insn computing the same predicate as a compare-and-branch (BEQ ~ EQ ...) *)
Definition branch_cmp_opcode (op : opcode) : option opcode :=
  match op with
  | BEQ => Some EQ | BEQS => Some EQS | FBEQ => Some FEQ | DBEQ => Some DEQ | LDBEQ => Some LDEQ
  | BNE => Some NE | BNES => Some NES | FBNE => Some FNE | DBNE => Some DNE | LDBNE => Some LDNE
  | BLT => Some LT | BLTS => Some LTS | UBLT => Some ULT | UBLTS => Some ULTS
  | FBLT => Some FLT | DBLT => Some DLT | LDBLT => Some LDLT
  | BLE => Some LE | BLES => Some LES | UBLE => Some ULE | UBLES => Some ULES
  | FBLE => Some FLE | DBLE => Some DLE | LDBLE => Some LDLE
  | BGT => Some GT | BGTS => Some GTS | UBGT => Some UGT | UBGTS => Some UGTS
  | FBGT => Some FGT | DBGT => Some DGT | LDBGT => Some LDGT
  | BGE => Some GE | BGES => Some GES | UBGE => Some UGE | UBGES => Some UGES
  | FBGE => Some FGE | DBGE => Some DGE | LDBGE => Some LDGE
  | _ => None
  end.

(* ------------------------------------------------------------------ memory operands
   "Integer type input memory is transformed to 64-bit integer value with sign or zero extension
   depending on signedness of the type"; "result 64-bit integer value is truncated to integer memory
   type".  Bytes are little-endian lists of values 0..255 (this host; MIR.md leaves endianness to the
   target).  F/D/LD memory holds the value's bit pattern unchanged. *)

Inductive mir_type :=
| T_I8 | T_U8 | T_I16 | T_U16 | T_I32 | T_U32 | T_I64 | T_U64 | T_F | T_D | T_LD | T_P.

Definition type_size (t : mir_type) : nat :=
  match t with
  | T_I8 | T_U8 => 1 | T_I16 | T_U16 => 2 | T_I32 | T_U32 | T_F => 4
  | T_I64 | T_U64 | T_D | T_P => 8
  | T_LD => 10            (* value bytes of the x87 format; the slot is 16 bytes, 6 are padding *)
  end%nat.

Definition type_signed (t : mir_type) : bool :=
  match t with T_I8 | T_I16 | T_I32 | T_I64 => true | _ => false end.

Definition type_is_int (t : mir_type) : bool :=
  match t with T_F | T_D | T_LD => false | _ => true end.

Fixpoint le_bytes_to_Z (bs : list Z) : Z :=
  match bs with [] => 0 | b :: r => uwrap 8 b + 256 * le_bytes_to_Z r end.

Fixpoint Z_to_le_bytes (n : nat) (v : Z) : list Z :=
  match n with O => [] | S m => uwrap 8 v :: Z_to_le_bytes m (v / 256) end.

(* value read from a memory operand of type [ty] whose first [type_size ty] bytes are [bytes] *)
Definition load_ext (ty : mir_type) (bytes : list Z) : Z :=
  let raw := le_bytes_to_Z (firstn (type_size ty) bytes) in
  if type_is_int ty && type_signed ty then u64 (swrap (8 * Z.of_nat (type_size ty)) raw) else raw.

(* bytes written when value [v] is stored into a memory operand of type [ty] *)
Definition store_trunc (ty : mir_type) (v : Z) : list Z :=
  Z_to_le_bytes (type_size ty) (uwrap (8 * Z.of_nat (type_size ty)) v).

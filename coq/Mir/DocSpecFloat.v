(* DocSpecFloat: documented semantics of the single/double precision MIR instructions, written ONLY
   from /repo/MIR.md ("MIR floating point insns", "MIR floating point comparison and branch insn")
   on top of Flocq's IEEE-754 binary32/binary64 (round to nearest even, the C default).

   Values are bit patterns: F = 32-bit pattern, D = 64-bit pattern.  NaN results have unspecified
   sign/payload: compare results with [feqv32]/[feqv64] (equal, or both NaN).  Comparison with a
   NaN: "C-like": every ordered comparison and == is false, != is true.
   F2I/D2I: C-like truncation toward zero; NaN, infinities and values outside int64 -> None.
   long double is an opaque 80-bit pattern: only LDMOV has a Coq meaning (DocSpec.v); LD arithmetic,
   comparison and conversions return None (engine-vs-engine correspondence only). *)
From Coq Require Import ZArith List Bool.
From Flocq Require Import Core.Zaux IEEE754.BinarySingleNaN IEEE754.Binary IEEE754.Bits.
From MirV Require Import Base.W64 Mir.Opcode Mir.DocSpecInt.
Import ListNotations.
Local Open Scope Z_scope.

Lemma prec24 : FLX.Prec_gt_0 24. Proof. reflexivity. Qed.
Lemma prec53 : FLX.Prec_gt_0 53. Proof. reflexivity. Qed.
Lemma emax128 : Prec_lt_emax 24 128. Proof. reflexivity. Qed.
Lemma emax1024 : Prec_lt_emax 53 1024. Proof. reflexivity. Qed.

Definition f_of (z : Z) : binary32 := b32_of_bits (uwrap 32 z).
Definition d_of (z : Z) : binary64 := b64_of_bits (uwrap 64 z).
Definition of_f (x : binary32) : Z := bits_of_b32 x.
Definition of_d (x : binary64) : Z := bits_of_b64 x.

Definition is_nan32 (z : Z) : bool := Binary.is_nan 24 128 (f_of z).
Definition is_nan64 (z : Z) : bool := Binary.is_nan 53 1024 (d_of z).

Definition feqv32 (a b : Z) : bool := (uwrap 32 a =? uwrap 32 b) || (is_nan32 a && is_nan32 b).
Definition feqv64 (a b : Z) : bool := (uwrap 64 a =? uwrap 64 b) || (is_nan64 a && is_nan64 b).

Definition qnan32 : binary32 := proj1_sig default_nan_pl32.
Definition qnan64 : binary64 := proj1_sig default_nan_pl64.

(* ---------------------------------------------------------------- arithmetic *)
Inductive fbinop := FAdd | FSub | FMul | FDiv.

Definition fbin32 (o : fbinop) (a b : Z) : Z :=
  of_f (match o with
        | FAdd => b32_plus mode_NE | FSub => b32_minus mode_NE
        | FMul => b32_mult mode_NE | FDiv => b32_div mode_NE
        end (f_of a) (f_of b)).

Definition fbin64 (o : fbinop) (a b : Z) : Z :=
  of_d (match o with
        | FAdd => b64_plus mode_NE | FSub => b64_minus mode_NE
        | FMul => b64_mult mode_NE | FDiv => b64_div mode_NE
        end (d_of a) (d_of b)).

Definition fneg32 (a : Z) : Z := of_f (b32_opp (f_of a)).
Definition fneg64 (a : Z) : Z := of_d (b64_opp (d_of a)).

(* ---------------------------------------------------------------- comparison *)
Definition fcmp_res (c : icmp) (r : option comparison) : bool :=
  match r with
  | None => match c with CNe => true | _ => false end      (* unordered *)
  | Some Eq => match c with CEq | CLe | CGe => true | _ => false end
  | Some Lt => match c with CNe | CLt | CLe => true | _ => false end
  | Some Gt => match c with CNe | CGt | CGe => true | _ => false end
  end.

Definition fcompare32 (c : icmp) (a b : Z) : bool := fcmp_res c (b32_compare (f_of a) (f_of b)).
Definition fcompare64 (c : icmp) (a b : Z) : bool := fcmp_res c (b64_compare (d_of a) (d_of b)).

(* ---------------------------------------------------------------- conversions *)
(* integer -> float: round to nearest even of the exact integer value *)
Definition z2f (z : Z) : Z := of_f (Binary.binary_normalize 24 128 prec24 emax128 mode_NE z 0 false).
Definition z2d (z : Z) : Z := of_d (Binary.binary_normalize 53 1024 prec53 emax1024 mode_NE z 0 false).

(* float -> int64: truncation; None when the truncated value is not an int64 or x is not finite *)
Definition f2i (a : Z) : option Z :=
  let x := f_of a in
  if Binary.is_finite 24 128 x then
    let t := Binary.Btrunc 24 128 x in
    if (- 2 ^ 63 <=? t) && (t <? 2 ^ 63) then Some (u64 t) else None
  else None.
Definition d2i (a : Z) : option Z :=
  let x := d_of a in
  if Binary.is_finite 53 1024 x then
    let t := Binary.Btrunc 53 1024 x in
    if (- 2 ^ 63 <=? t) && (t <? 2 ^ 63) then Some (u64 t) else None
  else None.

(* single -> double is exact; double -> single rounds to nearest even *)
Definition f2d (a : Z) : Z :=
  of_d (match f_of a with
        | Binary.B754_zero _ _ s => Binary.B754_zero 53 1024 s
        | Binary.B754_infinity _ _ s => Binary.B754_infinity 53 1024 s
        | Binary.B754_nan _ _ _ _ _ => qnan64
        | Binary.B754_finite _ _ s m e _ =>
            Binary.binary_normalize 53 1024 prec53 emax1024 mode_NE (cond_Zopp s (Zpos m)) e s
        end).
Definition d2f (a : Z) : Z :=
  of_f (match d_of a with
        | Binary.B754_zero _ _ s => Binary.B754_zero 24 128 s
        | Binary.B754_infinity _ _ s => Binary.B754_infinity 24 128 s
        | Binary.B754_nan _ _ _ _ _ => qnan32
        | Binary.B754_finite _ _ s m e _ =>
            Binary.binary_normalize 24 128 prec24 emax128 mode_NE (cond_Zopp s (Zpos m)) e s
        end).

(* ---------------------------------------------------------------- opcode classification *)
Inductive fprec := PF | PD.

Inductive fclass :=
| FC_mov (p : fprec)
| FC_neg (p : fprec)
| FC_bin (o : fbinop) (p : fprec)
| FC_cmp (c : icmp) (p : fprec)
| FC_i2f (sg : bool) (p : fprec)          (* I2F I2D UI2F UI2D *)
| FC_f2i (p : fprec)
| FC_f2d | FC_d2f
| FC_none.

Definition float_class (op : opcode) : fclass :=
  match op with
  | FMOV => FC_mov PF | DMOV => FC_mov PD
  | FNEG => FC_neg PF | DNEG => FC_neg PD
  | FADD => FC_bin FAdd PF | DADD => FC_bin FAdd PD
  | FSUB => FC_bin FSub PF | DSUB => FC_bin FSub PD
  | FMUL => FC_bin FMul PF | DMUL => FC_bin FMul PD
  | FDIV => FC_bin FDiv PF | DDIV => FC_bin FDiv PD
  | FEQ => FC_cmp CEq PF | DEQ => FC_cmp CEq PD
  | FNE => FC_cmp CNe PF | DNE => FC_cmp CNe PD
  | FLT => FC_cmp CLt PF | DLT => FC_cmp CLt PD
  | FLE => FC_cmp CLe PF | DLE => FC_cmp CLe PD
  | FGT => FC_cmp CGt PF | DGT => FC_cmp CGt PD
  | FGE => FC_cmp CGe PF | DGE => FC_cmp CGe PD
  | I2F => FC_i2f true PF | I2D => FC_i2f true PD
  | UI2F => FC_i2f false PF | UI2D => FC_i2f false PD
  | F2I => FC_f2i PF | D2I => FC_f2i PD
  | F2D => FC_f2d | D2F => FC_d2f
  | _ => FC_none
  end.

Definition doc_sem_float (op : opcode) (args : list Z) : option Z :=
  match float_class op, args with
  | FC_mov PF, [a] => Some (uwrap 32 a)
  | FC_mov PD, [a] => Some (uwrap 64 a)
  | FC_neg PF, [a] => Some (fneg32 a)
  | FC_neg PD, [a] => Some (fneg64 a)
  | FC_bin o PF, [a; b] => Some (fbin32 o a b)
  | FC_bin o PD, [a; b] => Some (fbin64 o a b)
  | FC_cmp c PF, [a; b] => Some (b2z (fcompare32 c a b))
  | FC_cmp c PD, [a; b] => Some (b2z (fcompare64 c a b))
  | FC_i2f sg PF, [a] => Some (z2f (if sg then s64 a else u64 a))
  | FC_i2f sg PD, [a] => Some (z2d (if sg then s64 a else u64 a))
  | FC_f2i PF, [a] => f2i a
  | FC_f2i PD, [a] => d2i a
  | FC_f2d, [a] => Some (f2d a)
  | FC_d2f, [a] => Some (d2f a)
  | _, _ => None
  end.

Inductive fbranch := FB_cmp (c : icmp) (p : fprec) | FB_none.

Definition float_branch_class (op : opcode) : fbranch :=
  match op with
  | FBEQ => FB_cmp CEq PF | DBEQ => FB_cmp CEq PD
  | FBNE => FB_cmp CNe PF | DBNE => FB_cmp CNe PD
  | FBLT => FB_cmp CLt PF | DBLT => FB_cmp CLt PD
  | FBLE => FB_cmp CLe PF | DBLE => FB_cmp CLe PD
  | FBGT => FB_cmp CGt PF | DBGT => FB_cmp CGt PD
  | FBGE => FB_cmp CGe PF | DBGE => FB_cmp CGe PD
  | _ => FB_none
  end.

Definition doc_branch_float (op : opcode) (args : list Z) : option bool :=
  match float_branch_class op, args with
  | FB_cmp c PF, [a; b] => Some (fcompare32 c a b)
  | FB_cmp c PD, [a; b] => Some (fcompare64 c a b)
  | _, _ => None
  end.

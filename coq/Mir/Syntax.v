(* Abstract syntax of pre-link MIR ("as written"): the part of the IR the reference semantics
   (Mir/Sem.v) gives a meaning to.  Definitions only.

   Registers and labels are numbered ([positive]); items of a program are referred to by their
   index in the item list ([nat]).  Instructions are uniform [I opcode operands] over the full
   opcode enumeration of mir.h (Mir/Opcode.v, regenerated/tied by tools/tr_opcodes.py); a label is
   [I LABEL [Olabel l]].  Float / double immediates are IEEE bit patterns. *)
From Coq Require Import ZArith List Bool.
From MirV Require Import Mir.Opcode.
Import ListNotations.
Local Open Scope Z_scope.

Definition reg := positive.
Definition label := positive.

Inductive ty : Set :=
| T_I8 | T_U8 | T_I16 | T_U16 | T_I32 | T_U32 | T_I64 | T_U64
| T_F | T_D | T_LD | T_P
| T_BLK (kind : nat) (size : Z)      (* MIR_T_BLK + kind, block passed by value *)
| T_RBLK (size : Z).                 (* block passed by address *)

Record memop : Set := MkMem {
  m_ty : ty;            (* type of the accessed value *)
  m_disp : Z;
  m_base : option reg;
  m_index : option reg;
  m_scale : Z }.

Inductive operand : Set :=
| Oreg (r : reg)
| Oint (z : Z)              (* MIR_OP_INT / MIR_OP_UINT: any integer, taken modulo 2^64 *)
| Ofloat (bits : Z)         (* binary32 pattern *)
| Odouble (bits : Z)        (* binary64 pattern *)
| Omem (m : memop)
| Olabel (l : label)
| Oref (item : nat).        (* reference to the item with this index *)

Inductive insn : Set := I (op : opcode) (ops : list operand).

Record func : Set := MkFunc {
  f_res : list ty;
  f_args : list (reg * ty);
  f_body : list insn }.

Record proto : Set := MkProto {
  p_res : list ty;
  p_args : list ty }.

Inductive item : Set :=
| Ifunc (f : func)
| Iproto (p : proto)
| Iimport (id : nat).        (* external function number [id] of the harness *)

Definition program := list item.

(* ---- classification of the value-computing opcodes ------------------------------------- *)

(* how an instruction looks at a source operand / what it defines in its destination *)
Inductive kind : Set :=
| K64          (* all 64 bits *)
| K32          (* low 32 bits; as a destination: high 32 bits undefined (MIR.md "MIR integer insns") *)
| K16 | K8     (* low 16 / 8 bits (sources of the extension insns) *)
| KF | KD.     (* binary32 / binary64 *)

(* (kind of every source, kind of the destination) for the instructions [dst, src...] that only
   compute a value; [None] for everything else (moves, control flow, calls, alloca, ...) *)
Definition val_op (o : opcode) : option (kind * kind) :=
  match o with
  | EXT8 | UEXT8 => Some (K8, K64)
  | EXT16 | UEXT16 => Some (K16, K64)
  | EXT32 | UEXT32 => Some (K32, K64)
  | I2F | UI2F => Some (K64, KF)
  | I2D | UI2D => Some (K64, KD)
  | F2I => Some (KF, K64)
  | D2I => Some (KD, K64)
  | F2D => Some (KF, KD)
  | D2F => Some (KD, KF)
  | NEG | ADD | SUB | MUL | DIV | UDIV | MOD | UMOD | AND | OR | XOR | LSH | RSH | URSH
  | EQ | NE | LT | ULT | LE | ULE | GT | UGT | GE | UGE
  | ADDO | SUBO | MULO | UMULO => Some (K64, K64)
  | NEGS | ADDS | SUBS | MULS | DIVS | UDIVS | MODS | UMODS | ANDS | ORS | XORS | LSHS | RSHS | URSHS
  | EQS | NES | LTS | ULTS | LES | ULES | GTS | UGTS | GES | UGES
  | ADDOS | SUBOS | MULOS | UMULOS => Some (K32, K32)
  | FNEG | FADD | FSUB | FMUL | FDIV => Some (KF, KF)
  | DNEG | DADD | DSUB | DMUL | DDIV => Some (KD, KD)
  | FEQ | FNE | FLT | FLE | FGT | FGE => Some (KF, K64)
  | DEQ | DNE | DLT | DLE | DGT | DGE => Some (KD, K64)
  | _ => None
  end.

(* overflow-flag setting instructions *)
Definition ovf_op (o : opcode) : bool :=
  match o with
  | ADDO | ADDOS | SUBO | SUBOS | MULO | MULOS | UMULO | UMULOS => true
  | _ => false
  end.

(* conditional branches [label, src...]: kind of the sources *)
Definition br_op (o : opcode) : option kind :=
  match o with
  | BT | BF | BEQ | BNE | BLT | UBLT | BLE | UBLE | BGT | UBGT | BGE | UBGE => Some K64
  | BTS | BFS | BEQS | BNES | BLTS | UBLTS | BLES | UBLES | BGTS | UBGTS | BGES | UBGES => Some K32
  | FBEQ | FBNE | FBLT | FBLE | FBGT | FBGE => Some KF
  | DBEQ | DBNE | DBLT | DBLE | DBGT | DBGE => Some KD
  | _ => None
  end.

Definition is_label (i : insn) (l : label) : bool :=
  match i with
  | I LABEL (Olabel l' :: nil) => Pos.eqb l l'
  | _ => false
  end.

(* index of the label insn [l] in a body *)
Fixpoint find_label (l : label) (body : list insn) (n : nat) : option nat :=
  match body with
  | nil => None
  | i :: rest => if is_label i l then Some n else find_label l rest (S n)
  end.

(* Reference semantics of pre-link MIR "as written": a small-step, fuelled definitional
   interpreter.  Definitions only (proofs: Mir/SemProofs.v).

   The interpreter never sees what MIR_link does to a function (operand lowering, return merging,
   jump threading, alloca consolidation, inlining), so it is an oracle that is not blind to errors
   in code shared by MIR_interp and MIR_gen.

   Everything a real engine is allowed to do differently is made *unobservable by getting stuck*:
   - the high half of the result of a 32-bit ("S") instruction is undefined (MIR.md): such a value
     is tagged [Hi32] and may only be consumed by something that looks at <= 32 bits;
   - the payload/sign of a NaN *produced* by FP arithmetic is tagged [NaNp]: it can be compared
     and computed with, but not stored / returned / passed to an external;
   - alloca addresses are tagged [Ptr]: they can be offset, dereferenced and passed to MIR
     functions but never become data; label addresses and bstart tokens are [Opaque];
   - memory is byte addressed; only the harness regions and live alloca blocks may be touched,
     an alloca byte must be written before it is read;
   - division by zero, INT_MIN/-1, out-of-range shift counts and FP->int conversions, switch
     index out of range, reading an unset register, a [bo] without a live flag: all [Stuck].
   A program is *well-defined* on an input iff [run] does not return [Stuck].

   The value semantics of the individual instructions is a parameter ([insn_sem]); it is
   instantiated with the MIR.md-derived tables (C01/InsnSem.v). *)
From Coq Require Import ZArith List Bool FMapPositive.
From MirV Require Import Base.W64 Mir.Opcode Mir.Syntax.
Import ListNotations.
Local Open Scope Z_scope.

(* ---- values ------------------------------------------------------------------------------ *)

Inductive vtag : Set := Def | Hi32 | NaNp | Ptr | Opaque
| LDt.   (* a long double: the bits are the 80-bit x87 pattern; lives in registers (conversions from/to
            integers and doubles, ldmov, ld arithmetic) and is passed to / returned from MIR functions at
            type ld unchanged - never stored, compared or shown to the outside world *)

Record value : Set := V { v_bits : Z; v_tag : vtag }.

Inductive err : Set :=
| E_uninit_reg | E_tag | E_mem | E_undef_insn | E_unsupported | E_bad_program | E_flags
| E_oracle | E_depth | E_fell_off | E_observable.

Inductive res (A : Type) : Type := Ok (a : A) | Er (e : err).
Arguments Ok {A} a.
Arguments Er {A} e.

Definition bind {A B} (x : res A) (f : A -> res B) : res B :=
  match x with Ok a => f a | Er e => Er e end.
Notation "'do' x <- a ; b" := (bind a (fun x => b)) (at level 200, x pattern, a at level 100, b at level 200).

Definition of_opt {A} (e : err) (x : option A) : res A :=
  match x with Some a => Ok a | None => Er e end.

(* the per-instruction value semantics: a parameter *)
Record insn_sem : Type := MkInsnSem {
  sem_val : opcode -> list Z -> option Z;     (* sources (masked to their kind) -> result pattern *)
  sem_br : opcode -> list Z -> option bool;   (* conditional branch taken? *)
  sem_ovf : opcode -> list Z -> option (option bool * option bool);  (* (signed, unsigned) flags *)
  sem_nan : kind -> Z -> bool }.              (* is the pattern a NaN (KF / KD) *)

(* ---- memory ------------------------------------------------------------------------------ *)

Definition mem := PositiveMap.t Z.            (* address -> byte, partial *)

Record block : Set := MkBlock { b_base : Z; b_size : Z; b_writable : bool }.

Fixpoint load_bytes (m : mem) (a : Z) (n : nat) : option (list Z) :=
  match n with
  | O => Some nil
  | S k => match PositiveMap.find (Z.to_pos a) m with
           | None => None
           | Some b => match load_bytes m (a + 1) k with
                       | None => None
                       | Some l => Some (b :: l)
                       end
           end
  end.

Fixpoint store_bytes (m : mem) (a : Z) (bs : list Z) : mem :=
  match bs with
  | nil => m
  | b :: r => store_bytes (PositiveMap.add (Z.to_pos a) b m) (a + 1) r
  end.

Fixpoint le_val (bs : list Z) : Z :=
  match bs with nil => 0 | b :: r => b + 256 * le_val r end.

Fixpoint le_bytes (n : nat) (z : Z) : list Z :=
  match n with O => nil | S k => (z mod 256) :: le_bytes k (z / 256) end.

Definition in_block (a n : Z) (w : bool) (b : block) : bool :=
  (0 <? a) && (b_base b <=? a) && (a + n <=? b_base b + b_size b) && (implb w (b_writable b)).

Definition ty_size (t : ty) : option nat :=
  match t with
  | T_I8 | T_U8 => Some 1%nat
  | T_I16 | T_U16 => Some 2%nat
  | T_I32 | T_U32 | T_F => Some 4%nat
  | T_I64 | T_U64 | T_P | T_D => Some 8%nat
  | _ => None
  end.

(* memory value -> register value: integer types are extended to 64 bits *)
Definition ext_ty (t : ty) (z : Z) : option Z :=
  match t with
  | T_I8 => Some (u64 (s8 z))   | T_U8 => Some (u8 z)
  | T_I16 => Some (u64 (s16 z)) | T_U16 => Some (u16 z)
  | T_I32 => Some (u64 (s32 z)) | T_U32 => Some (u32 z)
  | T_I64 | T_U64 | T_P => Some (u64 z)
  | T_F => Some (u32 z)
  | T_D => Some (u64 z)
  | T_LD => Some z          (* 80-bit pattern, kept as it is *)
  | _ => None
  end.

(* which tags may be narrowed/passed at a type, for data that becomes observable ([strict]) or
   stays inside MIR code *)
Definition tag_ok (t : ty) (strict : bool) (g : vtag) : bool :=
  match t with
  | T_I8 | T_U8 | T_I16 | T_U16 | T_I32 | T_U32 =>
      match g with Def | Hi32 => true | _ => false end
  | T_I64 | T_U64 | T_P =>
      match g with Def => true | Ptr => negb strict | _ => false end
  | T_F | T_D =>
      match g with Def => true | NaNp => negb strict | _ => false end
  | T_LD =>                (* only between MIR functions, and only a value that is a long double *)
      match g with LDt => negb strict | _ => false end
  | _ => false
  end.

(* conversion of a value at a call / return / external-result boundary of type [t] *)
Definition conv_ty (t : ty) (strict : bool) (v : value) : res value :=
  if tag_ok t strict (v_tag v) then
    match ext_ty t (v_bits v) with
    | Some z => Ok (V z (match v_tag v with Hi32 => Def | g => g end))
    | None => Er E_unsupported
    end
  else Er E_tag.

Definition ty_eqb (a b : ty) : bool :=
  match a, b with
  | T_I8, T_I8 | T_U8, T_U8 | T_I16, T_I16 | T_U16, T_U16 | T_I32, T_I32 | T_U32, T_U32
  | T_I64, T_I64 | T_U64, T_U64 | T_F, T_F | T_D, T_D | T_LD, T_LD | T_P, T_P => true
  | T_BLK k s, T_BLK k' s' => Nat.eqb k k' && (s =? s')
  | T_RBLK s, T_RBLK s' => s =? s'
  | _, _ => false
  end.

Fixpoint tys_eqb (a b : list ty) : bool :=
  match a, b with
  | nil, nil => true
  | x :: a', y :: b' => ty_eqb x y && tys_eqb a' b'
  | _, _ => false
  end.

(* ---- machine state ----------------------------------------------------------------------- *)

Definition regfile := PositiveMap.t value.

Record frame : Type := MkFrame {
  fr_body : list insn;
  fr_res : list ty;             (* result types of the running function *)
  fr_pc : nat;
  fr_regs : regfile;
  fr_blocks : list block;       (* live alloca blocks, newest first *)
  fr_dsts : list operand }.     (* where the caller wants the results (operands of its call insn) *)

Record event : Set := MkEvent { ev_fn : nat; ev_args : list Z }.

Record state : Type := MkState {
  st_frames : list frame;       (* innermost first *)
  st_mem : mem;
  st_next : Z;                  (* next fresh alloca address *)
  st_flags : option (option bool * option bool);
  st_events : list event;       (* newest first *)
  st_oracle : list Z }.         (* results of the coming external calls *)

Inductive step_result : Type :=
| Next (s : state)
| Halt (results : list Z) (s : state)
| Fail (e : err).

Definition max_depth : nat := 200.
Definition max_alloca : Z := 1048576.
Definition canon_nan (k : kind) : Z :=
  match k with KF => 2143289344 (* 0x7fc00000 *) | _ => 9221120237041090560 (* 0x7ff8000000000000 *) end.

Section WithProgram.

Variable isem : insn_sem.
Variable prog : program.
Variable regions : list block.     (* harness-owned memory *)

Definition all_blocks (s : state) : list block :=
  regions ++ flat_map fr_blocks (st_frames s).

Definition valid_range (s : state) (a n : Z) (w : bool) : bool :=
  existsb (in_block a n w) (all_blocks s).

(* ---- operands ---------------------------------------------------------------------------- *)

Definition get_reg (rf : regfile) (r : reg) : res value :=
  of_opt E_uninit_reg (PositiveMap.find r rf).

Definition addr_part (rf : regfile) (o : option reg) : res value :=
  match o with
  | None => Ok (V 0 Def)
  | Some r => do v <- get_reg rf r;
              match v_tag v with
              | Def | Ptr => Ok v
              | _ => Er E_tag
              end
  end.

(* disp + base + index * scale  (mod 2^64) *)
Definition eval_addr (rf : regfile) (m : memop) : res value :=
  do b <- addr_part rf (m_base m);
  do i <- addr_part rf (m_index m);
  Ok (V (u64 (m_disp m + v_bits b + v_bits i * m_scale m))
        (match v_tag b, v_tag i with Def, Def => Def | _, _ => Ptr end)).

Definition load (s : state) (t : ty) (a : Z) : res value :=
  match ty_size t with
  | None => Er E_unsupported
  | Some n =>
      if valid_range s a (Z.of_nat n) false then
        match load_bytes (st_mem s) a n with
        | None => Er E_mem
        | Some bs => match ext_ty t (le_val bs) with
                     | Some z => Ok (V z Def)
                     | None => Er E_unsupported
                     end
        end
      else Er E_mem
  end.

Definition store (s : state) (t : ty) (a : Z) (v : value) : res mem :=
  match ty_size t with
  | None => Er E_unsupported
  | Some n =>
      if tag_ok t true (v_tag v) then
        if valid_range s a (Z.of_nat n) true then
          Ok (store_bytes (st_mem s) a (le_bytes n (v_bits v)))
        else Er E_mem
      else Er E_tag
  end.

(* raw read of a source operand (moves) *)
Definition read_op (s : state) (rf : regfile) (o : operand) : res value :=
  match o with
  | Oreg r => get_reg rf r
  | Oint z => Ok (V (u64 z) Def)
  | Ofloat b => Ok (V (u32 b) Def)
  | Odouble b => Ok (V (u64 b) Def)
  | Omem m => do a <- eval_addr rf m; load s (m_ty m) (v_bits a)
  | _ => Er E_unsupported
  end.

(* the bits an instruction of source kind [k] sees *)
Definition use_as (k : kind) (v : value) : res Z :=
  match k, v_tag v with
  | K64, Def => Ok (v_bits v)
  | K32, (Def | Hi32) => Ok (u32 (v_bits v))
  | K16, (Def | Hi32) => Ok (u16 (v_bits v))
  | K8, (Def | Hi32) => Ok (u8 (v_bits v))
  | KF, (Def | NaNp) => Ok (u32 (v_bits v))
  | KD, (Def | NaNp) => Ok (v_bits v)
  | _, _ => Er E_tag
  end.

Definition mk_result (k : kind) (z : Z) : value :=
  match k with
  | K64 => V (u64 z) Def
  | K32 | K16 | K8 => V (u32 z) Hi32
  | KF => if sem_nan isem KF z then V (canon_nan KF) NaNp else V (u32 z) Def
  | KD => if sem_nan isem KD z then V (canon_nan KD) NaNp else V (u64 z) Def
  end.

Fixpoint read_srcs (s : state) (rf : regfile) (k : kind) (os : list operand) : res (list Z) :=
  match os with
  | nil => Ok nil
  | o :: r => do v <- read_op s rf o; do z <- use_as k v; do zs <- read_srcs s rf k r; Ok (z :: zs)
  end.

Definition upd_top (s : state) (f : frame) (m : mem) (fl : option (option bool * option bool)) : state :=
  MkState (f :: tl (st_frames s)) m (st_next s) fl (st_events s) (st_oracle s).

Definition set_reg (f : frame) (r : reg) (v : value) : frame :=
  MkFrame (fr_body f) (fr_res f) (fr_pc f) (PositiveMap.add r v (fr_regs f)) (fr_blocks f) (fr_dsts f).

Definition set_pc (f : frame) (pc : nat) : frame :=
  MkFrame (fr_body f) (fr_res f) pc (fr_regs f) (fr_blocks f) (fr_dsts f).

Definition set_blocks (f : frame) (bs : list block) : frame :=
  MkFrame (fr_body f) (fr_res f) (fr_pc f) (fr_regs f) bs (fr_dsts f).

(* write [v] to a destination operand of frame [f] (the top frame of [s]) *)
Definition write_op (s : state) (f : frame) (o : operand) (v : value) : res (frame * mem) :=
  match o with
  | Oreg r => Ok (set_reg f r v, st_mem s)
  | Omem m => do a <- eval_addr (fr_regs f) m;
              do m' <- store s (m_ty m) (v_bits a) v;
              Ok (f, m')
  | _ => Er E_bad_program
  end.

Definition goto (f : frame) (l : label) : res frame :=
  do pc <- of_opt E_bad_program (find_label l (fr_body f) 0%nat);
  Ok (set_pc f pc).

Definition next_pc (f : frame) : frame := set_pc f (S (fr_pc f)).

(* ---- value instructions ------------------------------------------------------------------ *)

Definition has_ptr (vs : list value) : bool :=
  existsb (fun v => match v_tag v with Ptr => true | _ => false end) vs.

(* pointer arithmetic: alloca address +/- defined integer stays a pointer *)
Definition ptr_arith (o : opcode) (vs : list value) : res value :=
  match o, vs with
  | ADD, [V a Ptr; V b Def] | ADD, [V a Def; V b Ptr] => Ok (V (u64 (a + b)) Ptr)
  | SUB, [V a Ptr; V b Def] => Ok (V (u64 (a - b)) Ptr)
  | _, _ => Er E_tag
  end.

Fixpoint read_ops (s : state) (rf : regfile) (os : list operand) : res (list value) :=
  match os with
  | nil => Ok nil
  | o :: r => do v <- read_op s rf o; do vs <- read_ops s rf r; Ok (v :: vs)
  end.

Fixpoint use_all (k : kind) (vs : list value) : res (list Z) :=
  match vs with
  | nil => Ok nil
  | v :: r => do z <- use_as k v; do zs <- use_all k r; Ok (z :: zs)
  end.

Definition exec_val (s : state) (f : frame) (o : opcode) (ks kd : kind) (dst : operand)
           (srcs : list operand) : res state :=
  do vs <- read_ops s (fr_regs f) srcs;
  do v <- (if has_ptr vs then ptr_arith o vs
           else do zs <- use_all ks vs;
                do z <- of_opt E_undef_insn (sem_val isem o zs);
                Ok (mk_result kd z));
  do fl <- (if ovf_op o
            then do zs <- use_all ks vs;
                 do fl <- of_opt E_undef_insn (sem_ovf isem o zs); Ok (Some fl)
            else Ok None);
  do fm <- write_op s f dst v;
  Ok (upd_top s (next_pc (fst fm)) (snd fm) fl).

(* ---- calls ------------------------------------------------------------------------------- *)

Definition round_up (z a : Z) : Z := (z + a - 1) / a * a.

(* copy the initialised bytes of [src, src+n) to [dst, ...) *)
Fixpoint copy_bytes (m : mem) (src dst : Z) (n : nat) : mem :=
  match n with
  | O => m
  | S k => let m' := match PositiveMap.find (Z.to_pos src) m with
                     | Some b => PositiveMap.add (Z.to_pos dst) b m
                     | None => m
                     end in
           copy_bytes m' (src + 1) (dst + 1) k
  end.

(* evaluate call arguments against the prototype's argument types; block arguments are copied
   into fresh blocks that will belong to the callee.  Returns values, new blocks, memory, next. *)
Fixpoint eval_args (s : state) (rf : regfile) (strict : bool) (ts : list ty) (os : list operand)
         (m : mem) (nxt : Z) : res (list value * list block * mem * Z) :=
  match ts, os with
  | nil, nil => Ok (nil, nil, m, nxt)
  | t :: ts', o :: os' =>
      match t with
      | T_BLK _ sz =>
          match o with
          | Omem mo =>
              if strict then Er E_unsupported else
              if negb (ty_eqb (m_ty mo) t) then Er E_bad_program else
              if negb ((0 <=? sz) && (sz <=? max_alloca)) then Er E_bad_program else
              do a <- eval_addr rf mo;
              if valid_range s (v_bits a) sz false then
                let base := nxt in
                let m' := copy_bytes m (v_bits a) base (Z.to_nat sz) in
                do r <- eval_args s rf strict ts' os' m' (base + round_up (Z.max sz 1) 16 + 16);
                let '(vs, bs, m'', n'') := r in
                Ok (V base Ptr :: vs, MkBlock base (round_up sz 8) true :: bs, m'', n'')
              else Er E_mem
          | _ => Er E_bad_program
          end
      | T_RBLK _ =>
          match o with
          | Omem mo =>
              if strict then Er E_unsupported else
              do a <- eval_addr rf mo;
              do r <- eval_args s rf strict ts' os' m nxt;
              let '(vs, bs, m'', n'') := r in
              Ok (a :: vs, bs, m'', n'')
          | _ => Er E_bad_program
          end
      | _ =>
          do v <- read_op s rf o;
          do v' <- conv_ty t strict v;
          do r <- eval_args s rf strict ts' os' m nxt;
          let '(vs, bs, m'', n'') := r in
          Ok (v' :: vs, bs, m'', n'')
      end
  | _, _ => Er E_bad_program
  end.

Fixpoint bind_args (rf : regfile) (ps : list (reg * ty)) (vs : list value) : regfile :=
  match ps, vs with
  | (r, _) :: ps', v :: vs' => bind_args (PositiveMap.add r v rf) ps' vs'
  | _, _ => rf
  end.

(* write the results of a finished call into the destination operands of frame [f] *)
Fixpoint write_results (s : state) (f : frame) (m : mem) (ds : list operand) (vs : list value)
  : res (frame * mem) :=
  match ds, vs with
  | nil, nil => Ok (f, m)
  | d :: ds', v :: vs' =>
      do fm <- write_op (MkState (st_frames s) m (st_next s) (st_flags s) (st_events s) (st_oracle s)) f d v;
      write_results s (fst fm) (snd fm) ds' vs'
  | _, _ => Er E_bad_program
  end.

Fixpoint conv_list (ts : list ty) (strict : bool) (vs : list value) : res (list value) :=
  match ts, vs with
  | nil, nil => Ok nil
  | t :: ts', v :: vs' => do v' <- conv_ty t strict v; do r <- conv_list ts' strict vs'; Ok (v' :: r)
  | _, _ => Er E_bad_program
  end.

Fixpoint take_oracle (ts : list ty) (orc : list Z) : res (list value * list Z) :=
  match ts with
  | nil => Ok (nil, orc)
  | t :: ts' =>
      match orc with
      | nil => Er E_oracle
      | z :: orc' =>
          do v <- conv_ty t true (V (u64 z) Def);
          do r <- take_oracle ts' orc';
          Ok (v :: fst r, snd r)
      end
  end.

Fixpoint dup_reg_dsts (ds : list operand) : bool :=
  match ds with
  | nil => false
  | Oreg r :: rest =>
      existsb (fun o => match o with Oreg r' => Pos.eqb r r' | _ => false end) rest || dup_reg_dsts rest
  | _ :: rest => dup_reg_dsts rest
  end.

Definition exec_call (s : state) (f : frame) (ops : list operand) : res state :=
  match ops with
  | Oref pi :: Oref fi :: rest =>
      match nth_error prog pi with
      | Some (Iproto p) =>
          let nres := length (p_res p) in
          let dsts := firstn nres rest in
          let args := skipn nres rest in
          if negb (Nat.eqb (length dsts) nres) then Er E_bad_program else
          (* the order in which several results are written is not specified: a register may be
             the destination of one result only *)
          if dup_reg_dsts dsts then Er E_bad_program else
          match nth_error prog fi with
          | Some (Ifunc fn) =>
              if negb (tys_eqb (p_res p) (f_res fn) && tys_eqb (p_args p) (map snd (f_args fn)))
              then Er E_bad_program else
              if Nat.leb max_depth (length (st_frames s)) then Er E_depth else
              do r <- eval_args s (fr_regs f) false (p_args p) args (st_mem s) (st_next s);
              let '(vs, bs, m', n') := r in
              let callee := MkFrame (f_body fn) (f_res fn) 0%nat
                                    (bind_args (PositiveMap.empty value) (f_args fn) vs) bs dsts in
              Ok (MkState (callee :: f :: tl (st_frames s)) m' n' None (st_events s) (st_oracle s))
          | Some (Iimport id) =>
              do r <- eval_args s (fr_regs f) true (p_args p) args (st_mem s) (st_next s);
              let '(vs, _, _, _) := r in
              do ro <- take_oracle (p_res p) (st_oracle s);
              let s' := MkState (st_frames s) (st_mem s) (st_next s) None
                                (MkEvent id (map v_bits vs) :: st_events s) (snd ro) in
              do fm <- write_results s' f (st_mem s') dsts (fst ro);
              Ok (upd_top s' (next_pc (fst fm)) (snd fm) None)
          | _ => Er E_bad_program
          end
      | _ => Er E_bad_program
      end
  | _ => Er E_unsupported
  end.

Definition strip_tag_check (v : value) : res Z :=
  match v_tag v with Def => Ok (v_bits v) | _ => Er E_observable end.

Fixpoint final_results (vs : list value) : res (list Z) :=
  match vs with
  | nil => Ok nil
  | v :: r => do z <- strip_tag_check v; do zs <- final_results r; Ok (z :: zs)
  end.

Definition exec_ret (s : state) (f : frame) (ops : list operand) : step_result :=
  match (do vs <- read_ops s (fr_regs f) ops; conv_list (fr_res f) false vs) with
  | Er e => Fail e
  | Ok vs =>
      match tl (st_frames s) with
      | nil =>
          match final_results vs with
          | Ok zs => Halt zs (MkState nil (st_mem s) (st_next s) None (st_events s) (st_oracle s))
          | Er e => Fail e
          end
      | caller :: rest =>
          let s' := MkState (caller :: rest) (st_mem s) (st_next s) None (st_events s) (st_oracle s) in
          match write_results s' caller (st_mem s') (fr_dsts f) vs with
          | Ok fm => Next (upd_top s' (next_pc (fst fm)) (snd fm) None)
          | Er e => Fail e
          end
      end
  end.

(* ---- one step ----------------------------------------------------------------------------- *)

Definition keep_flags_mov (ops : list operand) : bool :=
  match ops with
  | [_; Oreg _] => true
  | _ => false
  end.

Fixpoint nth_label (n : nat) (os : list operand) : option label :=
  match os, n with
  | Olabel l :: _, O => Some l
  | _ :: r, S k => nth_label k r
  | _, _ => None
  end.

Definition exec_insn (s : state) (f : frame) (i : insn) : step_result :=
  let ret (r : res state) := match r with Ok s' => Next s' | Er e => Fail e end in
  match i with
  | I o ops =>
      match val_op o, br_op o with
      | Some (ks, kd), _ =>
          match ops with
          | dst :: srcs => ret (exec_val s f o ks kd dst srcs)
          | nil => Fail E_bad_program
          end
      | None, Some k =>
          match ops with
          | Olabel l :: srcs =>
              ret (do zs <- read_srcs s (fr_regs f) k srcs;
                   do b <- of_opt E_undef_insn (sem_br isem o zs);
                   do f' <- (if b : bool then goto f l else Ok (next_pc f));
                   Ok (upd_top s f' (st_mem s) None))
          | _ => Fail E_bad_program
          end
      | None, None =>
          match o, ops with
          | LABEL, _ => Next (upd_top s (next_pc f) (st_mem s) None)
          | (MOV | FMOV | DMOV), [dst; src] =>
              ret (do v <- read_op s (fr_regs f) src;
                   do fm <- write_op s f dst v;
                   Ok (upd_top s (next_pc (fst fm)) (snd fm)
                               (if keep_flags_mov ops then st_flags s else None)))
          (* long double values (register to register only) *)
          | LDMOV, [Oreg d; Oreg r] =>
              ret (do v <- get_reg (fr_regs f) r;
                   match v_tag v with
                   | LDt => Ok (upd_top s (next_pc (set_reg f d v)) (st_mem s) None)
                   | _ => Er E_tag
                   end)
          | (I2LD | UI2LD | F2LD | D2LD), [Oreg d; src] =>
              ret (do v <- read_op s (fr_regs f) src;
                   match v_tag v with
                   | Def =>
                       do z <- use_as (match o with F2LD => KF | D2LD => KD | _ => K64 end) v;
                       do r <- of_opt E_undef_insn (sem_val isem o [z]);
                       Ok (upd_top s (next_pc (set_reg f d (V r LDt))) (st_mem s) None)
                   | _ => Er E_tag
                   end)
          | (LD2I | LD2F | LD2D), [dst; Oreg r] =>
              ret (do v <- get_reg (fr_regs f) r;
                   match v_tag v with
                   | LDt =>
                       do z <- of_opt E_undef_insn (sem_val isem o [v_bits v]);
                       do fm <- write_op s f dst (mk_result (match o with LD2F => KF | LD2D => KD | _ => K64 end) z);
                       Ok (upd_top s (next_pc (fst fm)) (snd fm) None)
                   | _ => Er E_tag
                   end)
          | LDNEG, [Oreg d; Oreg a] =>
              ret (do v <- get_reg (fr_regs f) a;
                   match v_tag v with
                   | LDt => do r <- of_opt E_undef_insn (sem_val isem o [v_bits v]);
                            Ok (upd_top s (next_pc (set_reg f d (V r LDt))) (st_mem s) None)
                   | _ => Er E_tag
                   end)
          | (LDADD | LDSUB | LDMUL), [Oreg d; Oreg a; Oreg b] =>
              ret (do va <- get_reg (fr_regs f) a;
                   do vb <- get_reg (fr_regs f) b;
                   match v_tag va, v_tag vb with
                   | LDt, LDt => do r <- of_opt E_undef_insn (sem_val isem o [v_bits va; v_bits vb]);
                                 Ok (upd_top s (next_pc (set_reg f d (V r LDt))) (st_mem s) None)
                   | _, _ => Er E_tag
                   end)
          | JMP, [Olabel l] => ret (do f' <- goto f l; Ok (upd_top s f' (st_mem s) None))
          | (BO | BNO | UBO | UBNO), [Olabel l] =>
              ret (do fl <- of_opt E_flags (st_flags s);
                   do b <- of_opt E_flags (match o with
                                           | BO => fst fl
                                           | BNO => option_map negb (fst fl)
                                           | UBO => snd fl
                                           | _ => option_map negb (snd fl)
                                           end);
                   do f' <- (if b : bool then goto f l else Ok (next_pc f));
                   Ok (upd_top s f' (st_mem s) None))
          | SWITCH, idx :: labs =>
              ret (do v <- read_op s (fr_regs f) idx;
                   do z <- use_as K64 v;
                   do l <- of_opt E_undef_insn
                             (if z <? Z.of_nat (length labs) then nth_label (Z.to_nat z) labs else None);
                   do f' <- goto f l;
                   Ok (upd_top s f' (st_mem s) None))
          | LADDR, [dst; Olabel l] =>
              ret (do fm <- write_op s f dst (V (Zpos l) Opaque);
                   Ok (upd_top s (next_pc (fst fm)) (snd fm) None))
          | JMPI, [src] =>
              ret (do v <- read_op s (fr_regs f) src;
                   match v_tag v, v_bits v with
                   | Opaque, Zpos l => do f' <- goto f l; Ok (upd_top s f' (st_mem s) None)
                   | _, _ => Er E_tag
                   end)
          | (CALL | INLINE), _ => ret (exec_call s f ops)
          | RET, _ => exec_ret s f ops
          | ALLOCA, [dst; sz] =>
              ret (do v <- read_op s (fr_regs f) sz;
                   do n <- use_as K64 v;
                   if max_alloca <? n then Er E_mem else
                   let base := st_next s in
                   let f1 := set_blocks f (MkBlock base n true :: fr_blocks f) in
                   let s1 := MkState (f1 :: tl (st_frames s)) (st_mem s)
                                     (base + round_up (Z.max n 1) 16 + 16) None (st_events s) (st_oracle s) in
                   do fm <- write_op s1 f1 dst (V base Ptr);
                   Ok (upd_top s1 (next_pc (fst fm)) (snd fm) None))
          | BSTART, [dst] =>
              ret (do fm <- write_op s f dst (V (Z.of_nat (length (fr_blocks f))) Opaque);
                   Ok (upd_top s (next_pc (fst fm)) (snd fm) None))
          | BEND, [src] =>
              ret (do v <- read_op s (fr_regs f) src;
                   match v_tag v with
                   | Opaque =>
                       let n := Z.to_nat (v_bits v) in
                       let have := length (fr_blocks f) in
                       if Nat.leb n have
                       then Ok (upd_top s (next_pc (set_blocks f (skipn (have - n) (fr_blocks f))))
                                        (st_mem s) None)
                       else Er E_tag
                   | _ => Er E_tag
                   end)
          | _, _ => Fail E_unsupported
          end
      end
  end.

Definition step (s : state) : step_result :=
  match st_frames s with
  | nil => Fail E_bad_program
  | f :: _ =>
      match nth_error (fr_body f) (fr_pc f) with
      | None => Fail E_fell_off
      | Some i => exec_insn s f i
      end
  end.

(* ---- running ------------------------------------------------------------------------------ *)

Inductive outcome : Type :=
| Finished (results : list Z) (s : state)
| Stuck (e : err).

(* [None] = out of fuel *)
Fixpoint run (fuel : nat) (s : state) : option outcome :=
  match fuel with
  | O => None
  | S n => match step s with
           | Next s' => run n s'
           | Halt r s' => Some (Finished r s')
           | Fail e => Some (Stuck e)
           end
  end.

End WithProgram.

(* initial state: call item [entry]; raw 64-bit argument patterns are narrowed/extended according
   to the function's argument types, as for any call *)
Definition alloca_base : Z := 1099511627776. (* 2^40: model-only addresses, never observable *)

Definition init_state (prog : program) (entry : nat) (args : list Z) (m : mem) (orc : list Z)
  : option state :=
  match nth_error prog entry with
  | Some (Ifunc fn) =>
      match conv_list (map snd (f_args fn)) true (map (fun z => V (u64 z) Def) args) with
      | Ok vs =>
          Some (MkState [MkFrame (f_body fn) (f_res fn) 0%nat
                                 (bind_args (PositiveMap.empty value) (f_args fn) vs) nil nil]
                        m alloca_base None nil orc)
      | Er _ => None
      end
  | _ => None
  end.

(* what an observer sees of a run: results, bytes of every writable region, ordered events *)
Record observation : Type := MkObs {
  ob_results : list Z;
  ob_memory : list (option (list Z));
  ob_events : list event }.

Definition region_bytes (m : mem) (b : block) : option (list Z) :=
  load_bytes m (b_base b) (Z.to_nat (b_size b)).

Definition observe (regions : list block) (o : outcome) : option observation :=
  match o with
  | Finished r s =>
      Some (MkObs r (map (region_bytes (st_mem s)) (filter b_writable regions)) (rev (st_events s)))
  | Stuck _ => None
  end.

Definition init_mem (regions_init : list (block * list Z)) : mem :=
  fold_left (fun m bi => store_bytes m (b_base (fst bi)) (snd bi)) regions_init (PositiveMap.empty Z).

Definition run_program (isem : insn_sem) (prog : program) (regions_init : list (block * list Z))
           (entry : nat) (args : list Z) (orc : list Z) (fuel : nat) : option outcome :=
  match init_state prog entry args (init_mem regions_init) orc with
  | None => Some (Stuck E_bad_program)
  | Some s => run isem prog (map fst regions_init) fuel s
  end.

(* CExpr: a small typed C expression language, sufficient for the macro bodies of mir-interp.c, the
   GVN constant folder of mir-gen.c and the C templates printed by mir2c.c, which the translators
   tools/tr_c02_*.py / tr_c20_*.py regenerate into coq/gen/*.v on every run.

   Semantics = C11 typing (integer promotions, usual arithmetic conversions, result type of shifts =
   promoted left operand, comparisons yield int) with *machine* behaviour on x86-64/gcc (trusted
   base): two's complement wrap-around for signed +,-,*,unary -, <<; conversion to a signed type is
   modulo 2^n; >> of a signed value is arithmetic; float = IEEE binary32, double = binary64, round to
   nearest even (Flocq, through DocSpecFloat's helpers).  None (undefined / trapping): x/0, x%0,
   INT_MIN / -1, INT_MIN % -1, shift count negative or >= width of the promoted left operand,
   float->integer conversion of NaN/inf/out-of-range, anything on long double, ill-typed mixes. *)
From Coq Require Import ZArith List Bool String.
From Flocq Require Import IEEE754.Binary IEEE754.Bits.
From MirV Require Import Base.W64 Mir.Opcode Mir.DocSpecInt Mir.DocSpecFloat.
Import ListNotations.
Local Open Scope Z_scope.

Inductive cty := CI8 | CU8 | CI16 | CU16 | CI32 | CU32 | CI64 | CU64 | CF | CD | CLD.

Definition cty_eqb (a b : cty) : bool :=
  match a, b with
  | CI8, CI8 | CU8, CU8 | CI16, CI16 | CU16, CU16 | CI32, CI32 | CU32, CU32
  | CI64, CI64 | CU64, CU64 | CF, CF | CD, CD | CLD, CLD => true
  | _, _ => false
  end.

(* (signed?, bits) of an integer type *)
Definition ty_int (t : cty) : option (bool * Z) :=
  match t with
  | CI8 => Some (true, 8) | CU8 => Some (false, 8)
  | CI16 => Some (true, 16) | CU16 => Some (false, 16)
  | CI32 => Some (true, 32) | CU32 => Some (false, 32)
  | CI64 => Some (true, 64) | CU64 => Some (false, 64)
  | _ => None
  end.

Definition is_int (t : cty) : bool := match ty_int t with Some _ => true | None => false end.
Definition ty_signed (t : cty) : bool := match ty_int t with Some (s, _) => s | None => false end.
Definition ty_bits (t : cty) : Z :=
  match ty_int t with Some (_, n) => n | None => match t with CF => 32 | CD => 64 | _ => 80 end end.

(* the value of type t congruent to z *)
Definition wrap_ty (t : cty) (z : Z) : Z :=
  match ty_int t with
  | Some (true, n) => swrap n z
  | Some (false, n) => uwrap n z
  | None => uwrap (ty_bits t) z
  end.

Definition ty_min (t : cty) : Z := if ty_signed t then - 2 ^ (ty_bits t - 1) else 0.
Definition ty_max (t : cty) : Z := if ty_signed t then 2 ^ (ty_bits t - 1) - 1 else 2 ^ ty_bits t - 1.

Definition promote (t : cty) : cty :=
  match t with CI8 | CU8 | CI16 | CU16 => CI32 | _ => t end.

(* usual arithmetic conversions on two promoted integer types (int=32, long=64 bits) *)
Definition arith_conv (t1 t2 : cty) : cty :=
  match t1, t2 with
  | CU64, _ | _, CU64 => CU64
  | CI64, _ | _, CI64 => CI64
  | CU32, _ | _, CU32 => CU32
  | _, _ => CI32
  end.

Inductive cbinop :=
| Oadd | Osub | Omul | Odiv | Omod | Oand | Oor | Oxor | Oshl | Oshr
| Oeq | One | Olt | Ole | Ogt | Oge.
Inductive cunop := Uneg | Ubnot | Ulnot.

Inductive cexpr :=
| EVar (n : nat) (t : cty)            (* input operand n read as an object of C type t *)
| EConst (z : Z) (t : cty)            (* integer constant of type t *)
| ECast (t : cty) (e : cexpr)
| EUn (o : cunop) (e : cexpr)
| EBin (o : cbinop) (e1 e2 : cexpr)
| ECond (c e1 e2 : cexpr).

Definition cval := (cty * Z)%type.     (* integer types: the mathematical value; CF/CD/CLD: bit pattern *)

Definition cmp_of (o : cbinop) : option icmp :=
  match o with
  | Oeq => Some CEq | One => Some CNe | Olt => Some CLt | Ole => Some CLe
  | Ogt => Some CGt | Oge => Some CGe | _ => None
  end.

Definition fop_of (o : cbinop) : option fbinop :=
  match o with Oadd => Some FAdd | Osub => Some FSub | Omul => Some FMul | Odiv => Some FDiv | _ => None end.

(* exact truncation toward zero of a float pattern; None for NaN / infinity *)
Definition trunc32 (a : Z) : option Z :=
  if Binary.is_finite 24 128 (f_of a) then Some (Binary.Btrunc 24 128 (f_of a)) else None.
Definition trunc64 (a : Z) : option Z :=
  if Binary.is_finite 53 1024 (d_of a) then Some (Binary.Btrunc 53 1024 (d_of a)) else None.

(* conversion of value v of type s to type t (cast, assignment, usual arithmetic conversion) *)
Definition convert (t : cty) (sv : cval) : option Z :=
  let (s, v) := sv in
  match is_int s, is_int t with
  | true, true => Some (wrap_ty t v)
  | true, false => match t with CF => Some (z2f v) | CD => Some (z2d v) | _ => None end
  | false, true =>
      match match s with CF => trunc32 v | CD => trunc64 v | _ => None end with
      | Some z => if (ty_min t <=? z) && (z <=? ty_max t) then Some z else None
      | None => None
      end
  | false, false =>
      match s, t with
      | CF, CF => Some v | CD, CD => Some v | CLD, CLD => Some v
      | CF, CD => Some (f2d v) | CD, CF => Some (d2f v)
      | _, _ => None
      end
  end.

(* integer binary operation at (already converted) common type t; shifts: t = promoted left type *)
Definition int_binop (o : cbinop) (t : cty) (x y : Z) : option cval :=
  match o with
  | Oadd => Some (t, wrap_ty t (x + y))
  | Osub => Some (t, wrap_ty t (x - y))
  | Omul => Some (t, wrap_ty t (x * y))
  | Odiv => if (y =? 0) || (ty_signed t && (x =? ty_min t) && (y =? -1)) then None
            else Some (t, wrap_ty t (Z.quot x y))
  | Omod => if (y =? 0) || (ty_signed t && (x =? ty_min t) && (y =? -1)) then None
            else Some (t, wrap_ty t (Z.rem x y))
  | Oand => Some (t, wrap_ty t (Z.land x y))
  | Oor => Some (t, wrap_ty t (Z.lor x y))
  | Oxor => Some (t, wrap_ty t (Z.lxor x y))
  | Oshl => if (0 <=? y) && (y <? ty_bits t) then Some (t, wrap_ty t (x * 2 ^ y)) else None
  | Oshr => if (0 <=? y) && (y <? ty_bits t) then Some (t, x / 2 ^ y) else None
  | Oeq | One | Olt | Ole | Ogt | Oge =>
      match cmp_of o with Some c => Some (CI32, b2z (cmpZ c x y)) | None => None end
  end.

Definition float_binop (o : cbinop) (t : cty) (x y : Z) : option cval :=
  match t with
  | CF => match fop_of o, cmp_of o with
          | Some f, _ => Some (CF, fbin32 f x y)
          | _, Some c => Some (CI32, b2z (fcompare32 c x y))
          | _, _ => None
          end
  | CD => match fop_of o, cmp_of o with
          | Some f, _ => Some (CD, fbin64 f x y)
          | _, Some c => Some (CI32, b2z (fcompare64 c x y))
          | _, _ => None
          end
  | _ => None
  end.

Definition is_shift (o : cbinop) : bool := match o with Oshl | Oshr => true | _ => false end.

Definition binop (o : cbinop) (a b : cval) : option cval :=
  let (ta, va) := a in let (tb, vb) := b in
  if is_int ta && is_int tb then
    if is_shift o then int_binop o (promote ta) va vb
    else let t := arith_conv (promote ta) (promote tb) in
         int_binop o t (wrap_ty t va) (wrap_ty t vb)
  else
    let t := match ta, tb with
             | CLD, _ | _, CLD => CLD
             | CD, _ | _, CD => CD
             | _, _ => CF
             end in
    match convert t a, convert t b with
    | Some x, Some y => float_binop o t x y
    | _, _ => None
    end.

Definition unop (o : cunop) (a : cval) : option cval :=
  let (t, v) := a in
  if is_int t then
    let p := promote t in
    match o with
    | Uneg => Some (p, wrap_ty p (- v))
    | Ubnot => Some (p, wrap_ty p (- v - 1))
    | Ulnot => Some (CI32, b2z (v =? 0))
    end
  else match o, t with
       | Uneg, CF => Some (CF, fneg32 v)
       | Uneg, CD => Some (CD, fneg64 v)
       | _, _ => None
       end.

Definition truth (a : cval) : option bool :=
  let (t, v) := a in
  if is_int t then Some (negb (v =? 0))
  else match t with
       | CF => Some (fcompare32 CNe v 0)
       | CD => Some (fcompare64 CNe v 0)
       | _ => None
       end.

Definition read_var (t : cty) (pattern : Z) : Z := wrap_ty t pattern.

Fixpoint ceval (env : list Z) (e : cexpr) : option cval :=
  match e with
  | EVar n t => match nth_error env n with Some p => Some (t, read_var t p) | None => None end
  | EConst z t => if is_int t then Some (t, wrap_ty t z) else None
  | ECast t e1 => match ceval env e1 with
                  | Some a => match convert t a with Some v => Some (t, v) | None => None end
                  | None => None
                  end
  | EUn o e1 => match ceval env e1 with Some a => unop o a | None => None end
  | EBin o e1 e2 => match ceval env e1, ceval env e2 with
                    | Some a, Some b => binop o a b
                    | _, _ => None
                    end
  | ECond c e1 e2 =>
      match ceval env c with
      | Some cv =>
          match truth cv with
          | Some true => ceval env e1     (* only the selected arm is evaluated *)
          | Some false => ceval env e2
          | None => None
          end
      | None => None
      end
  end.

(* the 64-bit (80 for LD) slot pattern left by assigning value a to an object of type t; for types
   narrower than the slot the remaining bits are unspecified (reported as 0 here) *)
Definition assign (t : cty) (a : cval) : option Z :=
  match convert t a with
  | Some v => Some (uwrap (if is_int t then 64 else ty_bits t) v)
  | None => None
  end.

(* the type of e when it is well-typed (independent of the environment): used by arm-typing of ?: *)
Definition cexpr_eqb_cty := cty_eqb.

(* ------------------------------------------------------------------ statement-level rows *)
Inductive cstmt :=
| SAssign (t : cty) (e : cexpr)                         (* result object of type t  = e *)
| SBranch (e : cexpr)                                   (* if (e) goto label *)
| SOvf (t : cty) (e : cexpr) (sflag uflag : option cexpr) (* result = e; flags assigned *)
| SLoad (val_t mem_t : cty)                             (* result(val_t) = *(mem_t * ) addr *)
| SStore (mem_t : cty) (e : cexpr)                      (* *(mem_t * ) addr = e *)
| SOvfB (o : cbinop) (t : cty) (e1 e2 : cexpr) (flagvar : nat) (store : bool)
    (* flagvar = __builtin_{add,sub,mul}_overflow (e1, e2, (t * ) &dst): GCC semantics = the operation on
       the operands' values in infinite precision, converted to t; flag = that conversion changed the
       value.  store = false: dst is a scratch object, only the flag is kept *)
| SNone                                                 (* construct present but emits nothing *)
| SUnknown (text : string).                             (* translator could not parse: no semantics *)

Definition stmt_value (env : list Z) (s : cstmt) : option Z :=
  match s with
  | SAssign t e => match ceval env e with Some a => assign t a | None => None end
  | SOvf t e _ _ => match ceval env e with Some a => assign t a | None => None end
  | _ => None
  end.

Definition stmt_branch (env : list Z) (s : cstmt) : option bool :=
  match s with
  | SBranch e => match ceval env e with Some a => truth a | None => None end
  | _ => None
  end.

Definition opt_flag (env : list Z) (f : option cexpr) : option (option bool) :=
  match f with
  | None => Some None
  | Some e => match ceval env e with
              | Some a => match truth a with Some b => Some (Some b) | None => None end
              | None => None
              end
  end.

(* (result pattern, signed flag if assigned, unsigned flag if assigned) *)
Definition stmt_ovf (env : list Z) (s : cstmt) : option (Z * option bool * option bool) :=
  match s with
  | SOvf t e sf uf =>
      match ceval env e, opt_flag env sf, opt_flag env uf with
      | Some a, Some fs, Some fu =>
          match assign t a with Some r => Some (r, fs, fu) | None => None end
      | _, _, _ => None
      end
  | _ => None
  end.

Definition exact_binop (o : cbinop) (x y : Z) : option Z :=
  match o with Oadd => Some (x + y) | Osub => Some (x - y) | Omul => Some (x * y) | _ => None end.

(* (pattern written to dst [low ty_bits t bits meaningful], flag variable, flag value, dst is the result?) *)
Definition stmt_ovfb (env : list Z) (s : cstmt) : option (Z * nat * bool * bool) :=
  match s with
  | SOvfB o t e1 e2 fv st =>
      match ceval env e1, ceval env e2 with
      | Some (t1, x), Some (t2, y) =>
          if is_int t1 && is_int t2 && is_int t then
            match exact_binop o x y with
            | Some z => Some (uwrap 64 (wrap_ty t z), fv, negb ((ty_min t <=? z) && (z <=? ty_max t)), st)
            | None => None
            end
          else None
      | _, _ => None
      end
  | _ => None
  end.

(* memory rows: bytes are little-endian byte lists as in DocSpecInt *)
Definition stmt_load (s : cstmt) (bytes : list Z) : option Z :=
  match s with
  | SLoad vt mt =>
      let n := Z.to_nat (ty_bits mt / 8) in
      assign vt (mt, read_var mt (le_bytes_to_Z (firstn n bytes)))
  | _ => None
  end.

Definition stmt_store (env : list Z) (s : cstmt) : option (list Z) :=
  match s with
  | SStore mt e =>
      match ceval env e with
      | Some a =>
          match convert mt a with
          | Some v => Some (Z_to_le_bytes (Z.to_nat (ty_bits mt / 8)) (uwrap (ty_bits mt) v))
          | None => None
          end
      | None => None
      end
  | _ => None
  end.

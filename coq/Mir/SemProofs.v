(* Generic facts about the reference interpreter (any program, any instruction semantics). *)
From Coq Require Import ZArith List Bool Lia.
From MirV Require Import Mir.Opcode Mir.Syntax Mir.Sem.

Section Facts.
Variable isem : insn_sem.
Variable prog : program.
Variable regions : list block.

Notation run := (run isem prog regions).
Notation step := (step isem prog regions).

(* more fuel never changes a finished verdict *)
Lemma run_fuel_mono : forall n k s r, run n s = Some r -> run (n + k) s = Some r.
Proof.
  induction n as [|n IH]; intros k s r H; cbn [Sem.run] in *.
  - discriminate.
  - cbn [Nat.add Sem.run]. destruct (step s) as [s'|res s'|e]; auto.
Qed.

Lemma run_fuel_le : forall n m s r, (n <= m)%nat -> run n s = Some r -> run m s = Some r.
Proof.
  intros n m s r Hle H. replace m with (n + (m - n))%nat by lia. now apply run_fuel_mono.
Qed.

(* determinism: the verdict does not depend on how much fuel was supplied *)
Lemma run_deterministic : forall n m s r1 r2, run n s = Some r1 -> run m s = Some r2 -> r1 = r2.
Proof.
  intros n m s r1 r2 H1 H2.
  destruct (Nat.le_ge_cases n m) as [Hle|Hle].
  - pose proof (run_fuel_le _ _ _ _ Hle H1) as H. congruence.
  - pose proof (run_fuel_le _ _ _ _ Hle H2) as H. congruence.
Qed.

(* a run is the iteration of [step]: unfolding lemma used by the instruction-level proofs *)
Lemma run_step_next : forall n s s', step s = Next s' -> run (S n) s = run n s'.
Proof. intros n s s' H. cbn [Sem.run]. now rewrite H. Qed.

End Facts.

Lemma run_program_fuel_mono : forall isem prog ri entry args orc n k r,
  run_program isem prog ri entry args orc n = Some r ->
  run_program isem prog ri entry args orc (n + k) = Some r.
Proof.
  intros isem prog ri entry args orc n k r. unfold run_program.
  destruct (init_state prog entry args (init_mem ri) orc); [apply run_fuel_mono|auto].
Qed.

Lemma run_program_deterministic : forall isem prog ri entry args orc n m r1 r2,
  run_program isem prog ri entry args orc n = Some r1 ->
  run_program isem prog ri entry args orc m = Some r2 -> r1 = r2.
Proof.
  intros isem prog ri entry args orc n m r1 r2. unfold run_program.
  destruct (init_state prog entry args (init_mem ri) orc); [apply run_deterministic|congruence].
Qed.

(* long double at the boundaries of a function: between MIR functions a long double value passes
   unchanged (all 80 bits) and nothing else passes at type ld; towards the outside world (external
   functions, the result of the entry function) the type is not supported *)
Lemma ld_boundary : forall z,
  conv_ty T_LD false (V z LDt) = Ok (V z LDt) /\
  (forall g, g <> LDt -> conv_ty T_LD false (V z g) = Er E_tag) /\
  (forall v, conv_ty T_LD true v = Er E_tag) /\
  (forall t, t <> T_LD -> conv_ty t false (V z LDt) = Er E_tag).
Proof.
  intros z. split; [reflexivity|]. split; [|split].
  - intros g Hg. destruct g; try reflexivity. congruence.
  - intros [b g]. destruct g; reflexivity.
  - intros t Ht. destruct t; try reflexivity. congruence.
Qed.

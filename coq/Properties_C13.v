(* Property C13: imports bind to the most recently loaded export, for any load/link history.
   Only the property theorems, each closed by [exact] and followed by Print Assumptions.
   Model: C13/Link.v (mir.c add_item, setup_global, MIR_load_module, MIR_load_external,
   MIR_link's binding loop); proofs: C13/LinkProofs.v; non-vacuity: C13/LinkExamples.v.

   Vocabulary (all defined in Link.v over the OBSERVABLE trace of a history):
     pubs tr       the log of definitions made visible so far, oldest first: the exported items of
                   every successfully loaded module (in item order), every MIR_load_external, and
                   every address a link's resolver supplied
     last_def log n  the last entry of the log for name n
     wanted log r n  last_def log n, else the resolver's address for n, else None
     pending tr    the modules loaded successfully since the last completed link
     redef_of tr   the redefinition permission in force

   Histories go on after an error: a rejected load and a failed link are steps like any other (the
   error function longjmps back and the context is used again); only a module that cannot even be
   BUILT ends a history ([dead]).  [run] = the behaviour the property describes (a rejected load
   has no effect; the tree with fixes/C13-1.patch); [run_pinned] = the tree as pinned, which
   differs after a rejected load only (pinned_agrees_without_rejection,
   rejected_load_no_effect_pinned_refuted). *)
From Coq Require Import List.
Import ListNotations.
From MirV Require Import C13.Link C13.LinkProofs C13.BuildProofs C13.LinkExamples C13.Reent C13.ReentProofs.
From Coq Require Import ZArith.
From MirV Require Import C13.Perm.

(* For every history p - rejected loads, failed links and interface-less links included -, every
   Link step taken after it (whatever follows): the step's output is
   the next element of the trace, and if every module of p could be built, then
   - a completed link reports one binding list per module loaded since the previous link, in load
     order, and every import n of every such module is bound to the definition of n that was
     loaded last before the step (MIR export or external), else to the resolver's address; the
     resolver was consulted only for names with no definition;
   - a failed link (undeclared_op_ref) means that some import of some pending module has neither
     a definition nor a resolver address.
   "Loaded since the previous link" = since the previous COMPLETED link: the modules of a failed
   link are bound again by the next one, to what is latest then. *)
Theorem link_binds_latest : forall (p : list op) (r : resolver) (rest : list op),
  exists out tail,
    snd (run (p ++ Link r :: rest)) = snd (run p) ++ (Link r, out) :: tail /\
    (dead (fst (run p)) = false -> link_step_spec (snd (run p)) r out).
Proof. exact link_binds_latest_proof. Qed.
Print Assumptions link_binds_latest.

(* the same without the liveness premise: no load error and no link error ends a history *)
Theorem link_binds_latest_all : forall (p : list op) (r : resolver) (rest : list op),
  Forall builds p ->
  exists out tail,
    snd (run (p ++ Link r :: rest)) = snd (run p) ++ (Link r, out) :: tail /\
    link_step_spec (snd (run p)) r out.
Proof. exact link_binds_latest_all_proof. Qed.
Print Assumptions link_binds_latest_all.

Theorem errors_do_not_end_history : forall h, Forall builds h -> dead (fst (run h)) = false.
Proof. exact alive_proof. Qed.
Print Assumptions errors_do_not_end_history.

(* MIR_link with a NULL set_interface: the same bindings are made and reported, the modules stay
   queued (queue_is_pending: only a completed Link empties the queue). *)
Theorem nulliface_binds_latest : forall (p : list op) (r : resolver) (rest : list op),
  Forall builds p ->
  exists out tail,
    snd (run (p ++ LinkNoIface r :: rest)) = snd (run p) ++ (LinkNoIface r, out) :: tail /\
    bind_step_spec (snd (run p)) r out.
Proof. exact nulliface_binds_latest_proof. Qed.
Print Assumptions nulliface_binds_latest.

(* "Rejected": a load that raises repeated_decl leaves the table of globals, the queue, the
   permission and the recorded bindings as they were, and the history goes on; on the trace it
   contributes nothing to the log of definitions. *)
Theorem rejected_load_no_effect : forall s ds e,
  dead s = false -> (exists m, build ds = inl m) ->
  snd (step true s (Load ds)) = OErr e ->
  let s' := fst (step true s (Load ds)) in
  env s' = env s /\ to_link s' = to_link s /\ redef s' = redef s /\ linked s' = linked s /\
  dead s' = false.
Proof. exact rejected_load_no_effect_proof. Qed.
Print Assumptions rejected_load_no_effect.

Theorem rejected_load_invisible : forall tr ds e,
  pubs (tr ++ [(Load ds, OErr e)]) = pubs tr /\ pending (tr ++ [(Load ds, OErr e)]) = pending tr /\
  redef_of (tr ++ [(Load ds, OErr e)]) = redef_of tr.
Proof. exact rejected_load_invisible_proof. Qed.
Print Assumptions rejected_load_invisible.

(* The pinned tree violates this (MIR_load_module runs the check after setup_global): witness
   `L e0 F0 ; L e0 F0`, and `L e0 F0 ; L e0 F0 ; L i0 ; K` binds the import to the function of the
   rejected, never linked module.  fixes/C13-1.patch. *)
Theorem rejected_load_no_effect_pinned_refuted :
  exists s ds e, dead s = false /\ (exists m, build ds = inl m) /\
    snd (step false s (Load ds)) = OErr e /\ env (fst (step false s (Load ds))) <> env s.
Proof. exact rejected_load_pinned_refuted_proof. Qed.
Print Assumptions rejected_load_no_effect_pinned_refuted.

Theorem rejected_load_binding_pinned_refuted :
  exists h, Forall builds h /\ linked (fst (run_pinned h)) <> linked (fst (run h)).
Proof. exact rejected_load_pinned_binding_refuted_proof. Qed.
Print Assumptions rejected_load_binding_pinned_refuted.

(* Everything else is the same on the pinned tree: the two variants agree on every history in
   which no load is rejected. *)
Theorem pinned_agrees_without_rejection : forall h,
  existsb is_rejection (snd (run h)) = false -> run_pinned h = run h.
Proof. exact variants_agree_proof. Qed.
Print Assumptions pinned_agrees_without_rejection.

(* A failed link keeps the queue and the recorded bindings; the table of globals only gains the
   addresses the resolver supplied before the failing import, for names that had no definition. *)
Theorem failed_link_effect : forall s r res,
  snd (step true s (Link r)) = OLinkFailed res ->
  let s' := fst (step true s (Link r)) in
  to_link s' = to_link s /\ linked s' = linked s /\ redef s' = redef s /\ dead s' = false /\
  env s' = apply_new (env s) res /\
  (forall n, assoc (env s) n <> None -> assoc (env s') n = assoc (env s) n).
Proof. exact failed_link_effect_proof. Qed.
Print Assumptions failed_link_effect.

(* (wave 6) A completed link registers nothing but the resolver's answers either: the exports of the modules it
   binds were published when the modules were LOADED (in load order, interleaved with MIR_load_external) and are not
   published again module by module while the queue is walked.  Every name that had a definition when the link
   started keeps exactly that definition - so an importer queued after an older exporter of a name still gets what
   was registered last (link_binds_latest), and the next link step starts from the same table. *)
Theorem completed_link_publishes_nothing : forall s r bs res,
  snd (step true s (Link r)) = OLinked bs res ->
  let s' := fst (step true s (Link r)) in
  to_link s' = [] /\ linked s' = linked s ++ bs /\ redef s' = redef s /\ dead s' = false /\
  env s' = apply_new (env s) res /\
  (forall n, assoc (env s) n <> None -> assoc (env s') n = assoc (env s) n).
Proof. exact completed_link_publishes_nothing_proof. Qed.
Print Assumptions completed_link_publishes_nothing.

(* Loading a built module after any history either succeeds or raises repeated_decl, and it raises
   it exactly when redefinition is not permitted and the module exports a FUNCTION whose name
   already has a definition in the log (an earlier export of any kind, an external, a resolver
   address) or earlier in the same module. *)
Theorem link_redef_rejected : forall (h : list op) (ds : list decl) (m : modl),
  let s := fst (run h) in
  let tr := snd (run h) in
  let out := snd (step true s (Load ds)) in
  dead s = false -> build ds = inl m ->
  (out = OOk \/ out = OErr ERepeatedDecl) /\
  (out = OErr ERepeatedDecl <-> redef_of tr = false /\ redefines (pubs tr) (loads_in tr) m).
Proof. exact link_redef_rejected_proof. Qed.
Print Assumptions link_redef_rejected.

(* The property's third clause, literally: once an earlier successful load exported a FUNCTION named
   n, loading a module that exports a function named n is rejected with repeated_decl iff
   redefinition is not permitted, and is accepted when it is. *)
Theorem second_function_export_rejected : forall (h : list op) (ds : list decl) (m : modl) n k i it,
  let s := fst (run h) in
  let tr := snd (run h) in
  dead s = false -> build ds = inl m ->
  In (n, DMod k i KFunc) (pubs tr) ->
  In it (mitems m) -> ik it = KFunc -> iexp it = true -> iname it = n ->
  (snd (step true s (Load ds)) = OErr ERepeatedDecl <-> redef_of tr = false) /\
  (redef_of tr = true -> snd (step true s (Load ds)) = OOk).
Proof. exact second_function_export_proof. Qed.
Print Assumptions second_function_export_rejected.

(* Bindings recorded for modules linked earlier are never changed by anything that follows. *)
Theorem link_earlier_bindings_stable : forall (h later : list op),
  exists ext, linked (fst (run (h ++ later))) = linked (fst (run h)) ++ ext.
Proof. exact link_earlier_bindings_stable_proof. Qed.
Print Assumptions link_earlier_bindings_stable.

Theorem link_records_bindings : forall am s r bs res,
  snd (step am s (Link r)) = OLinked bs res -> linked (fst (step am s (Link r))) = linked s ++ bs.
Proof. exact link_records_bindings_proof. Qed.
Print Assumptions link_records_bindings.

(* The two pieces of hidden state are functions of the observable trace: the to-link queue is
   exactly the modules loaded since the last completed link, and the table of visible globals
   answers every name with the last logged definition. *)
Theorem queue_is_pending : forall h,
  dead (fst (run h)) = false -> to_link (fst (run h)) = pending (snd (run h)).
Proof. exact queue_is_pending_proof. Qed.
Print Assumptions queue_is_pending.

Theorem table_is_last_def : forall h n,
  dead (fst (run h)) = false -> assoc (env (fst (run h))) n = last_def (pubs (snd (run h))) n.
Proof. exact table_is_last_def_proof. Qed.
Print Assumptions table_is_last_def.

(* The module-building layer (add_item), for every declaration list that builds: the module holds
   the declared definitions once each in declaration order; a definition carries the export flag
   exactly when the module declares `export` of its name - before or after the definition, with
   or without forwards in between; no other item carries it.  So "a module exporting n" in the
   theorems above means what the module's source says. *)
Theorem build_exports_spec : forall ds m, build ds = inl m ->
  map kn (filter (fun it => is_def (ik it)) (mitems m)) = filter is_def_decl ds /\
  (forall it, In it (mitems m) -> is_def (ik it) = true ->
              (iexp it = true <-> In (KExport, iname it) ds)) /\
  (forall it, In it (mitems m) -> is_def (ik it) = false -> iexp it = false).
Proof. exact build_exports_spec_proof. Qed.
Print Assumptions build_exports_spec.

(* The names a successful Load adds to the log, in order: the declared definitions whose name is
   declared exported. *)
Theorem load_publishes_declared : forall ds m id, build ds = inl m ->
  map fst (exported id m)
  = map snd (filter (fun d => declared_exp ds (snd d)) (filter is_def_decl ds)).
Proof. exact load_publishes_declared_proof. Qed.
Print Assumptions load_publishes_declared.

(* The imports of a built module: the names it declares `import`, once each, in order of first
   declaration. *)
Theorem build_imports_spec : forall ds m, build ds = inl m ->
  imports_of m = nodup_first (import_names ds).
Proof. exact build_imports_spec_proof. Qed.
Print Assumptions build_imports_spec.

(* Forward declarations and exports: every completed link stores in every export and forward item
   of every module it binds the module's OWN entry for that name (never anything from the table of
   globals) ... *)
Theorem export_forward_bind_locally : forall (p : list op) (r : resolver) (o : op),
  o = Link r \/ o = LinkNoIface r ->
  forall bs res, snd (step true (fst (run p)) o) = OLinked bs res
                 \/ snd (step true (fst (run p)) o) = OBound bs res ->
  dead (fst (run p)) = false ->
  Forall2 (fun m ib => fst ib = lid m /\ local_bindings (snd ib) = local_spec (lid m) (lmd m))
          (pending (snd (run p))) bs.
Proof. exact export_forward_local_proof. Qed.
Print Assumptions export_forward_bind_locally.

(* ... which for a built module is its definition of the name, whatever the declaration order
   (forward before or after the definition), and NULL when the module only declares the name. *)
Theorem local_ref_spec : forall ds m id, build ds = inl m ->
  (forall i t, nth_error (mitems m) i = Some t -> is_def (ik t) = true ->
               local_ref id m (iname t) = Some (DMod id i (ik t))) /\
  (forall n, (forall k, In (k, n) ds -> is_def k = false) -> local_ref id m n = None).
Proof. exact local_ref_spec_proof. Qed.
Print Assumptions local_ref_spec.

(* ---- Round 3 (wave 5): a link step whose import resolver itself loads modules (MIR_load_module
   called from the resolver while MIR_link walks the queue; model C13/Reent.v [step_re]: the queue
   walked by the binding loop grows at its end by what the resolver loads).

   With a resolver that loads nothing the step is the Link step of the theorems above. *)
Theorem reent_conservative : forall s r,
  step_re s [] r = (fst (step true s (Link r)), routput_of (snd (step true s (Link r)))).
Proof. exact reent_conservative_proof. Qed.
Print Assumptions reent_conservative.

(* A completed step leaves the queue empty and reports - and records - one binding list for EVERY
   module it dequeued: the modules queued before the step followed by the modules the resolver
   loaded during it, each with a non-NULL binding for every one of its imports, in import order.
   (A link that reads the queue length once before its loops dequeues resolver-loaded modules
   without binding them: seeded C13-z2.) *)
Theorem reent_link_binds_every_dequeued_module : forall s sc fb bs res,
  snd (step_re s sc fb) = RLinked bs res ->
  let s' := fst (step_re s sc fb) in
  to_link s' = [] /\ linked s' = linked s ++ bs /\ dead s' = false /\
  exists new, Forall2 bound_ok (to_link s ++ new) bs.
Proof. exact reent_binds_every_dequeued_module_proof. Qed.
Print Assumptions reent_link_binds_every_dequeued_module.

(* A failed step (undeclared_op_ref, or repeated_decl raised by a load the resolver performed)
   dequeues nothing; what the resolver had loaded is queued behind the earlier modules and is bound
   by the next completed link. *)
Theorem reent_failed_link_keeps_queue : forall s sc fb x res,
  snd (step_re s sc fb) = RFailed x res ->
  let s' := fst (step_re s sc fb) in
  linked s' = linked s /\ redef s' = redef s /\ dead s' = false /\
  exists added, to_link s' = to_link s ++ added.
Proof. exact reent_failed_keeps_queue_proof. Qed.
Print Assumptions reent_failed_link_keeps_queue.

(* Round 3 (seeded C13-u2): MIR_set_func_redef_permission takes an `int` truth value.  For every state of a live
   history and EVERY int z the step `R z` succeeds and leaves redefinition permitted iff z is non-zero
   (2, -1, 256, INT_MIN ... permit).  A field that keeps only the low bit of z agrees on 0 and 1 and is refuted by 2. *)
Theorem set_permission_any_nonzero_int : forall atomic s z,
  dead s = false ->
  (redef (fst (step atomic s (SetRedef (perm_of_int z)))) = true <-> z <> 0%Z) /\
  snd (step atomic s (SetRedef (perm_of_int z))) = OOk.
Proof. exact set_perm_int_proof. Qed.
Print Assumptions set_permission_any_nonzero_int.

Theorem permission_low_bit_only_refuted :
  exists z, z <> 0%Z /\ perm_of_int z = true /\ perm_low_bit z = false.
Proof. exact perm_low_bit_refuted_proof. Qed.
Print Assumptions permission_low_bit_only_refuted.

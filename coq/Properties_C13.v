From Coq Require Import List.
From MirV Require Import C13.Link C13.LinkProofs.
Theorem placeholder_c13 : True.
Proof. exact placeholder. Qed.
Print Assumptions placeholder_c13.

(* Property C18: independent contexts can be used from different threads without interference.
   Only the property theorems, each closed by [exact] and followed by Print Assumptions. *)
From Coq Require Import List String ZArith NArith Bool.
From MirV Require Import C18.Static C18.Contexts C18.ContextsProofs.
Import ListNotations.

(* Generic model: if no library function has a static object in its write footprint, then for
   every schedule (interleaving of steps of any number of threads, each step a function of the
   statics' contents and the thread's own context that respects its footprint) every thread ends
   with the context it would have running alone. *)
Theorem noninterference :
  forall (Ctx : Type) (footprint : string -> list string),
    (forall f, footprint f = []) ->
    forall (sched : list (nat * step Ctx)) (st : sys Ctx) (i : nat),
      Forall (fun p => step_ok Ctx footprint (snd p)) sched ->
      result Ctx i (run Ctx sched st) = result Ctx i (run Ctx (alone Ctx i sched) st).
Proof. exact noninterference_lemma. Qed.
Print Assumptions noninterference.

(* all interleavings of the same per-thread workloads are equivalent for every thread *)
Theorem schedule_independence :
  forall (Ctx : Type) (footprint : string -> list string),
    (forall f, footprint f = []) ->
    forall (s1 s2 : list (nat * step Ctx)) (st : sys Ctx),
      Forall (fun p => step_ok Ctx footprint (snd p)) s1 ->
      Forall (fun p => step_ok Ctx footprint (snd p)) s2 ->
      (forall i, alone Ctx i s1 = alone Ctx i s2) ->
      forall i, result Ctx i (run Ctx s1 st) = result Ctx i (run Ctx s2 st).
Proof. exact schedule_independence_lemma. Qed.
Print Assumptions schedule_independence.

(* steps of different threads commute *)
Theorem steps_commute :
  forall (Ctx : Type) (footprint : string -> list string),
    (forall f, footprint f = []) ->
    forall (st : sys Ctx) i j (s t : step Ctx),
      i <> j -> step_ok Ctx footprint s -> step_ok Ctx footprint t ->
      let a := exec1 Ctx (exec1 Ctx st (i, s)) (j, t) in
      let b := exec1 Ctx (exec1 Ctx st (j, t)) (i, s) in
      sh_eq (fst a) (fst b) /\ forall k, snd a k = snd b k.
Proof. exact steps_commute_lemma. Qed.
Print Assumptions steps_commute.


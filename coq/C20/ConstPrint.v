(* C20: integer constants printed by mir2c re-read, by the C compiler, as the same value.

   out_op prints a MIR_OP_INT operand with "%" PRId64 and a MIR_OP_UINT operand with "%" PRIu64 (the formats
   are re-extracted from mir2c.c on every run: gen/Mir2cTable.v mir2c_int_fmt / mir2c_uint_fmt).  Model:
   * printf %d / %u of a 64-bit value: an optional '-' and the decimal digits of the magnitude, most
     significant first, no leading zero ([digits]);
   * the C constant expression the compiler reads back: a decimal-constant without suffix (a leading 0 would
     make it octal, so well-formedness demands a non-zero first digit unless the constant is "0") of the first
     of the types int, long, __int128 (gcc's extended type, what gcc 12 -std=gnu11 uses for a constant above
     LONG_MAX) that holds its value, under an optional unary minus evaluated in that type.
   Theorems: the value read back is EXACTLY the printed value (no wrap-around, in particular for
   INT64_MIN = -(9223372036854775808 as __int128) and for unsigned values above INT64_MAX), hence congruent
   to the operand modulo 2^64; and every integer operand of every template is converted to a type of at most
   64 bits before it is used ([lit_safe]), where a constant of exact value v and an int64_t variable holding
   the wrapped v convert to the same value ([literal_converts_like_variable]). *)
From Coq Require Import ZArith Lia Bool List.
From MirV Require Import Base.W64 Mir.CExpr C02.WFacts C02.RowProofs.
Import ListNotations.
Local Open Scope Z_scope.

(* ---------------------------------------------------------------- printing *)
Fixpoint digits_fuel (fuel : nat) (n : Z) : list Z :=
  match fuel with
  | O => []
  | S f => if n <? 10 then [n] else digits_fuel f (n / 10) ++ [n mod 10]
  end.

(* 2^64 < 10^20 *)
Definition digits (n : Z) : list Z := digits_fuel 20 n.

Inductive ctok := TMinus | TDigits (ds : list Z).

Definition print_d (v : Z) : list ctok :=
  if v <? 0 then [TMinus; TDigits (digits (- v))] else [TDigits (digits v)].
Definition print_u (v : Z) : list ctok := [TDigits (digits v)].

(* the conversion specifications mir2c may use for integer operands (others: no model) *)
Inductive cfmt := FmtD64 | FmtU64 | FmtOther.

(* what out_op prints for an integer operand whose 64-bit pattern is v *)
Definition print_fmt (f : cfmt) (v : Z) : option (list ctok) :=
  match f with
  | FmtD64 => Some (print_d (s64 v))
  | FmtU64 => Some (print_u (u64 v))
  | FmtOther => None
  end.

(* ---------------------------------------------------------------- reading *)
Definition value (ds : list Z) : Z := fold_left (fun a d => 10 * a + d) ds 0.

Definition digit_ok (d : Z) : bool := (0 <=? d) && (d <=? 9).

(* a decimal-constant: digits only, and no leading 0 (that would be an octal-constant) except "0" itself *)
Definition decimal_ok (ds : list Z) : bool :=
  forallb digit_ok ds
  && match ds with
     | [] => false
     | [d] => true
     | d :: _ => negb (d =? 0)
     end.

Inductive lty := LInt | LLong | LInt128.
Definition lty_max (t : lty) : Z := match t with LInt => 2 ^ 31 - 1 | LLong => 2 ^ 63 - 1 | LInt128 => 2 ^ 127 - 1 end.
Definition lty_min (t : lty) : Z := - lty_max t - 1.

Definition lit_type (n : Z) : option lty :=
  if n <=? lty_max LInt then Some LInt
  else if n <=? lty_max LLong then Some LLong
  else if n <=? lty_max LInt128 then Some LInt128
  else None.

(* type and exact value of the constant expression; None: not a constant / overflow in its type *)
Definition c_const (toks : list ctok) : option (lty * Z) :=
  match toks with
  | [TDigits ds] =>
      if decimal_ok ds then match lit_type (value ds) with Some t => Some (t, value ds) | None => None end else None
  | [TMinus; TDigits ds] =>
      if decimal_ok ds then
        match lit_type (value ds) with
        | Some t => if lty_min t <=? - value ds then Some (t, - value ds) else None
        | None => None
        end
      else None
  | _ => None
  end.

(* ---------------------------------------------------------------- digits: value, shape *)
Lemma value_app l d : value (l ++ [d]) = 10 * value l + d.
Proof. unfold value. rewrite fold_left_app. reflexivity. Qed.

Lemma digits_value fuel : forall n, 0 <= n < 10 ^ Z.of_nat fuel -> (0 < fuel)%nat -> value (digits_fuel fuel n) = n.
Proof.
  induction fuel as [|f IH]; intros n Hn Hf; [lia|].
  cbn [digits_fuel]. destruct (n <? 10) eqn:E.
  - unfold value. cbn. lia.
  - apply Z.ltb_ge in E. rewrite value_app.
    assert (Hp : 10 ^ Z.of_nat (S f) = 10 * 10 ^ Z.of_nat f) by (rewrite Nat2Z.inj_succ, Z.pow_succ_r; lia).
    assert (Hq : 0 <= n / 10 < 10 ^ Z.of_nat f).
    { split; [apply Z.div_pos; lia|]. apply Z.div_lt_upper_bound; lia. }
    destruct f as [|f'].
    + cbn in Hq. assert (n / 10 >= 1) by (apply Z.le_ge, Z.div_le_lower_bound; lia). lia.
    + rewrite IH by (try exact Hq; lia). pose proof (Z.div_mod n 10). lia.
Qed.

Lemma digits_all_ok fuel : forall n, 0 <= n -> forallb digit_ok (digits_fuel fuel n) = true.
Proof.
  induction fuel as [|f IH]; intros n Hn; [reflexivity|].
  cbn [digits_fuel]. destruct (n <? 10) eqn:E.
  - apply Z.ltb_lt in E. cbn. unfold digit_ok. rewrite andb_true_r. apply andb_true_intro; split; [apply Z.leb_le | apply Z.leb_le]; lia.
  - rewrite forallb_app. rewrite IH by (apply Z.div_pos; lia). cbn. rewrite andb_true_r.
    unfold digit_ok. pose proof (Z.mod_pos_bound n 10). apply andb_true_intro; split; apply Z.leb_le; lia.
Qed.

Lemma digits_nonempty fuel n : (0 < fuel)%nat -> digits_fuel fuel n <> [].
Proof.
  destruct fuel as [|f]; [lia|]. intros _. cbn [digits_fuel].
  destruct (n <? 10); [discriminate|]. destruct (digits_fuel f (n / 10)); discriminate.
Qed.

(* first digit of a positive number is not 0 *)
Lemma digits_head fuel : forall n, 0 < n < 10 ^ Z.of_nat fuel -> hd 0 (digits_fuel fuel n) <> 0.
Proof.
  induction fuel as [|f IH]; intros n Hn; [cbn in Hn; lia|].
  cbn [digits_fuel]. destruct (n <? 10) eqn:E.
  - cbn. lia.
  - apply Z.ltb_ge in E.
    assert (Hp : 10 ^ Z.of_nat (S f) = 10 * 10 ^ Z.of_nat f) by (rewrite Nat2Z.inj_succ, Z.pow_succ_r; lia).
    assert (Hq : 0 < n / 10 < 10 ^ Z.of_nat f).
    { split; [apply Z.div_str_pos; lia|]. apply Z.div_lt_upper_bound; lia. }
    specialize (IH (n / 10) Hq).
    destruct (digits_fuel f (n / 10)) as [|d r] eqn:D.
    + exfalso. destruct f as [|f']; [cbn in Hq; lia|]. eapply (digits_nonempty (S f')); [lia | exact D].
    + cbn in *. exact IH.
Qed.

Lemma digits_decimal_ok n : 0 <= n < 10 ^ 20 -> decimal_ok (digits n) = true.
Proof.
  intros Hn. unfold decimal_ok, digits. rewrite digits_all_ok by lia. cbn [andb].
  destruct (digits_fuel 20 n) as [|d [|d' r]] eqn:D; [exfalso; eapply (digits_nonempty 20); [lia | exact D] | reflexivity |].
  assert (Hpos : 0 < n).
  { destruct (Z.eq_dec n 0) as [->|]; [|lia]. cbn in D. discriminate. }
  pose proof (digits_head 20 n) as H. rewrite D in H. cbn in H.
  apply negb_true_iff, Z.eqb_neq. apply H. change (Z.of_nat 20) with 20. lia.
Qed.

Lemma digits_read n : 0 <= n < 10 ^ 20 -> value (digits n) = n.
Proof. intros H. apply digits_value; [change (Z.of_nat 20) with 20; lia | lia]. Qed.

(* ---------------------------------------------------------------- the theorems *)
Lemma lit_type_some n : 0 <= n <= 2 ^ 64 -> exists t, lit_type n = Some t /\ n <= lty_max t.
Proof.
  intros H. unfold lit_type.
  destruct (n <=? lty_max LInt) eqn:A; [apply Z.leb_le in A; eauto|].
  destruct (n <=? lty_max LLong) eqn:B; [apply Z.leb_le in B; eauto|].
  destruct (n <=? lty_max LInt128) eqn:C; [apply Z.leb_le in C; eauto|].
  apply Z.leb_gt in C. cbn in C. lia.
Qed.

(* "%" PRId64: every int64_t value, INT64_MIN included, is read back exactly *)
Theorem print_d_reads_back v : - 2 ^ 63 <= v < 2 ^ 63 -> exists t, c_const (print_d v) = Some (t, v).
Proof.
  intros Hv. unfold print_d. destruct (v <? 0) eqn:E.
  - apply Z.ltb_lt in E. cbn [c_const].
    assert (Hr : 0 <= - v < 10 ^ 20) by lia.
    rewrite digits_decimal_ok by exact Hr. rewrite digits_read by exact Hr.
    destruct (lit_type_some (- v)) as (t & Ht & Hm); [lia|]. rewrite Ht.
    assert (Hmin : lty_min t <=? - - v = true) by (apply Z.leb_le; unfold lty_min; lia).
    rewrite Hmin. exists t. f_equal. f_equal. lia.
  - apply Z.ltb_ge in E. cbn [c_const].
    assert (Hr : 0 <= v < 10 ^ 20) by lia.
    rewrite digits_decimal_ok by exact Hr. rewrite digits_read by exact Hr.
    destruct (lit_type_some v) as (t & Ht & Hm); [lia|]. rewrite Ht. eauto.
Qed.

(* "%" PRIu64: every uint64_t value is read back exactly (above INT64_MAX: as an __int128 constant) *)
Theorem print_u_reads_back v : 0 <= v < 2 ^ 64 -> exists t, c_const (print_u v) = Some (t, v).
Proof.
  intros Hv. unfold print_u. cbn [c_const].
  assert (Hr : 0 <= v < 10 ^ 20) by lia.
  rewrite digits_decimal_ok by exact Hr. rewrite digits_read by exact Hr.
  destruct (lit_type_some v) as (t & Ht & Hm); [lia|]. rewrite Ht. eauto.
Qed.

(* either format, any 64-bit pattern: the constant read back is congruent to the operand modulo 2^64 *)
Theorem print_fmt_reads_back f v : f <> FmtOther ->
  exists toks t z, print_fmt f v = Some toks /\ c_const toks = Some (t, z) /\ u64 z = u64 v.
Proof.
  intros Hf. destruct f; [| |congruence].
  - destruct (print_d_reads_back (s64 v)) as (t & Ht).
    { pose proof (swrap_range 64 v ltac:(lia)) as H. unfold in_s in H. unfold s64. cbn in H. lia. }
    exists (print_d (s64 v)), t, (s64 v). repeat split; [exact Ht|]. unfold u64, s64. apply uwrap_swrap. lia.
  - destruct (print_u_reads_back (u64 v)) as (t & Ht).
    { pose proof (uwrap_range 64 v ltac:(lia)) as H. unfold in_u in H. unfold u64. lia. }
    exists (print_u (u64 v)), t, (u64 v). repeat split; [exact Ht|]. unfold u64. apply uwrap_idem. lia.
Qed.

(* a constant of exact value z and an int64_t object holding the same bits convert alike to every integer
   type of at most 64 bits (cast, assignment, argument of __builtin_*_overflow) *)
Theorem literal_converts_like_variable T z v : is_int T = true -> u64 z = u64 v ->
  wrap_ty T z = wrap_ty T (s64 v).
Proof.
  intros HT H. apply wrap_ty_congr; [exact HT|].
  assert (Hb : 0 <= ty_bits T <= 64) by (destruct T; cbn in *; try discriminate; lia).
  assert (H64 : eqm 64 z (s64 v)).
  { eapply eqm_trans; [exact H|]. apply eqm_sym. unfold s64. apply eqm_swrap. lia. }
  eapply eqm_le; [exact Hb | exact H64].
Qed.

(* ---------------------------------------------------------------- every integer operand use converts *)
(* [lit_safe e]: every integer-typed operand leaf of e (variables 0..2; higher numbers are the translation's own
   flag / scratch variables, never constants) stands directly under a cast to an integer type *)
Fixpoint lit_safe (e : cexpr) : bool :=
  match e with
  | EVar n t => negb (is_int t) || Nat.leb 3 n
  | EConst _ _ => true
  | ECast t (EVar _ s) => if is_int s then is_int t else true
  | ECast _ e1 => lit_safe e1
  | EUn _ e1 => lit_safe e1
  | EBin _ a b => lit_safe a && lit_safe b
  | ECond c a b => lit_safe c && lit_safe a && lit_safe b
  end.

(* statements: an assignment converts its whole right-hand side to the type of the destination, so a bare
   operand is fine there when the destination is an integer object; `if (x)` tests x against 0, and a
   constant of exact value z with |z| < 2^64 is 0 iff its 64-bit pattern is *)
Definition lit_safe_stmt (s : cstmt) : bool :=
  match s with
  | SAssign t (EVar _ s') => if is_int s' then is_int t else true
  | SAssign _ e => lit_safe e
  | SBranch (EVar _ _) => true
  | SBranch e => lit_safe e
  | SOvf _ e _ _ => lit_safe e
  | SOvfB _ t e1 e2 _ _ =>
      is_int t && match e1 with EVar _ _ => true | _ => lit_safe e1 end
      && match e2 with EVar _ _ => true | _ => lit_safe e2 end
  | _ => true
  end.

Definition table_lit_safe (tbl : list (Mir.Opcode.opcode * list cstmt)) : bool :=
  forallb (fun r => forallb lit_safe_stmt (snd r)) tbl.

Lemma nonzero_test z v : - 2 ^ 64 < z < 2 ^ 64 -> u64 z = u64 v -> (z =? 0) = (s64 v =? 0).
Proof.
  intros Hz H.
  assert (Hs : u64 (s64 v) = u64 v) by (unfold u64, s64; apply uwrap_swrap; lia).
  pose proof (swrap_range 64 v ltac:(lia)) as Hr. unfold in_s in Hr. fold s64 in Hr.
  rewrite <- Hs in H. unfold u64, uwrap in H.
  destruct (Z.eqb_spec z 0) as [->|Hn]; destruct (Z.eqb_spec (s64 v) 0) as [E|E]; try reflexivity; exfalso.
  - rewrite Z.mod_0_l in H by lia. symmetry in H. apply Z.mod_divide in H; [|lia]. destruct H as (k & Hk).
    cbn in Hr. assert (k = 0) by nia. lia.
  - rewrite E, Z.mod_0_l in H by lia. apply Z.mod_divide in H; [|lia]. destruct H as (k & Hk).
    assert (k = 0) by nia. lia.
Qed.

(* Facts about the REGENERATED mir2c template table (coq/gen/Mir2cTable.v). *)
From Coq Require Import ZArith Bool List String.
From MirV Require Import Base.W64 Mir.DocSpec Mir.CExpr C02.RowCheck C02.Table C20.Mir2cCheck C20.ConstPrint C20.AddrPrint gen.Mir2cTable.
Import ListNotations.

Lemma mir2c_table_ok : m2c_table_ok mir2c_table = true.
Proof. vm_compute. reflexivity. Qed.

Lemma mir2c_rows_sound : forall op l, In (op, l) mir2c_table -> ld_opcode op = false -> m2c_row_sound op l.
Proof. exact (m2c_table_ok_sound mir2c_table mir2c_table_ok). Qed.

Lemma mir2c_rows_total : forall op, needs_row op = true \/ ld_opcode op = true -> exists l, In (op, l) mir2c_table.
Proof. exact (m2c_table_ok_total mir2c_table mir2c_table_ok). Qed.

Lemma mir2c_ld_rows : forall op s d, In (op, [s]) mir2c_table -> ld_twin op = Some d ->
  exists sd, In (d, [sd]) mir2c_table /\ cstmt_eqb sd (ld2d_stmt s) = true /\ row_sound d sd.
Proof. exact (m2c_table_ok_ld_twin mir2c_table mir2c_table_ok). Qed.

(* ---- constants: the regenerated formats are the modelled ones, every integer operand use converts *)
Lemma mir2c_fmts_modelled : mir2c_int_fmt <> FmtOther /\ mir2c_uint_fmt <> FmtOther.
Proof. split; vm_compute; discriminate. Qed.

Lemma mir2c_consts_read_back : forall v,
  (exists toks t z, print_fmt mir2c_int_fmt v = Some toks /\ c_const toks = Some (t, z) /\ u64 z = u64 v)
  /\ (exists toks t z, print_fmt mir2c_uint_fmt v = Some toks /\ c_const toks = Some (t, z) /\ u64 z = u64 v).
Proof.
  intros v. destruct mir2c_fmts_modelled as [Hi Hu].
  split; apply print_fmt_reads_back; assumption.
Qed.

Lemma mir2c_table_lit_safe : table_lit_safe mir2c_table = true.
Proof. vm_compute. reflexivity. Qed.

Lemma mir2c_operands_convert : forall op l s, In (op, l) mir2c_table -> In s l -> lit_safe_stmt s = true.
Proof.
  intros op l s Hin Hs. pose proof mir2c_table_lit_safe as H. unfold table_lit_safe in H.
  rewrite forallb_forall in H. specialize (H (op, l) Hin). cbn [snd] in H.
  rewrite forallb_forall in H. exact (H s Hs).
Qed.

(* ---- memory operands: the regenerated address expressions compute disp + base + index * scale for every form, every
   form has a row, the C type named for every memory type loads / stores as documented *)
Lemma mir2c_addr_table_ok : addr_table_ok mir2c_disp_fmt mir2c_addr_table = true.
Proof. vm_compute. reflexivity. Qed.

Lemma mir2c_addr_rows_sound : forall f e, In (f, e) mir2c_addr_table -> addr_row_sound mir2c_disp_fmt f e.
Proof. exact (addr_table_ok_sound mir2c_disp_fmt mir2c_addr_table mir2c_addr_table_ok). Qed.

Lemma mir2c_addr_rows_total : forall d b i s, In s scales ->
  exists e, In ({| af_disp := d; af_base := b; af_index := i; af_scale := s |}, e) mir2c_addr_table.
Proof. exact (addr_table_ok_total mir2c_disp_fmt mir2c_addr_table mir2c_addr_table_ok). Qed.

Lemma mir2c_memtype_table_ok : memtype_table_ok mir2c_memtype_table = true.
Proof. vm_compute. reflexivity. Qed.

Lemma mir2c_memtypes_sound : forall ty, exists mt, In (ty, mt) mir2c_memtype_table
    /\ (forall bytes, stmt_load (SLoad (reg_cty ty) mt) bytes = Some (load_ext ty bytes))
    /\ (forall p rest, stmt_store (p :: rest) (SStore mt (EVar 0 (reg_cty ty))) = Some (store_trunc ty p)).
Proof. exact (memtype_table_ok_sound mir2c_memtype_table mir2c_memtype_table_ok). Qed.

(* Facts about the REGENERATED mir2c template table (coq/gen/Mir2cTable.v). *)
From Coq Require Import ZArith Bool List String.
From MirV Require Import Mir.DocSpec Mir.CExpr C02.RowCheck C02.Table C20.Mir2cCheck gen.Mir2cTable.
Import ListNotations.

Lemma mir2c_table_ok : m2c_table_ok mir2c_table = true.
Proof. vm_compute. reflexivity. Qed.

Lemma mir2c_rows_sound : forall op l, In (op, l) mir2c_table -> ld_opcode op = false -> m2c_row_sound op l.
Proof. exact (m2c_table_ok_sound mir2c_table mir2c_table_ok). Qed.

Lemma mir2c_rows_total : forall op, needs_row op = true \/ ld_opcode op = true -> exists l, In (op, l) mir2c_table.
Proof. exact (m2c_table_ok_total mir2c_table mir2c_table_ok). Qed.

Lemma mir2c_ld_rows : forall op s d, In (op, [s]) mir2c_table -> ld_twin op = Some d ->
  exists sd, In (d, [sd]) mir2c_table /\ cstmt_eqb sd (ld2d_stmt s) = true /\ row_sound d sd.
Proof. exact (m2c_table_ok_ld_twin mir2c_table mir2c_table_ok). Qed.

(* Facts about the REGENERATED mir2c template table (coq/gen/Mir2cTable.v). *)
From Coq Require Import ZArith Bool List String.
From MirV Require Import Base.W64 Mir.DocSpec Mir.CExpr C02.RowCheck C02.Table C20.Mir2cCheck C20.ConstPrint gen.Mir2cTable.
Import ListNotations.

Lemma mir2c_table_ok : m2c_table_ok mir2c_table = true.
Proof. vm_compute. reflexivity. Qed.

Lemma mir2c_rows_sound : forall op l, In (op, l) mir2c_table -> ld_opcode op = false -> m2c_row_sound op l.
Proof. exact (m2c_table_ok_sound mir2c_table mir2c_table_ok). Qed.

Lemma mir2c_rows_total : forall op, needs_row op = true \/ ld_opcode op = true -> exists l, In (op, l) mir2c_table.
Proof. exact (m2c_table_ok_total mir2c_table mir2c_table_ok). Qed.

Lemma mir2c_ld_rows : forall op s d, In (op, [s]) mir2c_table -> ld_twin op = Some d ->
  exists sd, In (d, [sd]) mir2c_table /\ cstmt_eqb sd (ld2d_stmt s) = true /\ row_sound d sd.
Proof. exact (m2c_table_ok_ld_twin mir2c_table mir2c_table_ok). Qed.

(* ---- constants: the regenerated formats are the modelled ones, every integer operand use converts *)
Lemma mir2c_fmts_modelled : mir2c_int_fmt <> FmtOther /\ mir2c_uint_fmt <> FmtOther.
Proof. split; vm_compute; discriminate. Qed.

Lemma mir2c_consts_read_back : forall v,
  (exists toks t z, print_fmt mir2c_int_fmt v = Some toks /\ c_const toks = Some (t, z) /\ u64 z = u64 v)
  /\ (exists toks t z, print_fmt mir2c_uint_fmt v = Some toks /\ c_const toks = Some (t, z) /\ u64 z = u64 v).
Proof.
  intros v. destruct mir2c_fmts_modelled as [Hi Hu].
  split; apply print_fmt_reads_back; assumption.
Qed.

Lemma mir2c_table_lit_safe : table_lit_safe mir2c_table = true.
Proof. vm_compute. reflexivity. Qed.

Lemma mir2c_operands_convert : forall op l s, In (op, l) mir2c_table -> In s l -> lit_safe_stmt s = true.
Proof.
  intros op l s Hin Hs. pose proof mir2c_table_lit_safe as H. unfold table_lit_safe in H.
  rewrite forallb_forall in H. specialize (H (op, l) Hin). cbn [snd] in H.
  rewrite forallb_forall in H. exact (H s Hs).
Qed.

(* C20: the address and the object type of a memory operand as mir2c prints them.

   out_op prints a MIR_OP_MEM operand as  *(<C type> * ) (<address expression>)  where the address expression is put
   together from the parts of the operand that are present: the displacement (a decimal constant, printed with the
   conversion specification gen/Mir2cTable.v mir2c_disp_fmt), the name of the base register, the name of the index
   register, " * <scale>" -- one printing path per combination.  tools/tr_c20_addr.py re-reads, on every run, the text
   printed for EVERY combination (displacement zero / non-zero, base present / absent, index present / absent, scale
   1 2 4 8) into the table gen/Mir2cTable.v mir2c_addr_table : list (aform * aexpr), and the C type named for every MIR
   memory type into mir2c_memtype_table.

   Model of the C side ([aeval]): the displacement constant has the type and exact value the C compiler reads back
   (ConstPrint.c_const: int, long or __int128); register variables are int64_t; + and * and << are evaluated at the
   common type (int < long < __int128) with two's complement wrap-around at that type's width (the machine behaviour of
   gcc/x86-64: the trusted base of Mir/CExpr.v); the conversion of the resulting integer to a pointer keeps its low 64
   bits.  MIR side ([doc_addr], MIR.md "Memory operand": the address is disp + base + index * scale, an absent register
   contributes nothing), modulo 2^64.

   Theorem [addr_table_ok_sound]: for every row and ALL values of displacement, base and index the printed expression
   evaluates to the documented address.  The recogniser [addr_row_ok] does not compare with a fixed text: it normalises
   the expression to a linear form  cd * disp + cb * base + ci * index + k  (sums, products with / shifts by a constant)
   and compares the coefficients modulo 2^64, so a reordered or otherwise rewritten printer is accepted exactly when it
   still computes the address, and a form that drops the scale, the displacement or a register is rejected. *)
From Coq Require Import ZArith Lia Bool List.
From MirV Require Import Base.W64 Mir.DocSpec Mir.CExpr C02.WFacts C02.RowCheck C02.RowProofs C02.FloatRows C02.MemRows C20.ConstPrint.
Import ListNotations.
Local Open Scope Z_scope.

Arguments uwrap : simpl never.
Arguments swrap : simpl never.
Arguments Z.pow : simpl never.
Arguments Z.mul : simpl never.
Arguments Z.add : simpl never.

(* which parts of the operand are present, as out_op distinguishes them *)
Record aform := { af_disp : bool;      (* op.u.mem.disp != 0 *)
                  af_base : bool;      (* op.u.mem.base != 0 (no register) *)
                  af_index : bool;     (* op.u.mem.index != 0 *)
                  af_scale : Z }.

Inductive aexpr :=
| ADisp                       (* the constant printed for op.u.mem.disp *)
| ANum (n : Z)                (* a decimal constant of the template text (the scale) *)
| ABase | AIndex              (* the int64_t variables of the base / index register *)
| AAdd (a b : aexpr)
| AMul (a b : aexpr)
| AShl (a : aexpr) (k : Z)
| AUnknown.                   (* text the translator could not read: no semantics *)

Definition lty_bits (t : lty) : Z := match t with LInt => 32 | LLong => 64 | LInt128 => 128 end.
Definition lty_join (a b : lty) : lty :=
  match a, b with
  | LInt128, _ | _, LInt128 => LInt128
  | LLong, _ | _, LLong => LLong
  | LInt, LInt => LInt
  end.

(* c: type and exact value of the displacement constant as the C compiler reads it; b, i: the 64-bit patterns of the
   base / index register *)
Fixpoint aeval (c : lty * Z) (b i : Z) (e : aexpr) : option (lty * Z) :=
  match e with
  | ADisp => Some c
  | ANum n => if 0 <=? n then match lit_type n with Some t => Some (t, n) | None => None end else None
  | ABase => Some (LLong, s64 b)
  | AIndex => Some (LLong, s64 i)
  | AAdd x y =>
      match aeval c b i x, aeval c b i y with
      | Some (tx, vx), Some (ty, vy) => let t := lty_join tx ty in Some (t, swrap (lty_bits t) (vx + vy))
      | _, _ => None
      end
  | AMul x y =>
      match aeval c b i x, aeval c b i y with
      | Some (tx, vx), Some (ty, vy) => let t := lty_join tx ty in Some (t, swrap (lty_bits t) (vx * vy))
      | _, _ => None
      end
  | AShl x k =>
      match aeval c b i x with
      | Some (tx, vx) => if (0 <=? k) && (k <? lty_bits tx) then Some (tx, swrap (lty_bits tx) (vx * 2 ^ k)) else None
      | None => None
      end
  | AUnknown => None
  end.

(* MIR.md: "The arguments define address of memory as disp + base + index * scale"; 64-bit addresses *)
Definition doc_addr (f : aform) (disp b i : Z) : Z :=
  u64 (disp + (if af_base f then b else 0) + (if af_index f then i * af_scale f else 0)).

(* ---------------------------------------------------------------- linear normal form *)
Record lin := { l_d : Z; l_b : Z; l_i : Z; l_k : Z }.
Definition lin_val (l : lin) (D B I : Z) : Z := l_d l * D + l_b l * B + l_i l * I + l_k l.
Definition lin_add (x y : lin) : lin :=
  {| l_d := l_d x + l_d y; l_b := l_b x + l_b y; l_i := l_i x + l_i y; l_k := l_k x + l_k y |}.
Definition lin_scale (n : Z) (x : lin) : lin :=
  {| l_d := n * l_d x; l_b := n * l_b x; l_i := n * l_i x; l_k := n * l_k x |}.

Definition anum (e : aexpr) : option Z := match e with ANum n => Some n | _ => None end.
Definition num_ok (n : Z) : bool := (0 <=? n) && (n <=? lty_max LInt128).

(* (is the expression certainly evaluated at 64 bits or more?, its linear form); None: shape not accepted.  Arithmetic on
   two operands that may both have type int (constants only) is not accepted: it would be evaluated at 32 bits *)
Fixpoint alin (e : aexpr) : option (bool * lin) :=
  match e with
  | ADisp => Some (false, {| l_d := 1; l_b := 0; l_i := 0; l_k := 0 |})
  | ANum n => if num_ok n then Some (false, {| l_d := 0; l_b := 0; l_i := 0; l_k := n |}) else None
  | ABase => Some (true, {| l_d := 0; l_b := 1; l_i := 0; l_k := 0 |})
  | AIndex => Some (true, {| l_d := 0; l_b := 0; l_i := 1; l_k := 0 |})
  | AAdd x y =>
      match alin x, alin y with
      | Some (wx, lx), Some (wy, ly) => if wx || wy then Some (true, lin_add lx ly) else None
      | _, _ => None
      end
  | AMul x y =>
      match anum y with
      | Some n => match alin x with
                  | Some (true, lx) => if num_ok n then Some (true, lin_scale n lx) else None
                  | _ => None
                  end
      | None =>
          match anum x with
          | Some n => match alin y with
                      | Some (true, ly) => if num_ok n then Some (true, lin_scale n ly) else None
                      | _ => None
                      end
          | None => None
          end
      end
  | AShl x k =>
      match alin x with
      | Some (true, lx) => if (0 <=? k) && (k <? 64) then Some (true, lin_scale (2 ^ k) lx) else None
      | _ => None
      end
  | AUnknown => None
  end.

Definition addr_row_ok (f : aform) (e : aexpr) : bool :=
  match alin e with
  | Some (_, l) =>
      (negb (af_disp f) || (u64 (l_d l) =? 1))
      && (u64 (l_b l) =? (if af_base f then 1 else 0))
      && (u64 (l_i l) =? u64 (if af_index f then af_scale f else 0))
      && (u64 (l_k l) =? 0)
  | None => false
  end.

(* the printed expression computes the documented address, for all operand values; [fmt] = how the displacement is
   printed; a form without displacement is one whose displacement is 0 *)
Definition addr_row_sound (fmt : cfmt) (f : aform) (e : aexpr) : Prop :=
  forall disp b i, (af_disp f = false -> u64 disp = 0) ->
  exists toks t z, print_fmt fmt disp = Some toks /\ c_const toks = Some (t, z) /\
    exists t' v, aeval (t, z) b i e = Some (t', v) /\ u64 v = doc_addr f disp b i.

(* ---------------------------------------------------------------- proofs *)
Lemma lin_add_val x y D B I : lin_val (lin_add x y) D B I = lin_val x D B I + lin_val y D B I.
Proof. unfold lin_val, lin_add. cbn [l_d l_b l_i l_k]. ring. Qed.

Lemma lin_scale_val n x D B I : lin_val (lin_scale n x) D B I = lin_val x D B I * n.
Proof. unfold lin_val, lin_scale. cbn [l_d l_b l_i l_k]. ring. Qed.

Lemma lty_join_bits_l a b : lty_bits a <= lty_bits (lty_join a b).
Proof. destruct a, b; cbn; lia. Qed.
Lemma lty_join_bits_r a b : lty_bits b <= lty_bits (lty_join a b).
Proof. destruct a, b; cbn; lia. Qed.
Lemma lty_bits_pos t : 0 < lty_bits t.
Proof. destruct t; cbn; lia. Qed.

Lemma eqm64_swrap n z : 64 <= n -> eqm 64 (swrap n z) z.
Proof. intros H. apply (eqm_le 64 n); [lia|]. apply eqm_swrap. lia. Qed.

(* what [alin] promises about [aeval] *)
Definition lin_inv (w : bool) (l : lin) (D B I : Z) (t : lty) (v : Z) : Prop :=
  if w then 64 <= lty_bits t /\ eqm 64 v (lin_val l D B I) else v = lin_val l D B I.

Lemma lin_inv_eqm w l D B I t v : lin_inv w l D B I t v -> eqm 64 v (lin_val l D B I).
Proof. destruct w; cbn; [intros [_ H]; exact H | intros ->; apply eqm_refl]. Qed.

Lemma anum_some e n : anum e = Some n -> e = ANum n.
Proof. destruct e; cbn; congruence. Qed.

Lemma aeval_num c b i n : num_ok n = true -> exists t, aeval c b i (ANum n) = Some (t, n).
Proof.
  unfold num_ok. intros H. apply andb_prop in H. destruct H as [H0 H1]. cbn [aeval]. rewrite H0.
  apply Z.leb_le in H1. unfold lit_type.
  destruct (n <=? lty_max LInt); [eauto|]. destruct (n <=? lty_max LLong); [eauto|].
  destruct (n <=? lty_max LInt128) eqn:E; [eauto|]. apply Z.leb_gt in E. lia.
Qed.

Lemma alin_sound tc D b i : forall e w l, alin e = Some (w, l) ->
  exists t v, aeval (tc, D) b i e = Some (t, v) /\ lin_inv w l D (s64 b) (s64 i) t v.
Proof.
  induction e as [|n| | |x IHx y IHy|x IHx y IHy|x IHx k|]; intros w l H; cbn [alin] in H.
  - inversion H; subst. exists tc, D. split; [reflexivity|]. unfold lin_inv, lin_val. cbn [l_d l_b l_i l_k]. ring.
  - destruct (num_ok n) eqn:En; [|discriminate]. inversion H; subst.
    destruct (aeval_num (tc, D) b i n En) as (t & Ht). exists t, n. split; [exact Ht|].
    unfold lin_inv, lin_val. cbn [l_d l_b l_i l_k]. ring.
  - inversion H; subst. exists LLong, (s64 b). split; [reflexivity|]. unfold lin_inv. split; [cbn; lia|].
    unfold lin_val. cbn [l_d l_b l_i l_k]. replace (0 * D + 1 * s64 b + 0 * s64 i + 0) with (s64 b) by ring. apply eqm_refl.
  - inversion H; subst. exists LLong, (s64 i). split; [reflexivity|]. unfold lin_inv. split; [cbn; lia|].
    unfold lin_val. cbn [l_d l_b l_i l_k]. replace (0 * D + 0 * s64 b + 1 * s64 i + 0) with (s64 i) by ring. apply eqm_refl.
  - destruct (alin x) as [[wx lx]|]; [|discriminate]. destruct (alin y) as [[wy ly]|]; [|discriminate].
    destruct (wx || wy) eqn:Ew; [|discriminate]. inversion H; subst.
    destruct (IHx _ _ eq_refl) as (tx & vx & Ex & Ix). destruct (IHy _ _ eq_refl) as (ty & vy & Ey & Iy).
    cbn [aeval]. rewrite Ex, Ey. eexists _, _. split; [reflexivity|]. unfold lin_inv.
    assert (Hb : 64 <= lty_bits (lty_join tx ty)).
    { pose proof (lty_join_bits_l tx ty). pose proof (lty_join_bits_r tx ty).
      destruct wx; [destruct Ix as [Hx _]; lia|]. destruct wy; [destruct Iy as [Hy _]; lia|discriminate]. }
    split; [exact Hb|]. rewrite lin_add_val.
    eapply eqm_trans; [apply eqm64_swrap; exact Hb|].
    apply eqm_add; [lia | eapply lin_inv_eqm; exact Ix | eapply lin_inv_eqm; exact Iy].
  - destruct (anum y) as [n|] eqn:Ny.
    + apply anum_some in Ny. subst y.
      destruct (alin x) as [[[|] lx]|]; try discriminate. destruct (num_ok n) eqn:En; [|discriminate]. inversion H; subst.
      destruct (IHx _ _ eq_refl) as (tx & vx & Ex & Ix). destruct (aeval_num (tc, D) b i n En) as (tn & Hn).
      cbn [aeval] in *. rewrite Ex. cbn [aeval] in Hn. rewrite Hn. eexists _, _. split; [reflexivity|]. unfold lin_inv.
      destruct Ix as [Hx Ix].
      assert (Hb : 64 <= lty_bits (lty_join tx tn)) by (pose proof (lty_join_bits_l tx tn); lia).
      split; [exact Hb|]. rewrite lin_scale_val.
      eapply eqm_trans; [apply eqm64_swrap; exact Hb|]. apply eqm_mul; [lia | exact Ix | apply eqm_refl].
    + destruct (anum x) as [n|] eqn:Nx; [|discriminate]. apply anum_some in Nx. subst x.
      destruct (alin y) as [[[|] ly]|]; try discriminate. destruct (num_ok n) eqn:En; [|discriminate]. inversion H; subst.
      destruct (IHy _ _ eq_refl) as (ty & vy & Ey & Iy). destruct (aeval_num (tc, D) b i n En) as (tn & Hn).
      cbn [aeval] in *. rewrite Ey. cbn [aeval] in Hn. rewrite Hn. eexists _, _. split; [reflexivity|]. unfold lin_inv.
      destruct Iy as [Hy Iy].
      assert (Hb : 64 <= lty_bits (lty_join tn ty)) by (pose proof (lty_join_bits_r tn ty); lia).
      split; [exact Hb|]. rewrite lin_scale_val. rewrite (Z.mul_comm n vy).
      eapply eqm_trans; [apply eqm64_swrap; exact Hb|]. apply eqm_mul; [lia | exact Iy | apply eqm_refl].
  - destruct (alin x) as [[[|] lx]|]; try discriminate.
    destruct ((0 <=? k) && (k <? 64)) eqn:Ek; [|discriminate]. inversion H; subst.
    destruct (IHx _ _ eq_refl) as (tx & vx & Ex & Ix). destruct Ix as [Hx Ix].
    apply andb_prop in Ek. destruct Ek as [Ek0 Ek1]. apply Z.leb_le in Ek0. apply Z.ltb_lt in Ek1.
    cbn [aeval]. rewrite Ex.
    assert (Ec : (0 <=? k) && (k <? lty_bits tx) = true).
    { apply andb_true_intro; split; [apply Z.leb_le; lia | apply Z.ltb_lt; lia]. }
    rewrite Ec. eexists _, _. split; [reflexivity|]. unfold lin_inv. split; [exact Hx|]. rewrite lin_scale_val.
    eapply eqm_trans; [apply eqm64_swrap; exact Hx|]. apply eqm_mul; [lia | exact Ix | apply eqm_refl].
  - discriminate.
Qed.

Lemma eqm_of_u64_eqb a c : (u64 a =? u64 c) = true -> eqm 64 a c.
Proof. intros H. apply Z.eqb_eq in H. exact H. Qed.

Lemma eqm_of_u64_small a c : 0 <= c < 2 ^ 64 -> (u64 a =? c) = true -> eqm 64 a c.
Proof.
  intros Hc H. apply Z.eqb_eq in H. unfold eqm. fold u64. rewrite H. unfold u64. symmetry. apply uwrap_small. exact Hc.
Qed.

Lemma eqm_mul_one a z d : eqm 64 a 1 -> eqm 64 z d -> eqm 64 (a * z) d.
Proof.
  intros Ha Hz. assert (H : eqm 64 (a * z) (1 * d)) by (apply eqm_mul; [lia | exact Ha | exact Hz]).
  replace (1 * d) with d in H by ring. exact H.
Qed.

Lemma eqm_mul_zero a z : eqm 64 a 0 -> eqm 64 (a * z) 0.
Proof.
  intros Ha. assert (H : eqm 64 (a * z) (0 * z)) by (apply eqm_mul; [lia | exact Ha | apply eqm_refl]).
  replace (0 * z) with 0 in H by ring. exact H.
Qed.

Theorem addr_row_ok_sound fmt f e : fmt <> FmtOther -> addr_row_ok f e = true -> addr_row_sound fmt f e.
Proof.
  intros Hfmt H disp b i Hd. unfold addr_row_ok in H.
  destruct (alin e) as [[w l]|] eqn:El; [|discriminate].
  apply andb_prop in H. destruct H as [H Hk]. apply andb_prop in H. destruct H as [H Hi].
  apply andb_prop in H. destruct H as [Hdd Hb].
  destruct (print_fmt_reads_back fmt disp Hfmt) as (toks & t & z & Hp & Hc & Hz).
  exists toks, t, z. split; [exact Hp|]. split; [exact Hc|].
  destruct (alin_sound t z b i e w l El) as (t' & v & Ev & Iv). exists t', v. split; [exact Ev|].
  apply lin_inv_eqm in Iv. unfold doc_addr. change (eqm 64 v (disp + (if af_base f then b else 0) + (if af_index f then i * af_scale f else 0))).
  eapply eqm_trans; [exact Iv|]. unfold lin_val.
  assert (Ez : eqm 64 z disp) by exact Hz.
  assert (EB : eqm 64 (s64 b) b) by (apply eqm_swrap; lia).
  assert (EI : eqm 64 (s64 i) i) by (apply eqm_swrap; lia).
  assert (Tk : eqm 64 (l_k l) 0) by (apply eqm_of_u64_small; [cbn; lia | exact Hk]).
  assert (Td : eqm 64 (l_d l * z) disp).
  { destruct (af_disp f) eqn:Ad.
    - cbn in Hdd. apply eqm_mul_one; [apply eqm_of_u64_small; [cbn; lia | exact Hdd] | exact Ez].
    - specialize (Hd eq_refl).
      assert (E0 : eqm 64 disp 0) by (unfold eqm; fold u64; rewrite Hd; reflexivity).
      eapply eqm_trans; [|apply eqm_sym; exact E0]. replace 0 with (l_d l * 0) by ring.
      apply eqm_mul; [lia | apply eqm_refl | eapply eqm_trans; [exact Ez | exact E0]]. }
  assert (Tb : eqm 64 (l_b l * s64 b) (if af_base f then b else 0)).
  { destruct (af_base f).
    - apply eqm_mul_one; [apply eqm_of_u64_small; [cbn; lia | exact Hb] | exact EB].
    - apply eqm_mul_zero. apply eqm_of_u64_small; [cbn; lia | exact Hb]. }
  assert (Ti : eqm 64 (l_i l * s64 i) (if af_index f then i * af_scale f else 0)).
  { apply eqm_of_u64_eqb in Hi. destruct (af_index f).
    - rewrite (Z.mul_comm i). apply eqm_mul; [lia | exact Hi | exact EI].
    - apply eqm_mul_zero. exact Hi. }
  replace (disp + (if af_base f then b else 0) + (if af_index f then i * af_scale f else 0))
    with (disp + (if af_base f then b else 0) + (if af_index f then i * af_scale f else 0) + 0) by ring.
  repeat (apply eqm_add; [lia | | ]); assumption.
Qed.

(* ---------------------------------------------------------------- the whole table *)
Definition aform_eqb (x y : aform) : bool :=
  Bool.eqb (af_disp x) (af_disp y) && Bool.eqb (af_base x) (af_base y) && Bool.eqb (af_index x) (af_index y)
  && (af_scale x =? af_scale y).

Lemma aform_eqb_eq x y : aform_eqb x y = true -> x = y.
Proof.
  destruct x, y. unfold aform_eqb. cbn [af_disp af_base af_index af_scale]. intros H.
  repeat (apply andb_prop in H; let H' := fresh "H" in destruct H as [H H']).
  apply eqb_prop in H, H2, H1. apply Z.eqb_eq in H0. subst. reflexivity.
Qed.

Definition scales : list Z := [1; 2; 4; 8].
Definition bools : list bool := [false; true].
Definition all_forms : list aform :=
  flat_map (fun d => flat_map (fun b => flat_map (fun i => map (fun s =>
    {| af_disp := d; af_base := b; af_index := i; af_scale := s |}) scales) bools) bools) bools.

Definition addr_table_ok (fmt : cfmt) (tbl : list (aform * aexpr)) : bool :=
  match fmt with FmtOther => false | _ => true end
  && forallb (fun r => addr_row_ok (fst r) (snd r)) tbl
  && forallb (fun f => existsb (fun r => aform_eqb (fst r) f) tbl) all_forms.

Theorem addr_table_ok_sound fmt tbl : addr_table_ok fmt tbl = true ->
  forall f e, In (f, e) tbl -> addr_row_sound fmt f e.
Proof.
  unfold addr_table_ok. intros H f e Hin.
  apply andb_prop in H. destruct H as [H _]. apply andb_prop in H. destruct H as [Hf Hr].
  rewrite forallb_forall in Hr. specialize (Hr (f, e) Hin). cbn [fst snd] in Hr.
  apply addr_row_ok_sound; [destruct fmt; [discriminate | discriminate | discriminate Hf] | exact Hr].
Qed.

(* every form of a memory operand (scale 1, 2, 4 or 8: the only ones MIR allows) has a row *)
Theorem addr_table_ok_total fmt tbl : addr_table_ok fmt tbl = true ->
  forall d b i s, In s scales -> exists e, In ({| af_disp := d; af_base := b; af_index := i; af_scale := s |}, e) tbl.
Proof.
  unfold addr_table_ok. intros H d b i s Hs.
  apply andb_prop in H. destruct H as [_ Ht]. rewrite forallb_forall in Ht.
  assert (Hin : In {| af_disp := d; af_base := b; af_index := i; af_scale := s |} all_forms).
  { unfold all_forms. apply in_flat_map. exists d. split; [destruct d; cbn; auto|].
    apply in_flat_map. exists b. split; [destruct b; cbn; auto|].
    apply in_flat_map. exists i. split; [destruct i; cbn; auto|].
    apply in_map_iff. exists s. split; [reflexivity | exact Hs]. }
  specialize (Ht _ Hin). apply existsb_exists in Ht. destruct Ht as ((f & e) & Hr & Heq).
  cbn [fst] in Heq. apply aform_eqb_eq in Heq. subst f. exists e. exact Hr.
Qed.

(* ---------------------------------------------------------------- the C type named for each MIR memory type *)
(* a MIR register of the type's class is a C variable of type int64_t / float / double / long double *)
Definition reg_cty (ty : mir_type) : cty := if type_is_int ty then CI64 else cty_of_mir ty.

Definition memtype_row_ok (ty : mir_type) (mt : cty) : bool :=
  load_ok ty (reg_cty ty) mt && store_ok ty mt (EVar 0 (reg_cty ty)).

Definition mir_type_eqb (a b : mir_type) : bool :=
  match a, b with
  | T_I8, T_I8 | T_U8, T_U8 | T_I16, T_I16 | T_U16, T_U16 | T_I32, T_I32 | T_U32, T_U32 | T_I64, T_I64 | T_U64, T_U64
  | T_F, T_F | T_D, T_D | T_LD, T_LD | T_P, T_P => true
  | _, _ => false
  end.

Lemma mir_type_eqb_eq a b : mir_type_eqb a b = true -> a = b.
Proof. destruct a, b; cbn; congruence. Qed.

Definition all_mir_types : list mir_type := [T_I8; T_U8; T_I16; T_U16; T_I32; T_U32; T_I64; T_U64; T_F; T_D; T_LD; T_P].

Definition memtype_table_ok (tbl : list (mir_type * cty)) : bool :=
  forallb (fun r => memtype_row_ok (fst r) (snd r)) tbl
  && forallb (fun ty => existsb (fun r => mir_type_eqb (fst r) ty) tbl) all_mir_types.

(* reading `r = *(mt * ) a` / writing `*(mt * ) a = r` through the C type mir2c names for MIR memory type ty is the
   documented load (sign / zero extension of narrow integers to 64 bits) / store (truncation to the memory type) *)
Theorem memtype_table_ok_sound tbl : memtype_table_ok tbl = true ->
  forall ty, exists mt, In (ty, mt) tbl
    /\ (forall bytes, stmt_load (SLoad (reg_cty ty) mt) bytes = Some (load_ext ty bytes))
    /\ (forall p rest, stmt_store (p :: rest) (SStore mt (EVar 0 (reg_cty ty))) = Some (store_trunc ty p)).
Proof.
  unfold memtype_table_ok. intros H ty. apply andb_prop in H. destruct H as [Hr Ht].
  rewrite forallb_forall in Hr, Ht.
  assert (Hin : In ty all_mir_types) by (destruct ty; cbn; auto 20).
  specialize (Ht ty Hin). apply existsb_exists in Ht. destruct Ht as ((ty' & mt) & Hrow & Heq).
  cbn [fst] in Heq. apply mir_type_eqb_eq in Heq. subst ty'. exists mt. split; [exact Hrow|].
  specialize (Hr _ Hrow). cbn [fst snd] in Hr. unfold memtype_row_ok in Hr. apply andb_prop in Hr. destruct Hr as [Hl Hs].
  split.
  - intros bytes. destruct (load_ok_sound ty (reg_cty ty) mt bytes Hl) as (v & Hv & ->). exact Hv.
  - intros p rest. apply store_ok_sound. exact Hs.
Qed.

(* ---------------------------------------------------------------- non-vacuity *)
Example addr_full_form_ok :
  addr_row_ok {| af_disp := true; af_base := true; af_index := true; af_scale := 8 |}
              (AAdd (AAdd ADisp ABase) (AMul AIndex (ANum 8))) = true.
Proof. vm_compute. reflexivity. Qed.

(* the base-less index form that lost its scale is rejected, and really computes another address *)
Example addr_lost_scale_rejected :
  addr_row_ok {| af_disp := true; af_base := false; af_index := true; af_scale := 8 |} (AAdd ADisp AIndex) = false
  /\ exists v, aeval (LInt, 16) 0 3 (AAdd ADisp AIndex) = Some (LLong, v)
       /\ u64 v <> doc_addr {| af_disp := true; af_base := false; af_index := true; af_scale := 8 |} 16 0 3.
Proof. split; [vm_compute; reflexivity|]. exists 19. split; [vm_compute; reflexivity | vm_compute; discriminate]. Qed.

Example addr_int64_min_disp :
  exists t z, c_const (print_d (- 2 ^ 63)) = Some (t, z) /\ t = LInt128
    /\ exists v, aeval (t, z) 8 0 (AAdd ADisp ABase) = Some (LInt128, v) /\ u64 v = u64 (- 2 ^ 63 + 8).
Proof.
  exists LInt128, (- 2 ^ 63). split; [vm_compute; reflexivity|]. split; [reflexivity|].
  exists (- 2 ^ 63 + 8). split; vm_compute; reflexivity.
Qed.

(* C20: recognisers for the regenerated mir2c template table (coq/gen/Mir2cTable.v) and their
   soundness.  Value / compare / branch templates are single C statements and reuse the verified
   recognisers of C02 (the same CExpr statement language); overflow instructions are printed as
   __builtin_{add,sub,mul}_overflow calls (SOvfB). *)
From Coq Require Import ZArith Lia Bool List String.
From MirV Require Import Mir.DocSpec Mir.CExpr C02.WFacts C02.RowCheck C02.RowProofs C02.IntRows C02.FloatRows
  C02.OvfRows C02.OvfFlags C02.Table.
Import ListNotations.
Local Open Scope Z_scope.

Arguments uwrap : simpl never.
Arguments swrap : simpl never.
Arguments Z.pow : simpl never.
Arguments Z.mul : simpl never.
Arguments Z.add : simpl never.
Arguments Z.sub : simpl never.
Arguments Z.leb : simpl never.

Definition bop_of_ovf (o : ovfop) : cbinop :=
  match o with OAdd => Oadd | OSub => Osub | OMul | OUMul => Omul end.

(* which signedness of the builtin's result type an overflow class may use *)
Definition ovf_sign_ok (o : ovfop) (sg : bool) : bool :=
  match o with OAdd | OSub => true | OMul => sg | OUMul => negb sg end.

(* an accepted builtin statement: (flag variable, stores the result) *)
Definition ovfb_ok (o : ovfop) (w : width) (s : cstmt) : option (nat * bool) :=
  match s with
  | SOvfB bo t e1 e2 fv st =>
      match leaf e1, leaf e2 with
      | Some (1%nat, t1), Some (2%nat, t2) =>
          if cty_eqb t1 t && cty_eqb t2 t && has_width w t && cbinop_eqb bo (bop_of_ovf o)
             && ovf_sign_ok o (ty_signed t)
             && Nat.eqb fv (if ty_signed t then flag_s else flag_u)
          then Some (fv, st) else None
      | _, _ => None
      end
  | _ => None
  end.

Definition is_some {A} (x : option A) : bool := match x with Some _ => true | None => false end.

Definition assigns (o : ovfop) (w : width) (fv : nat) (s : cstmt) : bool :=
  match ovfb_ok o w s with Some (fv', _) => Nat.eqb fv fv' | None => false end.
Definition stores (o : ovfop) (w : width) (s : cstmt) : bool :=
  match ovfb_ok o w s with Some (_, st) => st | None => false end.

(* only the last statement writes the result operand (earlier ones must not clobber an aliased input) *)
Definition stores_last (o : ovfop) (w : width) (l : list cstmt) : bool :=
  match rev l with
  | last :: rest => stores o w last && forallb (fun s => negb (stores o w s)) rest
  | [] => false
  end.

Definition m2c_ovf_ok (op : opcode) (l : list cstmt) : bool :=
  match ovf_class op with
  | Some (o, w) =>
      forallb (fun s => is_some (ovfb_ok o w s)) l
      && stores_last o w l
      && (negb (fst (ovf_defined op)) || existsb (assigns o w flag_s) l)
      && (negb (snd (ovf_defined op)) || existsb (assigns o w flag_u) l)
  | None => false
  end.

Definition m2c_row_ok (op : opcode) (l : list cstmt) : bool :=
  match ovf_class op with
  | Some _ => m2c_ovf_ok op l
  | None => match l with [s] => row_ok op s | _ => false end
  end.

(* ---- soundness of one builtin statement *)
Lemma tyrange_wt sg w z :
  ((ty_min (wt sg w) <=? z) && (z <=? ty_max (wt sg w))) = (if sg then fits_s w z else fits_u w z).
Proof. destruct sg, w; reflexivity. Qed.

Lemma exact_bop o x y : exact_binop (bop_of_ovf o) x y = Some (exact_op o x y).
Proof. destruct o; reflexivity. Qed.

Lemma exact_eqm o w x x' y y' : eqm (wbits w) x x' -> eqm (wbits w) y y' ->
  eqm (wbits w) (exact_op o x y) (exact_op o x' y').
Proof.
  intros. pose proof (wbits_pos w).
  destruct o; cbn [exact_op]; [apply eqm_add | apply eqm_sub | apply eqm_mul | apply eqm_mul]; try lia; assumption.
Qed.

Lemma ovfb_ok_sound o w s fv st a b :
  ovfb_ok o w s = Some (fv, st) ->
  exists v flag, stmt_ovfb (env_of [a; b]) s = Some (v, fv, flag, st)
    /\ eq_low w v (uw w (exact_op o a b))
    /\ (fv = flag_s -> flag = negb (fits_s w (exact_op o (sw w a) (sw w b))))
    /\ (fv = flag_u -> flag = negb (fits_u w (exact_op o (uw w a) (uw w b)))).
Proof.
  unfold ovfb_ok. destruct s as [| | | | |bo t e1 e2 fv' st'| |]; try discriminate.
  destruct (leaf e1) as [[[|[|k]] t1]|] eqn:L1; try discriminate.
  destruct (leaf e2) as [[[|[|[|k]]] t2]|] eqn:L2; try discriminate.
  destruct (cty_eqb t1 t && cty_eqb t2 t && has_width w t && cbinop_eqb bo (bop_of_ovf o)
            && ovf_sign_ok o (ty_signed t) && Nat.eqb fv' (if ty_signed t then flag_s else flag_u)) eqn:C; [|discriminate].
  intros H. inversion H; subst fv' st'. clear H.
  repeat (apply andb_prop in C; let H := fresh "C" in destruct C as [C H]).
  apply cty_eqb_eq in C. apply cty_eqb_eq in C4. subst t1 t2. apply cbinop_eqb_eq in C2. subst bo.
  apply Nat.eqb_eq in C0.
  cbn [stmt_ovfb].
  rewrite (leaf_wt e1 1%nat t w (env_of [a; b]) a L1 C3 eq_refl).
  rewrite (leaf_wt e2 2%nat t w (env_of [a; b]) b L2 C3 eq_refl).
  pose proof (wty_wt t w C3) as Et. remember (ty_signed t) as sg eqn:Sg. subst t.
  destruct (wt_props sg w) as (Hi & _ & Hs & _).
  rewrite Hi. cbn [andb]. rewrite exact_bop.
  eexists _, _. split; [reflexivity|]. split; [|split].
  - apply low_u64_wrap. apply exact_eqm; apply rd_eqm.
  - intros ->. rewrite tyrange_wt. destruct sg; [reflexivity | cbn in C0; discriminate].
  - intros ->. rewrite tyrange_wt. destruct sg; [cbn in C0; discriminate | reflexivity].
Qed.

(* what an accepted list of builtin statements guarantees for overflow instruction op *)
Definition ovf_stmts_sound (op : opcode) (l : list cstmt) : Prop :=
  forall args r sf uf, doc_ovf op args = Some (r, sf, uf) ->
    (* every statement is defined, computes the documented result and the documented flag *)
    (forall s, In s l -> exists v fv flag st, stmt_ovfb (env_of args) s = Some (v, fv, flag, st)
        /\ eqv op v r = true /\ (fv = flag_s -> flag = sf) /\ (fv = flag_u -> flag = uf))
    (* the last one, and only it, stores the result *)
    /\ (exists s rest, rev l = s :: rest
          /\ (exists v fv flag, stmt_ovfb (env_of args) s = Some (v, fv, flag, true))
          /\ (forall s', In s' rest -> exists v fv flag, stmt_ovfb (env_of args) s' = Some (v, fv, flag, false)))
    (* each flag the instruction defines is assigned *)
    /\ (fst (ovf_defined op) = true -> exists s v flag st, In s l /\ stmt_ovfb (env_of args) s = Some (v, flag_s, flag, st))
    /\ (snd (ovf_defined op) = true -> exists s v flag st, In s l /\ stmt_ovfb (env_of args) s = Some (v, flag_u, flag, st)).

Lemma m2c_ovf_ok_sound op l : m2c_ovf_ok op l = true -> ovf_stmts_sound op l.
Proof.
  unfold m2c_ovf_ok. destruct (ovf_class op) as [[o w]|] eqn:Hc; [|discriminate].
  intros H. repeat (apply andb_prop in H; let H' := fresh "H" in destruct H as [H H']).
  rewrite forallb_forall in H.
  intros args r sf uf Hd. unfold doc_ovf in Hd. rewrite Hc in Hd.
  destruct args as [|a [|b [|? ?]]]; try discriminate. unfold ovf in Hd. inversion Hd; subst r sf uf. clear Hd.
  assert (Each : forall s, In s l -> exists fv st v flag, ovfb_ok o w s = Some (fv, st)
            /\ stmt_ovfb (env_of [a; b]) s = Some (v, fv, flag, st)
            /\ eq_low w v (uw w (exact_op o a b))
            /\ (fv = flag_s -> flag = negb (fits_s w (exact_op o (sw w a) (sw w b))))
            /\ (fv = flag_u -> flag = negb (fits_u w (exact_op o (uw w a) (uw w b))))).
  { intros s Hin. specialize (H s Hin). destruct (ovfb_ok o w s) as [[fv st]|] eqn:E; [|discriminate].
    destruct (ovfb_ok_sound o w s fv st a b E) as (v & flag & Hs & Hl & Hfs & Hfu).
    exists fv, st, v, flag. repeat split; assumption. }
  split; [|split; [|split]].
  - intros s Hin. destruct (Each s Hin) as (fv & st & v & flag & _ & Hs & Hl & Hfs & Hfu).
    exists v, fv, flag, st. split; [exact Hs|]. split; [apply (eqv_ovf op o w); assumption|]. split; assumption.
  - unfold stores_last in H2. destruct (rev l) as [|s rest] eqn:R; [discriminate|].
    apply andb_prop in H2. destruct H2 as [Hs Hr]. rewrite forallb_forall in Hr.
    assert (InL : forall x, In x (s :: rest) -> In x l) by (intros x Hx; apply in_rev; rewrite R; exact Hx).
    exists s, rest. split; [reflexivity|]. split.
    + destruct (Each s (InL s (or_introl eq_refl))) as (fv & st & v & flag & E & Hsem & _).
      unfold stores in Hs. rewrite E in Hs. subst st. eauto.
    + intros s' Hin'. destruct (Each s' (InL s' (or_intror Hin'))) as (fv & st & v & flag & E & Hsem & _).
      specialize (Hr s' Hin'). unfold stores in Hr. rewrite E in Hr. destruct st; [discriminate|]. eauto.
  - intros Hdef. rewrite Hdef in H1. cbn in H1. apply existsb_exists in H1. destruct H1 as (s & Hin & Ha).
    destruct (Each s Hin) as (fv & st & v & flag & E & Hsem & _).
    unfold assigns in Ha. rewrite E in Ha. apply Nat.eqb_eq in Ha. subst fv. exists s, v, flag, st. split; assumption.
  - intros Hdef. rewrite Hdef in H0. cbn in H0. apply existsb_exists in H0. destruct H0 as (s & Hin & Ha).
    destruct (Each s Hin) as (fv & st & v & flag & E & Hsem & _).
    unfold assigns in Ha. rewrite E in Ha. apply Nat.eqb_eq in Ha. subst fv. exists s, v, flag, st. split; assumption.
Qed.

Definition m2c_row_sound (op : opcode) (l : list cstmt) : Prop :=
  match ovf_class op with
  | Some _ => ovf_stmts_sound op l
  | None => exists s, l = [s] /\ row_sound op s
  end.

Theorem m2c_row_ok_sound op l : m2c_row_ok op l = true -> m2c_row_sound op l.
Proof.
  unfold m2c_row_ok, m2c_row_sound. destruct (ovf_class op) as [[o w]|] eqn:Hc.
  - apply m2c_ovf_ok_sound.
  - destruct l as [|s [|? ?]]; try discriminate. intros H. exists s. split; [reflexivity|]. apply row_ok_sound. exact H.
Qed.

(* ---- table level *)
Definition flat (tbl : list (opcode * list cstmt)) : list (opcode * cstmt) :=
  flat_map (fun r => match snd r with [s] => [(fst r, s)] | _ => [] end) tbl.

Definition m2c_table_ok (tbl : list (opcode * list cstmt)) : bool :=
  forallb (fun r => if ld_opcode (fst r)
                    then match snd r with [s] => ld_row_ok (flat tbl) (fst r) s | _ => false end
                    else m2c_row_ok (fst r) (snd r)) tbl
  && forallb (fun op => negb (needs_row op || ld_opcode op) || existsb (fun r => opcode_eqb (fst r) op) tbl) all_opcodes.

Theorem m2c_table_ok_sound tbl : m2c_table_ok tbl = true ->
  forall op l, In (op, l) tbl -> ld_opcode op = false -> m2c_row_sound op l.
Proof.
  intros H op l Hin Hld. unfold m2c_table_ok in H. apply andb_prop in H. destruct H as [H _].
  rewrite forallb_forall in H. specialize (H (op, l) Hin). cbn [fst snd] in H. rewrite Hld in H.
  apply m2c_row_ok_sound. exact H.
Qed.

Theorem m2c_table_ok_total tbl : m2c_table_ok tbl = true ->
  forall op, needs_row op = true \/ ld_opcode op = true -> exists l, In (op, l) tbl.
Proof.
  intros H op Hn. unfold m2c_table_ok in H. apply andb_prop in H. destruct H as [_ H].
  rewrite forallb_forall in H. specialize (H op (all_opcodes_complete op)).
  assert (Hb : (needs_row op || ld_opcode op) = true) by (destruct Hn as [-> | ->]; [reflexivity | apply orb_true_r]).
  rewrite Hb in H. cbn in H. apply existsb_exists in H.
  destruct H as ([op' s] & Hin & He). cbn in He. apply opcode_eqb_eq in He. subst. eauto.
Qed.

Lemma in_flat tbl op s : In (op, s) (flat tbl) -> In (op, [s]) tbl.
Proof.
  unfold flat. rewrite in_flat_map. intros ([op' l] & Hin & Hs). cbn [fst snd] in Hs.
  destruct l as [|s' [|? ?]]; cbn in Hs; try contradiction. destruct Hs as [E|[]]. inversion E; subst. exact Hin.
Qed.

Theorem m2c_table_ok_ld_twin tbl : m2c_table_ok tbl = true ->
  forall op s d, In (op, [s]) tbl -> ld_twin op = Some d ->
  exists sd, In (d, [sd]) tbl /\ cstmt_eqb sd (ld2d_stmt s) = true /\ row_sound d sd.
Proof.
  intros H op s d Hin Ht. unfold m2c_table_ok in H. apply andb_prop in H. destruct H as [H _].
  rewrite forallb_forall in H. specialize (H (op, [s]) Hin). cbn [fst snd] in H.
  assert (Hld : ld_opcode op = true) by (destruct op; cbn in Ht; try discriminate; reflexivity).
  rewrite Hld in H. unfold ld_row_ok in H. rewrite Ht in H. apply existsb_exists in H.
  destruct H as ([d' sd] & Hin' & He). cbn [fst snd] in He.
  apply andb_prop in He. destruct He as [He Hok]. apply andb_prop in He. destruct He as [He Hs].
  apply opcode_eqb_eq in He. subst d'. exists sd. split; [apply in_flat; exact Hin'|]. split; [exact Hs|].
  apply row_ok_sound. exact Hok.
Qed.

(* Machine words as Z with explicit wrap-around.  Definitions + the few generic lemmas everybody
   needs.  Add property-specific lemmas in your own directory, not here. *)
From Coq Require Import ZArith Lia Bool List.
Local Open Scope Z_scope.

Definition two_p (n : Z) : Z := 2 ^ n.

(* unsigned / signed canonical representatives of z modulo 2^n *)
Definition uwrap (n z : Z) : Z := z mod 2 ^ n.
Definition swrap (n z : Z) : Z :=
  let u := z mod 2 ^ n in if u <? 2 ^ (n - 1) then u else u - 2 ^ n.

Definition u64 := uwrap 64.  Definition s64 := swrap 64.
Definition u32 := uwrap 32.  Definition s32 := swrap 32.
Definition u16 := uwrap 16.  Definition s16 := swrap 16.
Definition u8 := uwrap 8.    Definition s8 := swrap 8.

(* C truncating division / remainder on mathematical integers *)
Definition cdiv (a b : Z) : Z := Z.quot a b.
Definition crem (a b : Z) : Z := Z.rem a b.

(* shifts on n-bit patterns (count must be < n for C to be defined; callers check) *)
Definition shl (n a c : Z) : Z := uwrap n (a * 2 ^ c).
Definition lshr (n a c : Z) : Z := uwrap n a / 2 ^ c.
Definition ashr (n a c : Z) : Z := swrap n a / 2 ^ c.   (* Z./ floors, as an arithmetic shift does *)

Definition in_u (n z : Z) : Prop := 0 <= z < 2 ^ n.
Definition in_s (n z : Z) : Prop := - 2 ^ (n - 1) <= z < 2 ^ (n - 1).

Lemma uwrap_range n z : 0 <= n -> in_u n (uwrap n z).
Proof. intros. unfold in_u, uwrap. apply Z.mod_pos_bound. apply Z.pow_pos_nonneg; lia. Qed.

Lemma uwrap_id n z : in_u n z -> uwrap n z = z.
Proof. unfold in_u, uwrap. intros. apply Z.mod_small. assumption. Qed.

Lemma uwrap_idem n z : 0 <= n -> uwrap n (uwrap n z) = uwrap n z.
Proof. intros. unfold uwrap. apply Z.mod_mod. apply Z.pow_nonzero; lia. Qed.

Lemma swrap_range n z : 0 < n -> in_s n (swrap n z).
Proof.
  intros Hn. unfold in_s, swrap.
  assert (H2 : 2 ^ n = 2 * 2 ^ (n - 1)).
  { replace n with (Z.succ (n - 1)) at 1 by lia. rewrite Z.pow_succ_r by lia. reflexivity. }
  assert (Hp : 0 < 2 ^ (n - 1)) by (apply Z.pow_pos_nonneg; lia).
  pose proof (Z.mod_pos_bound z (2 ^ n) ltac:(lia)) as Hb.
  destruct (Z.ltb_spec (z mod 2 ^ n) (2 ^ (n - 1))); lia.
Qed.

Lemma swrap_id n z : 0 < n -> in_s n z -> swrap n z = z.
Proof.
  intros Hn [Hl Hh]. unfold swrap.
  assert (H2 : 2 ^ n = 2 * 2 ^ (n - 1)).
  { replace n with (Z.succ (n - 1)) at 1 by lia. rewrite Z.pow_succ_r by lia. reflexivity. }
  assert (Hp : 0 < 2 ^ (n - 1)) by (apply Z.pow_pos_nonneg; lia).
  destruct (Z_lt_le_dec z 0) as [Hneg|Hpos].
  - assert (E : z mod 2 ^ n = z + 2 ^ n).
    { symmetry. apply Z.mod_unique with (q := -1); lia. }
    rewrite E. destruct (Z.ltb_spec (z + 2 ^ n) (2 ^ (n - 1))); lia.
  - rewrite Z.mod_small by lia. destruct (Z.ltb_spec z (2 ^ (n - 1))); lia.
Qed.

Lemma swrap_uwrap n z : 0 < n -> swrap n (uwrap n z) = swrap n z.
Proof. intros. unfold swrap, uwrap. rewrite Z.mod_mod; auto. apply Z.pow_nonzero; lia. Qed.

Lemma uwrap_swrap n z : 0 < n -> uwrap n (swrap n z) = uwrap n z.
Proof.
  intros Hn. unfold swrap, uwrap.
  assert (Hp : 2 ^ n <> 0) by (apply Z.pow_nonzero; lia).
  destruct (Z.ltb_spec (z mod 2 ^ n) (2 ^ (n - 1))).
  - apply Z.mod_mod; auto.
  - replace (z mod 2 ^ n - 2 ^ n) with (z mod 2 ^ n + (-1) * 2 ^ n) by lia.
    rewrite Z.mod_add by auto. apply Z.mod_mod; auto.
Qed.

Lemma uwrap_add n a b : 0 <= n -> uwrap n (uwrap n a + uwrap n b) = uwrap n (a + b).
Proof. intros. unfold uwrap. symmetry. apply Z.add_mod. apply Z.pow_nonzero; lia. Qed.

Lemma uwrap_mul n a b : 0 <= n -> uwrap n (uwrap n a * uwrap n b) = uwrap n (a * b).
Proof. intros. unfold uwrap. symmetry. apply Z.mul_mod. apply Z.pow_nonzero; lia. Qed.

Lemma uwrap_sub n a b : 0 <= n -> uwrap n (uwrap n a - uwrap n b) = uwrap n (a - b).
Proof. intros. unfold uwrap. symmetry. apply Zminus_mod. Qed.

From Coq Require Import Extraction ExtrOcamlBasic List ZArith NArith.
From MirV Require Import Mir.Opcode C11.Tables C11.Ast C11.BinIO C11.BinWfDec C10.TextOut C10.FloatFmt C10.TextScan C10.TextTokens C10.ParseProofs C10.TextWfDec C11.TempNames.
Extraction Language OCaml.
Extraction "c11x.ml" write_ctx read_ctx w_ctx r_ctx p_ctx norm_module writable_ctx insn_desc branch_code_p
  call_code_p all_opcodes opcode_num opcode_of_num insn_nops var_arity
  Z.add Z.mul Z.opp Z.of_N Z.to_N Z.of_nat N.of_nat N.add N.mul str p_int p_nat
  fmtF fmtD fmtLD parseF parseD parseLD scan_ctx wf_ctx_b tnorm_module
  bin_item_counters bin_reg_counters text_item_counters relabel_ctx wf_text_b.

/* fixes/C07-13.patch: automatic-object initialiser: a string / struct-valued initialiser of a member that lies inside
   the tail bytes of a preceding bit-field storage unit was copied to the end of that unit instead of to the member */
#include <stdio.h>
struct S1 { unsigned int f0 : 9; char f1[4]; unsigned int f2; short f3; };
struct In { char a, b; };
struct S2 { unsigned f : 9; struct In in; char c; int z; };
struct S3 { long f : 3; char a[3]; struct In in; short s; };
struct In mk (int x) { struct In r = { x, x + 1 }; return r; }
int main (void) {
  struct In iv = { 7, 8 };
  struct S1 ls0 = { 5, "abc", 9 };
  struct S2 a = { 5, iv, 'q', 11 };
  struct S2 b = { 6, mk (20), 'r' };
  struct S2 c = { 6, (struct In) { 1, 2 }, 's' };
  struct S3 d = { -2, "xy", mk (30), 77 };
  struct S3 e = { .a = "z", .in = iv };
  printf ("%d %s %u %d\n", ls0.f0, ls0.f1, ls0.f2, ls0.f3);
  printf ("%d %d %d %c %d | %d %d %d %c %d | %d %d %d %c %d\n", a.f, a.in.a, a.in.b, a.c, a.z, b.f, b.in.a, b.in.b, b.c, b.z, c.f, c.in.a, c.in.b, c.c, c.z);
  printf ("%d %s %d %d %d | %d %s %d %d %d\n", (int) d.f, d.a, d.in.a, d.in.b, d.s, (int) e.f, e.a, e.in.a, e.in.b, e.s);
  return 0;
}

#include <stdio.h>
typedef unsigned long long u64;
static u64 chk = 14695981039346656037ULL;
static void mix (u64 v) { chk = (chk ^ v) * 1099511628211ULL; }
static unsigned udiv32 (unsigned a, unsigned b) { return b == 0 ? a : a / b; }
struct S0 {
  signed char f0;
  unsigned int f1 : 8;
};
union U0 { long long ll; struct { int lo; unsigned hi; } s; unsigned char b[8]; struct { short h0; unsigned short h1; struct { signed char c0; unsigned char c1; short h2; } in; } t; unsigned long ul; };
union U0 gu0 = { 32767U };
volatile int g1 = (((unsigned int)(-63)) - ((unsigned int)256LL));
volatile unsigned char g2 = (((unsigned long long)3L) ^ ((unsigned long long)(-0x40)));
struct S0 gs1 = { .f0 = (((unsigned long)2147483648U) * ((unsigned long)16LL)), .f1 = 0x7fffu };
unsigned char ga[5] = { (((unsigned int)65535) - ((unsigned int)(-0xfULL))), (((unsigned int)0x3) * ((unsigned int)0x100000000ul)), (((unsigned int)'\x1f') + ((unsigned int)5l)), (((unsigned long)16ULL) + ((unsigned long)0x5ul)), '\x0' };
static long p0 (signed char a0) {
  return (! ((unsigned long)(((unsigned int)(-65536ULL)) ^ ((unsigned short)g1))));
}
static struct S0 sf0 (struct S0 s, long x) {
  { unsigned w1 = 0;
    do {
    } while (++w1 < 4);
  }
  return s;
}
static void pp0 (struct S0 *p, unsigned k) {
}
static void pp1 (struct S0 *p, unsigned k) {
  if ((((unsigned int)((((unsigned long)p->f1) + ((short)0xful)) && (((unsigned char)p->f0) * ((short)p->f0)))) - ((unsigned int)(((unsigned short)(((unsigned long long)k) * ((unsigned long long)k))) < ((_Bool)(((unsigned long)0x3L) >> (((unsigned int)k) % 64))))))) goto L4;
  mix ((u64)(p->f0 = ((unsigned long long)p->f1)));
  L4: ;
  p->f1 = p->f0;
}
static void pp2 (struct S0 *p, unsigned k) {
  for (int i7 = 0; i7 < 3; i7++) {
  }
}
int main (void) {
  _Bool l1 = (((unsigned int)(((int)((unsigned char)ga[4])) << (((unsigned int)gu0.s.lo) % 16))) * ((unsigned int)4294967296));
  struct S0 ls0 = { 0 };
  struct S0 ls1 = { (-1ULL) };
  { long t10 = (((unsigned int)(((char)(((unsigned int)g2) * ((unsigned int)l1))) <= ((_Bool)(- ((unsigned long long)gu0.b[7]))))) * ((unsigned int)(~ (32768LL ? gu0.t.in.h2 : 64ull))));
    { unsigned w11 = 1;
      while (w11-- > 0) {
        ls0 = ls1;
      }
    }
  }
  pp1 (&gs1, ((unsigned int)('\x1' && ls0.f0)));
  for (int i13 = 0; i13 < 5; i13++) {
  }
  if (p0 ((! gu0.b[1]))) {
  }
  else {
    for (int i16 = 0; i16 < 5; i16++) {
      if ((gu0.b[7] ? ga[2] : ls0.f1)) {
      }
      else {
        mix ((u64)udiv32 ((((signed char)gu0.b[5]) - ((signed char)(-16))), (((unsigned int)gs1.f0) | ((unsigned int)gs1.f0))));
      }
    }
  }
  printf ("%llx\n", chk);
}

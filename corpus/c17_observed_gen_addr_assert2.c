extern void *alloca (unsigned long);
extern long host_add (long, long);
enum e8 { E08, E18 = 5, E28 = -3 };
struct s8 { long a; const char *p; int arr[2]; volatile short v; };
union u8 { unsigned w; unsigned char b[4]; };
struct b8 { unsigned x : 5; int y : 7; };
static const char dflt8[] = "default";
static volatile int vol8 = 3;
static const long ctab8[4] = {1, 2, 3, 4};
static const struct s8 cst8 = {9, dflt8, {7, 8}, 1};
static long hadd8 (long a, long b) { return a * 3 + b; }
static int h18 (char a, double b, const char *s) { return a + (b > 1.0) + s[0]; }
static long h28 (struct s8 s, const volatile void *p) { return s.a + s.arr[1] + (p != 0); }
long f8 (long n) {
  long r = 0, fuel = 40 + (n & 7), k0 = 0, k1 = 0, k2 = 0;
  char c = (char) n; signed char sc = -3; unsigned char uc = 200; short sh = (short) (n * 7); unsigned short us = 65000;
  int i = (int) n + 1; unsigned u = 4000000000u; long l = n * 1000003; unsigned long ul = ~0ul - (unsigned long) n; long long ll = -n; _Bool bo = n & 1;
  float fl = 1.5f; double d = (double) n / 4; long double ld = 2.5L;
  char cbuf[16] = "abcdefghijklmno"; long larr[8] = {1, 2, 3, 4, 5, 6, 7, 8}; double darr[4] = {0.5, 1.5, 2.5, 3.5}; int mat[2][3] = {{1, 2, 3}, {4, 5, 6}};
  volatile int vi = 2;
  struct s8 st = {n, dflt8, {1, 2}, 4}, st2, *ps = &st; const struct s8 *pcs = &cst8;
  union u8 un; struct b8 bf = {3, -2};
  char *pc = cbuf; const char *pcc = dflt8; void *pv = larr; const void *pcv = ctab8; volatile int *pvi = &vol8; long *pl = larr;
  const long *pcl = ctab8; const volatile char *pcvc = cbuf; char *restrict pr = cbuf + 2; volatile void *pvv = &vi;
  const volatile void *sink = 0;
  char *pc2 = 0; const char *pcc2 = 0; void *pv2 = 0; const void *pcv2 = 0; volatile int *pvi2 = 0; long *pl2 = 0; const long *pcl2 = 0;
  const volatile char *pcvc2 = 0; char *restrict pr2 = 0; struct s8 *ps2 = 0; const struct s8 *pcs2 = 0; volatile void *pvv2 = 0;
  long (*fp) (long, long) = hadd8;
  static void *const tab[] = {&&L2, &&L2, &&L3, &&L3};
  void *lab = &&L0, *labs_auto[2] = {&&L0, &&L1};
  un.w = 0x01020304u; st2 = st;
  if (--fuel > 0) goto *tab[ll & 3];
  if (i) {
    {
      long r2 = (host_add (525, c), sizeof (d + 0));
      const char *q = cbuf;
      void *w = alloca ((u & 7) + 1);
      r += r2 + (q != 0) + (w != 0);
    }
    sink = ((bo - 0) ? (n ? pcl2 : pcl) : &l);
    r += sink != 0;
    L0: ;
  }
  do {
    (void) (n != sizeof (fl + 0));
    L3: ;
  } while (--fuel > 0 && ps->v);
  L2: ;
  L1: ;
  return r + i + (long) u + l + c + sc + uc + sh + us + (long) d + bo + st.a + un.b[1] + bf.x;
}

extern int printf(const char*,...);
long host_add (long a, long b) { return a + b; }
int main(void){ printf("%ld\n", f8(33)); printf("%ld\n", f8(5)); return 0; }

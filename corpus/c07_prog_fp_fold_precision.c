/* fixes/C07-16 (8946bc0f): + - * / of double constants were folded in long double and rounded afterwards */
#include <stdio.h>
static double g = 1.0 + 0x1.0000000000001p-53;
static double h = 0x1.0000000000001p0 * 0x1.fffffffffffffp-1;
double a = 1.0, b = 0x1.0000000000001p-53, c = 0x1.0000000000001p0, d = 0x1.fffffffffffffp-1;
int main (void) {
  double r = 1.0 + 0x1.0000000000001p-53;
  printf ("%a %a %a\n", g, r, a + b);
  printf ("%a %a\n", h, c * d);
  return (g != a + b) + 2 * (h != c * d);
}

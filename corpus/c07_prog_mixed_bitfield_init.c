/* C07 known-finding witness: static initializer of adjacent bit-fields whose declared types have
   different storage-unit sizes.  gcc: "196 1 255 5 | 493 1 100"; c2m (all engines) loses f2 and shifts f4. */
#include <stdio.h>
struct S0 { unsigned int f0 : 9; _Bool f1 : 1; unsigned int f2 : 8; long f4; };
struct S0 gs2 = { .f0 = 196, .f1 = 1, .f2 = 255, .f4 = 5 };
struct S0 gs1 = { .f2 = 'd', .f1 = 1, .f0 = 493 };
int main (void) {
  printf ("%d %d %d %ld | %d %d %d\n", gs2.f0, gs2.f1, gs2.f2, gs2.f4, gs1.f0, gs1.f1, gs1.f2);
  return 0;
}

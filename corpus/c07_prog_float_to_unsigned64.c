/* fixes/C07-17 (05f486f9): run-time conversion of a floating value >= 2^63 to a 64-bit unsigned type gave 0x8000000000000000 */
#include <stdio.h>
float f[] = {0x1p63f, 0xffffffp40f, 1.5f, 0.0f, 0x1p62f, -0.5f, 0xfffffep39f};
double dd[] = {0x1p63, 0x1fffffffffffffp11, 1.5, 0x1p63 + 2048, 0x1.fffffffffffffp62, 4294967296.0};
long double l[] = {0x1p63L, 0xffffffffffffffffp0L, 0x8000000000000001p0L, 0x7fffffffffffffffp0L, 3.75L};
volatile float vf = 0xffffffp40f;
int main (void) {
  for (int i = 0; i < 7; i++) printf ("%llx ", (unsigned long long) f[i]);
  for (int i = 0; i < 6; i++) printf ("%lx ", (unsigned long) dd[i]);
  for (int i = 0; i < 5; i++) printf ("%llx ", (unsigned long long) l[i]);
  unsigned long u = vf; unsigned x = (unsigned) dd[5 - 5 + 2]; printf ("%lx %x\n", u, x);
  return 0;
}

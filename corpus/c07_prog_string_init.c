/* fixes/C07-10.patch: after a string literal initialises a char array reached by brace elision,
   the next initialiser continues inside that array instead of after it (C11 6.7.9p14,p17,p20). */
#include <stdio.h>
struct S { char s[6]; int x; };
struct S s2 = {"abc", 120};
struct S a1[] = {{"abc", 1}, {"de", 2}};
char names[][8] = {"foo", "bar", "baz"};
char bar[][6] = {"Hello", '\0'};
int main (void) {
  struct S l2 = {"abc", 120};
  char n3[3][8] = {"foo", "bar", "baz"};
  printf ("%s %d | %s %d | %s %d %s %d\n", s2.s, s2.x, l2.s, l2.x, a1[0].s, a1[0].x, a1[1].s, a1[1].x);
  printf ("%d %s %s | %s %s %s | %d\n", (int) sizeof names, names[1], names[2], n3[0], n3[1], n3[2], (int) sizeof bar);
  return 0;
}

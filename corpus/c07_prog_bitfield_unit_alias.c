/* fixes/C07-14.patch: accesses to one bit-field storage unit carried different type-alias names (by the
   expression type of each bit-field: `long a:40` -> long, `long b:3` -> int), so at -O2/-O3/-el/-eb a read-modify-
   write of the unit could use a stale copy; also in automatic-object initialisers (alias of the declared type) */
#include <stdio.h>
struct S { long a : 40; long b : 3; unsigned c : 9; int d; };
struct S g;
void set (struct S *p, long x, long y, unsigned z) {
  p->a = x; p->b = y; p->c = z; p->a = p->a + 1; p->b = p->b + 1;
}
int main (void) {
  struct S s;
  s.a = 5; s.b = 1; s.c = 300; s.d = 9;
  s.a = s.a + s.b; s.b = 2; s.c = s.c + s.a;
  printf ("%ld %d %u %d\n", (long) s.a, (int) s.b, (unsigned) s.c, s.d);
  set (&g, 1000, 2, 17);
  printf ("%ld %d %u\n", (long) g.a, (int) g.b, (unsigned) g.c);
  struct S0 { long m1 : 32; unsigned long long m2 : 3; long f : 1; } ad = { .m2 = 7, .m1 = 2 };
  printf ("%ld %d %d\n", (long) ad.m1, (int) ad.m2, (int) ad.f);
  return 0;
}

#include <stdio.h>
static int a[3] = {[0] = 1, [1] = 5, [0] = 2};
struct S {int x, y;};
static struct S s = {.x = 1, .y = 2, .x = 3};
int main(void){ int b[3] = {[0] = 1, [1] = 5, [0] = 2}; struct S t = {.x = 1, .y = 2, .x = 3};
 printf("%d %d %d | %d %d | %d %d %d | %d %d\n", a[0],a[1],a[2], s.x, s.y, b[0],b[1],b[2], t.x,t.y); return 0;}

/* known finding prog:corpus:c07_prog_wchar_const.c: L'x' is typed unsigned int although c2m's own <stddef.h> defines wchar_t as int
   (C11 6.4.4.4p11: a wide character constant prefixed by L has type wchar_t) */
#include <stdio.h>
#include <stddef.h>
int main (void) {
  printf ("%d %d %d\n", L'a' - 200 < 0, _Generic(L'a', wchar_t:1, default:2), (wchar_t) -1 < 0);
  return 0;
}

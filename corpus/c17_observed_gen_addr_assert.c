extern long host_add (long, long);
struct sq { long a; const char *p; int arr[2]; volatile short v; };
union uq { unsigned w; unsigned char b[4]; };
struct bq { unsigned x : 5; int y : 7; };
static const char dfltq[] = "default";
static volatile int volq = 3;
static const long ctabq[4] = {1, 2, 3, 4};
static const struct sq cstq = {9, dfltq, {7, 8}, 1};
static long haddq (long a, long b) { return a * 3 + b; }
static int h1q (char a, double b, const char *s) { return a + (b > 1.0) + s[0]; }
static long h2q (struct sq s, const volatile void *p) { return s.a + s.arr[1] + (p != 0); }
long fq (long n) {
  long r = 0, fuel = 40 + (n & 7), k0 = 0, k1 = 0, k2 = 0;
  char c = (char) n; signed char sc = -3; unsigned char uc = 200; short sh = (short) (n * 7); unsigned short us = 65000;
  int i = (int) n + 1; unsigned u = 4000000000u; long l = n * 1000003; unsigned long ul = ~0ul - (unsigned long) n; long long ll = -n; _Bool bo = n & 1;
  float fl = 1.5f; double d = (double) n / 4; long double ld = 2.5L;
  char cbuf[16] = "abcdefghijklmno"; long larr[8] = {1, 2, 3, 4, 5, 6, 7, 8}; double darr[4] = {0.5, 1.5, 2.5, 3.5}; int mat[2][3] = {{1, 2, 3}, {4, 5, 6}};
  volatile int vi = 2;
  struct sq st = {n, dfltq, {1, 2}, 4}, st2, *ps = &st; const struct sq *pcs = &cstq;
  union uq un; struct bq bf = {3, -2};
  char *pc = cbuf; const char *pcc = dfltq; void *pv = larr; const void *pcv = ctabq; volatile int *pvi = &volq; long *pl = larr;
  const long *pcl = ctabq; const volatile char *pcvc = cbuf; char *restrict pr = cbuf + 2; volatile void *pvv = &vi;
  const volatile void *sink = 0;
  char *pc2 = 0; const char *pcc2 = 0; void *pv2 = 0; const void *pcv2 = 0; volatile int *pvi2 = 0; long *pl2 = 0; const long *pcl2 = 0;
  static void *const tab[] = {&&L3, &&L1, &&L2, &&L0};
  void *lab = &&L0, *labs_auto[2] = {&&L0, &&L0};
  do {
    L3: ;
    for (k1 = 0; k1 < (l & 3) + 1 && --fuel > 0; k1++) {
    }
  } while (--fuel > 0 && ((fl * _Generic (u, int: 1, long: 2, unsigned: 3, double: 4, char: 5, default: 6)), ((short) _Generic (d, int: 1, long: 2, unsigned: 3, double: 4, char: 5, default: 6))));
  L1: ;
  {
    long r2 = ((_Alignof (struct sq) || d) + ((c ? host_add : haddq) (ll, n) <= (fl ? bo : 0.25f)));
    const char *q = dfltq;
  }
  L2: ;
  if ((sizeof (long) > sh)) {
    r -= (long) ((!(7 ? &l : &larr[ul & 7])) + n);
    L0: ;
    r += sink != 0;
  }
  if (2) {
  }
  if ((*haddq) (u, 2)) {
    do {
    } while (--fuel > 0 && (((const volatile void *) (0.25f ? pl : pvv) == (const volatile void *) pv) + h2q (*pcs, st.p)));
  }
  {
    long r2 = (- (sh - d));
    const char *q = pcc2;
  }
  if (--fuel > 0 && ((long) u << (bf.x & 7))) goto *labs_auto[c & 1];
}
long host_add (long a, long b) { return a + b; }
int main(void){ printf("%ld\n", fq(0)); printf("%ld\n", fq(5)); printf("%ld\n", fq(11)); return 0; }
/* fixes/C07-12.patch (needs C07-11): _Generic selects by the type of the controlling expression after lvalue
   conversion, without integer promotion (C11 6.5.1.1p2-3, DR 481); int and const int, char * and
   const char * are distinct association types (6.7.3p10). */
#include <stdio.h>
int main (void) {
  char c = 1; short s = 1; const int ci = 1; const char *cp = ""; char *p = 0;
  printf ("%d %d %d %d\n", _Generic((char)1, char:1, int:2), _Generic(c, char:1, int:2, default:3),
          _Generic(s, short:1, int:2, default:3), _Generic('a', char:1, int:2));
  printf ("%d %d %d %d\n", _Generic(ci, int:1, const int:2), _Generic(cp, const char *:1, char *:2),
          _Generic(p, const char *:1, char *:2), _Generic(u'x', unsigned short:1, int:2, default:3));
  return 0;
}

#include <stdio.h>
int main (void) {
  int n = 0;
  for (int i = 0; i < 3; i++) {
    unsigned w = 4;
    while (w-- > 0) n++;
  }
  printf ("%d\n", n);
  return 0;
}

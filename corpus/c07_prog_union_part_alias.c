/* fixes/C07-15 (562cc8b2): parts of union members carried type aliases, wrong code at -O2/-O3/-el/-eb:
   element of an array member of a union, union member vs a pointer to its type, members of an anonymous union,
   member of a member struct vs a pointer to its type. */
#include <stdio.h>
typedef unsigned long long u64;
struct A { int tag; union { int i; float f; }; };
union U { int i; float f; };
union V { struct { int x; float y; } s; unsigned w[2]; };
static u64 bits_l (long double x) { union { long double l; u64 u[2]; } v; v.u[0] = v.u[1] = 0; v.l = x; return v.u[0] ^ ((v.u[1] & 0xffffu) * 0x10001u); }
u64 take (long double a0, int b0) { return bits_l (a0) + b0; }
int g0 (union U *u, int *p) { u->i = 1; *p = 5; return u->i; }
float g1 (struct A *a) { a->f = 1.5f; a->i = 0x40000000; return a->f; }
int g2 (union U *u, union U *v) { u->i = 1; *v = (union U){ .i = 7 }; return u->i; }
unsigned g3 (union V *v) { v->w[1] = 3; v->s.y = 2.0f; return v->w[1]; }
unsigned g4 (union V *v, unsigned *p) { v->w[0] = 3; *p = 9; return v->w[0]; }
int g5 (union V *v, float *p) { v->s.y = 1.0f; *p = 4.0f; return v->s.y == 4.0f; }
int main (void) {
  struct A a; union U u; union V v;
  a.tag = 0; u.f = 0;
  printf ("%llx\n", take (3.125L, 82));
  printf ("%d\n", g0 (&u, &u.i));
  printf ("%g\n", g1 (&a));
  printf ("%d\n", g2 (&u, &u));
  printf ("%x\n", g3 (&v));
  printf ("%u\n", g4 (&v, &v.w[0]));
  printf ("%d\n", g5 (&v, &v.s.y));
  return 0;
}

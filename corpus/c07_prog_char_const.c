/* fixes/C07-11.patch: an integer character constant has type int (C11 6.4.4.4p10) */
#include <stdio.h>
int main (void) { printf ("%d %d\n", (int) sizeof ('a'), (int) sizeof ('a' + 0)); return 0; }

#define w7_F(x) [x]
#define w7_G(x,y) <x|y>
#define w7_P w7_F(1
#define w7_Q w7_P
#define w7_R w7_Q
#define w7_H w7_G(a , w7_F(2
#define w7_I w7_H
#define w7_J w7_I
w7_Q ) ;
w7_R + 2 ) ;
w7_J ) b ) ;

#define w9_S(x) #x
#define w9_XS(x) w9_S(x)
#define w9_M(x) a ## x b
#define w9_N(x) a x ## b
#define w9_O(x,y) a x ## y b
#define w9_T(x,y) w9_S(a x ## y b) w9_S( x a  x  y ## x  b  y )
w9_XS(w9_M()) w9_XS(w9_N()) w9_XS(w9_O(,)) ;
w9_M() w9_N() w9_O(,) ;
w9_T(,) w9_T( , ) ;
w9_S(   a
  b   ) w9_XS(  a    b  ) ;

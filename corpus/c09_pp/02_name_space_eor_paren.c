#define w2_M0(x) x
#define w2_M1(x) [x]
w2_M0 ( w2_M1 ) ( 5 ) ;
w2_M0(w2_M1)(6) ;
#define w2_M3 = w2_M0 ( w2_M1 ) ( w2_M1 ) 1
w2_M3 ;

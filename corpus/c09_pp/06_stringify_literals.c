#define w6_S(x) #x
#define w6_X(x) w6_S(x)
w6_S("a\n" b) ;
w6_S("a\n"b) ;
w6_S("a\n"+) ;
w6_S('\n'n) ;
w6_S(\n) ;
w6_S("\\"x) ;
w6_S("q\"r"0) ;
w6_S('\\''"') ;
w6_X("\\" "\"") ;
w6_S( a  +   "b  c"  ) ;

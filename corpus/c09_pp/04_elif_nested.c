#if 1
w4_a ;
#elif 1
#if 1
w4_b ;
#endif
w4_c ;
#ifdef w4_X
w4_d ;
#else
w4_e ;
#endif
w4_f ;
#else
w4_g ;
#endif
w4_h ;

#define w5_x 3
#define w5_f(a) w5_f(w5_x * (a))
#undef w5_x
#define w5_x 2
#define w5_g w5_f
#define w5_z w5_z[0]
#define w5_h w5_g(~
#define w5_m(a) a(w5_w)
#define w5_w 0,1
#define w5_t(a) a
#define w5_p() int
#define w5_q(x) x
#define w5_r(x,y) x ## y
#define w5_str(x) # x
w5_f(y+1) + w5_f(w5_f(w5_z)) % w5_t(w5_t(w5_g)(0) + w5_t)(1);
w5_g(w5_x+(3,4)-w5_w) | w5_h 5) & w5_m
(w5_f)^w5_m(w5_m);
w5_p() i[w5_q()] = { w5_q(1), w5_r(2,3), w5_r(4,), w5_r(,5), w5_r(,) };
char c[2][6] = { w5_str(hello), w5_str() };
#define w5_xstr(s) w5_str(s)
#define w5_debug(s, t) printf("x" # s "= %d, x" # t "= %s", x ## s, x ## t)
#define w5_glue(a, b) a ## b
#define w5_xglue(a, b) w5_glue(a, b)
#define w5_HIGHLOW "hello"
#define w5_LOW w5_LOW ", world"
w5_debug(1, 2);
fputs(w5_str(strncmp("abc\0d", "abc", '\4') == 0) w5_str(: @\n), s);
w5_glue(w5_HIGH, w5_LOW);
w5_xglue(w5_HIGH, w5_LOW)
#define w5_t2(x,y,z) x ## y ## z
int j[] = { w5_t2(1,2,3), w5_t2(,4,5), w5_t2(6,,7), w5_t2(8,9,), w5_t2(10,,), w5_t2(,11,), w5_t2(,,12), w5_t2(,,) };
#define w5_showlist(...) puts(#__VA_ARGS__)
#define w5_report(test, ...) ((test)?puts(#test): printf(__VA_ARGS__))
w5_showlist(The first, second, and third items.);
w5_report(x>y, "x is %d but y is %d", x, y);

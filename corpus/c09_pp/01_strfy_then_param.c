#define w1_M0(x, y) # y y w1_M0
: 22 w1_M0( , <<) ;
#define w1_M1(x) # x p x
w1_M1(a + b) ;

#define w3_box(x) [x]
#define w3_alias1 w3_box
#define w3_alias2 w3_alias1
#define w3_alias3 w3_alias2
w3_alias2(2) w3_alias3 (3) w3_alias1
(1) ;

#define w8_Z() z
#define w8_ID(x) x
w8_Z(
) ;
w8_Z( ) w8_Z(
  
) ;
w8_ID(w8_Z
(
)) ;

/* C11 6.5.3.2p3: &A has type "pointer to A"; for an array A c2m types it like the decayed A (pointer to the ELEMENT), so
   `&g[1] + 1`, `&g + 1`, `&s.v + 1` move by one element instead of one array -- at compile time (static initialisers) and at
   run time alike.  gcc prints "32 48 32 1"; c2m (at /repo 166dfacf) "20 16 20 0".  Known finding (KNOWN_FINDINGS.txt), run by part B as the witness;
   tools/gen_c07_addr.py keeps ADDR_OF_ARRAY_ARITH off while the probe in checks/c07.py ADDR_PROBES fails. */
#include <stdio.h>
int g[3][4];
static int (*p)[4] = &g[1] + 1;
static void *q = &g + 1;
int main (void) {
  int (*r)[4] = &g[0] + 2;
  printf ("%ld %ld %ld %d\n", (long) ((char *) p - (char *) g), (long) ((char *) q - (char *) g),
          (long) ((char *) r - (char *) g), (int) (sizeof (*&g[1]) == sizeof (int[4])));
  return 0;
}
